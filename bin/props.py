"""Per-property check specifications: which harness stages run, run counts per tier, evidence texts."""

# worker classes (see sim.hpp): locks in bits 0-1, debug mode in bit 2; 16 workers cycle through this list
CLASSES = [1, 0, 2, 5, 1, 4, 6, 1, 0, 2, 5, 1, 4, 6, 1, 2]

REAL_CORE = ["event.c", "evmap.c", "epoll.c", "poll.c", "select.c", "signal.c", "signalfd.c", "minheap-internal.h", "evutil_time.c", "watch.c", "evthread.c", "log.c"]
SIM_COMMON = ["monotonic and wall clock (virtual)", "the blocking wait of each backend (zero-timeout real query + virtual sleep)", "allocator (ledger)", "locks (simulator-owned, single thread)"]

def h1(prop, quick, thorough):
    def stages(tier):
        return [dict(name="h_core", harness="h_core", count=quick if tier == "quick" else thorough)]
    return stages

ASSUME_R = ["World R: pipes / AF_UNIX socketpairs change readiness synchronously inside the syscall that causes it (Linux); checked by the determinism audit, not guaranteed by POSIX",
            "the reference model in ref/evmodel.hpp is the statement of 'documented behaviour'; ties the documentation leaves open (equal deadlines, fds reported by one wait) are accepted in any order",
            "sampling of plans by seeded search, not enumeration"]

REAL_BUF = ["buffer.c", "evbuffer-internal.h", "event.c (deferred callbacks)", "evutil.c"]
SIM_BUF = ["allocator (ledger, n-th allocation failure)", "read/readv/write/writev/sendfile/pread/ioctl(FIONREAD) results (scripted per op on a real socketpair)", "monotonic clock (virtual)", "locks (simulator-owned)"]
ASSUME_BUF = ["the byte-string model in h/h_evbuf.cpp states the documented behaviour of each call; return values the documentation leaves open are not compared",
              "chain invariants are checked through evbuffer-internal.h (shim/shim.c)", "sampling of operation sequences by seeded search, not enumeration"]
def h3(quick, thorough):
    def stages(tier):
        return [dict(name="h_evbuf", harness="h_evbuf", count=quick if tier == "quick" else thorough)]
    return stages

PROPS = {
 "C01": dict(level="exploration", stages=h1("C01", 60000, 900000),
   rule="plans of 3-60 (thorough: 10-200) ops over 2-12 events drawn from one seed; a run is non-trivial when >= 2 timer callbacks fired and >= 1 add/del/re-add/remove_timer hit an event whose timeout was pending or active; distinct = distinct full-trace hashes among non-trivial runs",
   components=dict(real=REAL_CORE, simulated=SIM_COMMON, stubbed=[]), assumptions=ASSUME_R,
   expected_probes=["common-timeout-add", "tie-group"]),
 "C02": dict(level="exploration", stages=h1("C02", 80000, 1200000),
   rule="same plan family, query-heavy mix; non-trivial when >= 5 ops ran, >= 2 full event_pending sweeps (all 31 masks + expiry) were compared and >= 1 state transition happened; distinct = distinct trace hashes among non-trivial runs",
   components=dict(real=REAL_CORE, simulated=SIM_COMMON, stubbed=[]), assumptions=ASSUME_R,
   expected_probes=["priority-set-refused"]),
 "C03": dict(level="exploration", stages=h1("C03", 20000, 300000),
   rule="same plan family with 1-6 priorities, max_dispatch_interval settings, deferred-callback bursts and loop-control calls from inside callbacks; non-trivial when callbacks ran at >= 2 priorities or a loop-control call took effect; distinct = distinct trace hashes among non-trivial runs",
   components=dict(real=REAL_CORE + ["buffer.c (deferred evbuffer callbacks as the deferred-callback source)"], simulated=SIM_COMMON, stubbed=[]), assumptions=ASSUME_R,
   expected_probes=["loopbreak-in-callback", "loopcontinue-in-callback", "more-than-32-deferred", "active-later"]),
 "C45": dict(level="exploration", stages=h1("C45", 70000, 1000000),
   rule="same plan family, watcher-heavy mix (up to 6 prepare/check watchers created and freed at top level, from event callbacks and from watcher callbacks); non-trivial when >= 1 watcher callback was compared; distinct = distinct trace hashes among non-trivial runs",
   components=dict(real=REAL_CORE, simulated=SIM_COMMON, stubbed=[]), assumptions=ASSUME_R,
   expected_probes=["watcher-created-in-callback"]),
 "C12": dict(level="exploration", stages=h3(20000, 300000),
   rule="sequences of 5-60 (thorough 10-150) evbuffer calls over 4 buffers, sizes biased to chain boundaries; after every call: return value, out-parameters, full content (via peek), chain invariants; non-trivial when >= 10 calls ran and some buffer had >= 3 data chains; distinct = distinct trace hashes among non-trivial runs. No schedule or fault in this property: it is the fault-free baseline configuration of the C13-C16 harness",
   components=dict(real=REAL_BUF, simulated=SIM_BUF, stubbed=[]), assumptions=ASSUME_BUF, expected_probes=["pullup", "search-hit"]),
 "C13": dict(level="exploration", stages=h3(30000, 450000),
   rule="same sequences with up to 4 callbacks per buffer, enable/disable/NODEFER toggles, self-removing and buffer-mutating callbacks, deferred delivery through a real event_base; non-trivial when a callback saw added and deleted both non-zero in one report; distinct = distinct trace hashes among non-trivial runs",
   components=dict(real=REAL_BUF, simulated=SIM_BUF, stubbed=[]), assumptions=ASSUME_BUF, expected_probes=["callback-disabled", "callback-removes-itself", "callback-mutates-buffer"]),
 "C14": dict(level="fault_enumeration", stages=h3(1500, 25000),
   rule="for each sampled sequence of 3-25 calls a counting pass records the number A of library allocations, then the sequence is re-run once per n in 1..A with the n-th allocation (optionally: and every later one) failing; the failing call must fail cleanly (all four buffers unchanged) or succeed fully; non-trivial when the failure fired inside a call; distinct = distinct trace hashes among non-trivial runs (one run = one sequence with its whole sweep)",
   components=dict(real=REAL_BUF, simulated=SIM_BUF, stubbed=[]), assumptions=ASSUME_BUF + ["exhaustive over allocation positions within each sampled sequence (capped at 400 positions); the sequences are sampled"], expected_probes=[]),
 "C15": dict(level="exploration", stages=h3(12000, 200000),
   rule="sequences rich in add_reference(_with_offset), add_buffer_reference and file segments (memfd files, offsets/lengths across page boundaries, mmap / sendfile / read modes); referenced memory is mapped read-only and scribbled by its cleanup callback, so a modification in place faults and a premature cleanup shows up as wrong content; non-trivial when referenced bytes were read back through some path and a cleanup was observed; distinct = distinct trace hashes among non-trivial runs",
   components=dict(real=REAL_BUF, simulated=SIM_BUF + ["file segments over real memfd files (mmap64 / pread / sendfile real)"], stubbed=[]), assumptions=ASSUME_BUF, expected_probes=["file-segment", "buffer-reference"]),
 "C16": dict(level="fault_enumeration", stages=h3(25000, 400000),
   rule="evbuffer_read / evbuffer_write(_atmost) on a real socketpair with the first system-call result of each call scripted: a byte limit from 1..request, EINTR, EAGAIN, ECONNRESET/EPIPE, FIONREAD lying high/low/failing; buffer shapes come from the surrounding random calls (many chains, references, file segments, reserved space); non-trivial when a partial transfer happened; distinct = distinct trace hashes among non-trivial runs",
   components=dict(real=REAL_BUF, simulated=SIM_BUF, stubbed=[]), assumptions=ASSUME_BUF + ["first-result positions are sampled per call, not enumerated exhaustively"], expected_probes=[]),
 "C04": dict(level="exploration", stages=lambda tier: [dict(name="h_io", harness="h_io", count=100000 if tier == "quick" else 1500000)],
   rule="plans of 5-45 (thorough 10-120) ops over 1-5 real fd pairs (AF_UNIX stream pairs, pipes in both directions) driven into data / full-send-buffer / half-closed / closed / reopened-same-number states, several events per fd with overlapping interests, LT and ET, on epoll, epoll+changelist, poll, select (30% of plans run on all four in one run); every callback is compared with an independent poll(2) probe taken at the wait (must/may sets); non-trivial when >= 3 callbacks were compared or one on an fd in a hang-up / error / full state; distinct = distinct trace hashes among non-trivial runs",
   components=dict(real=REAL_CORE + ["the Linux kernel's pipes, AF_UNIX sockets, epoll, poll, select"], simulated=SIM_COMMON, stubbed=[]), assumptions=ASSUME_R + ["loopback TCP is not used: AF_UNIX pairs and pipes only"],
   expected_probes=["peer-half-closed", "peer-closed", "fd-number-reused", "send-buffer-full"]),
 "C05": dict(level="exploration", stages=lambda tier: [dict(name="h_io", harness="h_io", count=100000 if tier == "quick" else 1500000)],
   rule="add/del-heavy plans over 1-10 fds with close-and-reopen of the same fd number between waits; at every wait the kernel's own registration list (/proc/self/fdinfo/<epfd> for epoll, the pollfd array / fd_sets for poll and select) restricted to harness fds must equal the union of the added events; non-trivial when >= 2 different interest sets were compared in the run; distinct = distinct trace hashes among non-trivial runs",
   components=dict(real=REAL_CORE + ["the Linux kernel's epoll registration list as shown by /proc/self/fdinfo"], simulated=SIM_COMMON, stubbed=[]), assumptions=ASSUME_R, expected_probes=["fd-number-reused"]),
 "C07": dict(level="exploration", stages=lambda tier: [dict(name="h_io", harness="h_io", count=40000 if tier == "quick" else 600000)],
   rule="plans with several events on SIGUSR1/SIGUSR2/SIGWINCH, raise() bursts between loop calls, adds and deletes between deliveries (also from inside the callback), self-pipe and signalfd mechanisms on all four backends, base freed with signal events still added; a recognisable sigaction is installed before the first add and compared bit for bit after the last delete / event_base_free; non-trivial when >= 1 delivery and >= 1 ledger or disposition comparison happened; distinct = distinct trace hashes among non-trivial runs",
   components=dict(real=REAL_CORE + ["real signals delivered with raise() from the single simulator thread"], simulated=SIM_COMMON, stubbed=[]), assumptions=ASSUME_R + ["raise() delivers an unblocked signal before it returns (same thread)"],
   expected_probes=["last-signal-event-deleted", "base-freed-with-signal-events-added", "signal-event-deleted-in-its-callback"]),
}
REAL_BEV = ["bufferevent.c", "bufferevent_sock.c", "bufferevent_pair.c", "bufferevent_filter.c", "bufferevent_ratelim.c", "listener.c", "buffer.c", "event.c", "evmap.c", "epoll.c / poll.c / select.c", "evutil.c"]
SIM_NET = ["stream sockets, listeners, connect/accept, send-buffer back-pressure, segmentation, latency, FIN/RST (vk/ simulated kernel)", "readiness for poll/select and a simulated epoll interest table", "monotonic and wall clock (virtual)", "allocator (ledger)", "locks (simulator-owned)"]
ASSUME_S = ["World S: the simulated socket layer in vk/vk.cpp follows Linux for the states libevent distinguishes (data/EOF => IN, room => OUT, half-close => RDHUP, reset => ERR|HUP); it is my model of the kernel, not the kernel",
            "filter functions are harness code and honour the dst_limit they are given", "sampling of plans by seeded search, not enumeration"]
def h4(quick, thorough):
    return lambda tier: [dict(name="h_bev", harness="h_bev", count=quick if tier == "quick" else thorough, tlimit=40 if tier == "quick" else 500)]
PROPS.update({
 "C17": dict(level="exploration", stages=h4(12000, 200000),
   rule="1-3 connections per run over five topologies (socket<->scripted peer, socket<->socket, pair, filters over pairs incl. 1-3 stacked filters of five kinds), position-coded payloads so every received byte identifies its offset, writes of 0 B-70 KiB (thorough: 1.5 MB), enable/disable toggling, flush modes, watermarks, short/EAGAIN/EINTR I/O, tiny socket buffers, segment cutting, half-close, reset, free mid-stream; non-trivial when >= 1 KiB crossed a stream and >= 1 fault or toggle happened; distinct = distinct trace hashes among non-trivial runs",
   components=dict(real=REAL_BEV, simulated=SIM_NET, stubbed=["TLS bufferevents (bufferevent_openssl.c, bufferevent_mbedtls.c, bufferevent_ssl.c) are not linked: their socket I/O happens inside libssl / libmbedtls where --wrap does not reach"]),
   assumptions=ASSUME_S + ["the TLS clause of the property is not exercised (see DESIGN.md section 6)"], expected_probes=["eof", "flush-finished", "peer-half-close"]),
 "C18": dict(level="exploration", stages=h4(12000, 200000),
   rule="same topologies, watermark-heavy mix (zero, equal, inverted, changed while suspended) with read policies that drain all / half / one byte / nothing; invariants evaluated in every read/write callback; non-trivial when the input reached a high watermark; distinct = distinct trace hashes among non-trivial runs",
   components=dict(real=REAL_BEV, simulated=SIM_NET, stubbed=[]), assumptions=ASSUME_S, expected_probes=[]),
 "C19": dict(level="exploration", stages=h4(12000, 200000),
   rule="same topologies with connect (latency 0..5 ms), half-close, reset, flush(FINISHED), setcb(NULL), free at top level and from inside read/event callbacks, deferred/unlocked/thread-safe options; lifecycle automaton per bufferevent; non-trivial when a connection reached CONNECTED or an end state (EOF/ERROR); distinct = distinct trace hashes among non-trivial runs",
   components=dict(real=REAL_BEV, simulated=SIM_NET, stubbed=[]), assumptions=ASSUME_S, expected_probes=["connected", "eof", "free-inside-read-callback", "free-inside-event-callback", "setcb-null"]),
 "C20": dict(level="exploration", stages=h4(12000, 200000),
   rule="same topologies with read/write timeouts from 1 ms to 3 s, virtual-time advances at and around the timeout values, stalled peers, watermark suspension; a timeout event must come no earlier than the configured idle time after the last transfer/enable, only while enabled, and must disable the direction; non-trivial when a timeout fired; distinct = distinct trace hashes among non-trivial runs",
   components=dict(real=REAL_BEV, simulated=SIM_NET, stubbed=[]), assumptions=ASSUME_S, expected_probes=["read-timeout", "write-timeout"]),
})
PROPS.update({
 "C22": dict(level="exploration", stages=h4(12000, 200000),
   rule="socket bufferevents (socket<->scripted peer, socket<->socket) with per-bufferevent limits (rates 1 B..100 KB per tick, bursts 1-5 x rate, ticks 1 ms..1 s), up to two rate-limit groups with min_share, joining/leaving, manual decrements (also negative), max_single_read/write, virtual-time advances and wall-clock jumps forwards and backwards; an independent ledger of every simulated read/write system call (tick, bytes) is checked against burst + k x rate for every window of k ticks, per bufferevent and per group (+ one min_share per member), and every single call against max_single; progress: the final phase expects every written byte to arrive with the limits still in force; non-trivial when a limit or group was configured; distinct = distinct trace hashes among non-trivial runs",
   components=dict(real=REAL_BEV, simulated=SIM_NET + ["wall clock (gettimeofday) with injected jumps"], stubbed=[]), assumptions=ASSUME_S, expected_probes=["rate-limit-set", "rate-group", "manual-decrement", "left-rate-group"]),
 "C44": dict(level="exploration", stages=h4(12000, 200000),
   rule="an evconnlistener on a simulated listening socket with scripted clients connecting in bursts of 0-20, enable/disable/set_cb(NULL)/free from top level and from inside the callback, scripted accept4 errors (EAGAIN, EINTR, ECONNABORTED, EMFILE, ENFILE, ENOMEM), all option flags; ledger: every fd handed out by accept4 is delivered exactly once with the client's address or closed by the library, nothing is accepted while disabled, the error callback never runs for retriable errors, the listening fd is closed on free iff LEV_OPT_CLOSE_ON_FREE; non-trivial when clients connected; distinct = distinct trace hashes among non-trivial runs",
   components=dict(real=REAL_BEV, simulated=SIM_NET, stubbed=[]), assumptions=ASSUME_S, expected_probes=["listener-disabled-inside-callback", "listener-freed-inside-callback", "listener-callback-cleared"]),
})
def multi(*stages):
    """several harness stages for one property; each (harness, quick, thorough, quick_tlimit, thorough_tlimit)"""
    def f(tier):
        return [dict(name=h, harness=h, count=q if tier == "quick" else t, tlimit=ql if tier == "quick" else tl) for (h, q, t, ql, tl) in stages]
    return f
PROPS.update({
 "C10": dict(level="exploration", stages=multi(("h_core", 30000, 500000, 14, 170), ("h_bev", 5000, 80000, 16, 200), ("h_evbuf", 6000, 100000, 8, 100), ("h_io", 15000, 250000, 8, 100)),
   rule="the release-heavy mixes of four harnesses: events, once-events and finalizers (event_finalize / event_free_finalize, freed at top level, from inside their own and other callbacks, with the base freed while finalizers and once-events are pending); bufferevents (socket, pair, 1-3 stacked filters) freed mid-stream, from inside read/event callbacks and with deferred callbacks queued; evbuffers with callbacks freed from inside callbacks; listeners freed from inside the accept callback; signal and I/O events freed with the base. Counters: finalizer runs per object (== 1), callbacks after release (== 0), once-callbacks (<= 1, 0 after base free), filter-context frees (== 1); after event_base_free the allocator ledger and the fd table must be back at the run's baseline, and at worker exit (libevent_global_shutdown) the ledger must be empty; ASan for use after release. non-trivial when an object was released while pending/active, from inside a callback, or with a finalizer; distinct = distinct trace hashes among non-trivial runs",
   components=dict(real=REAL_CORE + REAL_BEV + REAL_BUF, simulated=SIM_COMMON + SIM_NET, stubbed=[]), assumptions=ASSUME_R + ASSUME_S,
   expected_probes=["finalize", "free-inside-own-callback", "base-free-with-once-pending", "base-free-with-finalizer-pending", "free-inside-read-callback", "free-inside-event-callback"]),
})
REAL_DNS = ["evdns.c", "evutil.c (getaddrinfo helpers, sockaddr parsing)", "bufferevent_sock.c / bufferevent.c / buffer.c (the resolver's TCP connections)", "event.c", "evmap.c", "epoll.c / poll.c / select.c"]
SIM_DNS = ["UDP and TCP sockets of the resolver, the network (latency, datagram drop / duplicate / reorder, stream segmentation) and the nameservers (scripted endpoints: answer, drop, delay, RCODE, TC, mutated replies, NODATA, TCP close at byte / reset) (vk/ simulated kernel, h/h_dns.cpp)",
           "monotonic and wall clock (virtual)", "secure RNG (arc4random: transaction ids, 0x20 bits) from a PRNG stream of the run, optionally narrowed to a few distinct ids", "allocator (ledger)", "locks (simulator-owned)"]
ASSUME_DNS = ASSUME_S + ["the reference reading of a reply (ref/dnswire.hpp, h/h_dns.cpp ref_read) is mine: strict on bounds, three-valued where RFC 1035 and common practice differ (several addresses in one RR, names of 256/257 octets, reserved label bits => either outcome)"]
def h6(quick, thorough):
    return lambda tier: [dict(name="h_dns", harness="h_dns", count=quick if tier == "quick" else thorough, tlimit=40 if tier == "quick" else 500)]
PROPS.update({
 "C33": dict(level="exploration", stages=h6(30000, 500000),
   rule="1-3 scripted nameservers; A / AAAA / PTR (v4, v6) requests with and without DNS_CNAME_CALLBACK; per query the nameserver answers from a grammar (1-60 records, CNAME chains, other types only, NODATA with SOA, RCODE 0-15, TC) or sends a mutated copy of a valid reply (bit flip, truncation at any byte, wrong id, wrong question, QR clear, ANCOUNT lie, self-pointing / out-of-range / reserved-type compression pointers, RDLENGTH lie, extra CNAMEs, question removed, trailing bytes, wrong source address), over UDP and over TCP with arbitrary segmentation and close at any byte; every result callback is compared with an independent reading of the replies that were sent for that request; ASan and the allocator ledger watch for out-of-bounds access and leaks; non-trivial when a reply addressed to a request was read beyond its header for a comparison; distinct = distinct trace hashes among non-trivial runs",
   components=dict(real=REAL_DNS, simulated=SIM_DNS, stubbed=[]), assumptions=ASSUME_DNS, expected_probes=["cname-reported", "query-over-tcp"]),
 "C34": dict(level="exploration", stages=h6(30000, 500000),
   rule="requests (resolve A/AAAA/PTR, getaddrinfo) against nameservers that drop, delay (around the timeout values), refuse, truncate (TCP fallback), answer twice, close or reset TCP, go down and come back; options timeout / attempts / max-inflight / max-timeouts changed mid-run; cancel, evdns_base_free (fail_requests 0/1), new requests and option changes also from inside result callbacks; nameservers cleared and re-added; transaction ids optionally drawn from 4 or 16 values; counters per request: callbacks == 1 at the end (0 allowed only after evdns_base_free(base, 0)), never 2; DNS_ERR_CANCEL only after cancel, DNS_ERR_SHUTDOWN only after free; ids of requests in flight pairwise different on the wire; no callback after event_base_free; liveness: once faults stop and every nameserver answers, every open request gets its outcome within 6 virtual hours; non-trivial when some request finished by something other than a first-try answer; distinct = distinct trace hashes among non-trivial runs",
   components=dict(real=REAL_DNS, simulated=SIM_DNS, stubbed=[]), assumptions=ASSUME_DNS, expected_probes=["request-timeout", "cancelled", "shutdown-result", "query-over-tcp", "cancel-inside-callback", "base-free-inside-callback", "getaddrinfo-cancelled"]),
 "C36": dict(level="exploration", stages=h6(30000, 500000),
   rule="names from a grammar (plain, single label, mixed case, trailing dot, 63- and 64-octet labels, 253/254/255/300-character names, empty labels, leading dot, non-ASCII and escape characters, lone dot), search lists of 0-3 domains with ndots 0-3, randomize-case on/off, edns-udp-size 512..65535, UDP and TCP; every query the scripted nameservers receive is decoded by the reference decoder (well-formed, one question, QR=0, opcode 0, RD, OPT iff configured with the configured size, no empty labels, <= 255 octets) and matched against the requests made: name equal (case-insensitively iff randomize-case), type, class, search candidates in documented order without skipping; a name that cannot be encoded must be refused, never transmitted; non-trivial when a query was decoded; distinct = distinct trace hashes among non-trivial runs",
   components=dict(real=REAL_DNS, simulated=SIM_DNS, stubbed=[]), assumptions=ASSUME_DNS, expected_probes=["search-list-step", "unencodable-name", "query-over-tcp"]),
 "C38": dict(level="exploration", stages=h6(30000, 500000),
   rule="evdns_getaddrinfo with node in {4 shared hostnames (cache and hosts hits), numeric IPv4, numeric IPv6, NULL, hosts-file names}, service in {none, 0, 80, 443, 65535}, family hint unspec/inet/inet6, socktype any/stream/dgram, AI_CANONNAME / AI_PASSIVE / AI_NUMERICHOST, a hosts file served from memory, cache on/off, record TTLs 0..86400 s and virtual-time advances around them, nameserver faults as in C34; every addrinfo list is checked entry by entry: family allowed by the hint, address present in the hosts file or in a reply addressed to one of the two sub-questions (or in a cache entry whose TTL has not passed), port, ai_family, socktype and protocol; numeric / NULL / hosts nodes must not go to the network and hosts entries must be returned completely; non-trivial when a result list was compared; distinct = distinct trace hashes among non-trivial runs",
   components=dict(real=REAL_DNS, simulated=SIM_DNS + ["hosts file (memfd, read through the real open/read)"], stubbed=[]), assumptions=ASSUME_DNS, expected_probes=["hosts-hit", "numeric-or-null-node"]),
})
SIM_DNSS = ["the server port's UDP socket and TCP listener, the network and the clients (scripted endpoints sending valid and adversarial queries, TCP streams cut at arbitrary points) (vk/ simulated kernel, h/h_dnss.cpp)", "monotonic clock (virtual)", "allocator (ledger)", "locks (simulator-owned)"]
def h6s(quick, thorough):
    return lambda tier: [dict(name="h_dnss", harness="h_dnss", count=quick if tier == "quick" else thorough, tlimit=40 if tier == "quick" else 500)]
PROPS.update({
 "C35": dict(level="exploration", stages=h6s(20000, 300000),
   rule="an evdns server port (UDP socket + TCP listener) whose user callback adds 0-1200 records per request from a recipe (A with 1-3 addresses, AAAA, CNAME, PTR, NS, raw TXT of 0-3000 bytes; names sharing suffixes, differing in case, root, 1-63 octet labels; all three sections) and responds with RCODE 0-15, at once, later, twice or never; requests with and without OPT (sizes 100..65535), over UDP and TCP, so that responses cross the 512-byte, EDNS, 16 KiB compression and 64 KiB limits; every response the clients receive is decoded by the reference decoder and compared with the request's questions and the records added, in order; every compression pointer must point backwards at a label of an earlier name; a TC response must consist of whole records and its counts must match them; non-trivial when a response with >= 2 records was compared; distinct = distinct trace hashes among non-trivial runs",
   components=dict(real=REAL_DNS, simulated=SIM_DNSS, stubbed=[]), assumptions=ASSUME_DNS, expected_probes=["truncated-response", "response-above-16k"]),
 "C37": dict(level="exploration", stages=h6s(20000, 300000),
   rule="three scripted clients send queries from a grammar (one to three questions with compression, 253/255-octet names, root, mixed case, non-standard opcodes, QR set, cut at any byte, QDCOUNT lies, self / out-of-range / mid-label compression pointers, records in answer/authority sections, bit flips, noise, two OPT records) as UDP datagrams and as TCP length-prefixed streams cut at arbitrary points (also zero-length and lying prefixes), connections closed or reset mid-message; the reference reading of each query says whether a server may accept it; the user callback must run exactly once for each well-formed standard query with exactly its questions, never for responses, cut messages or other opcodes (those get NOTIMPL); the OPT size bounds the UDP response; ASan and the allocator ledger watch memory; non-trivial when a query was sent; distinct = distinct trace hashes among non-trivial runs",
   components=dict(real=REAL_DNS, simulated=SIM_DNSS, stubbed=[]), assumptions=ASSUME_DNS, expected_probes=["notimpl-response", "server-closed-tcp", "client-closed-tcp"]),
})
REAL_THR = REAL_CORE + ["bufferevent_pair.c / bufferevent.c / buffer.c (thread-safe pair written from other threads)"]
SIM_THR = ["threads: real pthreads of which exactly one runs at a time; every hand-over (at lock acquire/release, condition wait/signal, the loop's blocking wait, explicit yields inside callbacks and between operations, sleeps) is decided by the run's PRNG (thr/thr.cpp)",
           "locks and condition variables (simulator-owned, with owner / recursion / waiters: evthread_set_lock_callbacks, evthread_set_condition_callbacks, evthread_set_id_callback)", "monotonic clock (virtual; moves only when every thread is blocked)", "the blocking wait of each backend", "allocator (ledger)"]
ASSUME_THR = ["pre-emption happens at synchronisation points, at the loop's wait and at explicit yields (inside callbacks, between worker operations), not at arbitrary instructions; no race detector runs (the TSan configuration of the design is not built)",
              "each event is operated on by one worker thread (its owner), which makes the model of 'armed / not armed' exact; the loop thread runs the callbacks",
              "sampling of interleavings by seeded search, not enumeration"]
PROPS.update({
 "C09": dict(level="exploration", stages=lambda tier: [dict(name="h_thr", harness="h_thr", count=20000 if tier == "quick" else 300000, tlimit=40 if tier == "quick" else 500)],
   rule="one loop thread in event_base_loop(EVLOOP_NO_EXIT_ON_EMPTY) with a one-hour timer as the only thing it would wake up for, 1-3 worker threads each owning some of 1-6 events (timers, read events on pipes, persistent or not, callbacks that yield 0-3 times in the middle) and doing event_add (with and without timeout), event_del / event_del_block / event_del_noblock, event_active, writes to the pipes and to a thread-safe bufferevent pair, with yields and sleeps in between; stickiness of the scheduler 0-90 %; oracles: a callback runs on the loop thread only, never re-entered, never after a blocking delete returned (until its owner arms the event again), a blocking delete never returns while the callback runs, every add / activation / readable fd is acted on at the virtual instant it becomes due (not at the one-hour timer), the loop ends on loopbreak from another thread, bytes written into the pair arrive, the base passes its own consistency check, locks are released, the scheduler finds no deadlock and the loop never spins; non-trivial when cross-thread operations happened and the baton changed hands more than 4 times; distinct = distinct trace hashes among non-trivial runs (worker classes without locks skip the run)",
   components=dict(real=REAL_THR, simulated=SIM_THR, stubbed=["evthread_pthread.c (replaced by the simulator's lock and condition callbacks)"]), assumptions=ASSUME_THR,
   expected_probes=["del-while-callback-running"]),
})
PROPS.update({
 "C08": dict(level="exploration", stages=multi(("h_evbuf", 400, 12000, 7, 150), ("h_bev", 3000, 60000, 8, 150), ("h_dns", 6000, 120000, 7, 120), ("h_dnss", 5000, 90000, 6, 100), ("h_thr", 4000, 80000, 7, 120), ("h_core", 12000, 250000, 6, 100)),
   rule="six harnesses run with locking enabled (simulator-owned locks that record owner, recursion count and waiters; two of the three lock classes also run libevent's own lock debugging): every call into the library made by a harness goes through API(), which compares the number of lock acquisitions the calling thread holds before and after the call; the lock implementation reports an unlock by a non-owner, re-entry of a non-recursive lock, a lock freed while held, and a thread blocking with no runnable thread left (deadlock; with real second threads in h_thr). Error paths are reached by: the allocation-failure sweep of the evbuffer harness with evbuffer locking on (fail the n-th allocation for every n of each sampled call sequence), short / EAGAIN / EINTR / reset I/O and accept errors on thread-safe bufferevents and listeners, refused and unencodable DNS requests, sendto / recv faults and malformed packets under the evdns base and server-port locks, invalid arguments (priorities out of range, deletes of non-pending events); non-trivial when a fault fired or an API call failed in a run with locks (h_thr: cross-thread operations with more than 4 baton hand-overs); distinct = distinct trace hashes among non-trivial runs",
   components=dict(real=REAL_CORE + REAL_BEV + REAL_BUF + ["evdns.c"], simulated=SIM_COMMON + SIM_NET + SIM_THR[:2], stubbed=["evthread_pthread.c (replaced by the simulator's lock callbacks)"]),
   assumptions=ASSUME_S + ["allocation failures are injected only where the harness has a model of the failed call (evbuffer API); the other harnesses reach error paths through I/O faults and invalid input, not through failing allocations", "HTTP, RPC and WebSocket calls are not covered (no harness)"],
   expected_probes=[]),
})
