"""Per-property check specifications: which harness stages run, run counts per tier, evidence texts."""

# worker classes (see sim.hpp): locks in bits 0-1, debug mode in bit 2; 16 workers cycle through this list
CLASSES = [1, 0, 2, 5, 1, 4, 6, 1, 0, 2, 5, 1, 4, 6, 1, 2]

REAL_CORE = ["event.c", "evmap.c", "epoll.c", "poll.c", "select.c", "signal.c", "signalfd.c", "minheap-internal.h", "evutil_time.c", "watch.c", "evthread.c", "log.c"]
SIM_COMMON = ["monotonic and wall clock (virtual)", "the blocking wait of each backend (zero-timeout real query + virtual sleep)", "allocator (ledger)", "locks (simulator-owned, single thread)"]

def h1(prop, quick, thorough):
    def stages(tier):
        return [dict(name="h_core", harness="h_core", count=quick if tier == "quick" else thorough)]
    return stages

ASSUME_R = ["World R: pipes / AF_UNIX socketpairs change readiness synchronously inside the syscall that causes it (Linux); checked by the determinism audit, not guaranteed by POSIX",
            "the reference model in ref/evmodel.hpp is the statement of 'documented behaviour'; ties the documentation leaves open (equal deadlines, fds reported by one wait) are accepted in any order",
            "sampling of plans by seeded search, not enumeration"]

PROPS = {
 "C01": dict(level="exploration", stages=h1("C01", 60000, 900000),
   rule="plans of 3-60 (thorough: 10-200) ops over 2-12 events drawn from one seed; a run is non-trivial when >= 2 timer callbacks fired and >= 1 add/del/re-add/remove_timer hit an event whose timeout was pending or active; distinct = distinct full-trace hashes among non-trivial runs",
   components=dict(real=REAL_CORE, simulated=SIM_COMMON, stubbed=[]), assumptions=ASSUME_R,
   expected_probes=["common-timeout-add", "tie-group"]),
 "C02": dict(level="exploration", stages=h1("C02", 80000, 1200000),
   rule="same plan family, query-heavy mix; non-trivial when >= 5 ops ran, >= 2 full event_pending sweeps (all 31 masks + expiry) were compared and >= 1 state transition happened; distinct = distinct trace hashes among non-trivial runs",
   components=dict(real=REAL_CORE, simulated=SIM_COMMON, stubbed=[]), assumptions=ASSUME_R,
   expected_probes=["priority-set-refused"]),
 "C03": dict(level="exploration", stages=h1("C03", 20000, 300000),
   rule="same plan family with 1-6 priorities, max_dispatch_interval settings, deferred-callback bursts and loop-control calls from inside callbacks; non-trivial when callbacks ran at >= 2 priorities or a loop-control call took effect; distinct = distinct trace hashes among non-trivial runs",
   components=dict(real=REAL_CORE + ["buffer.c (deferred evbuffer callbacks as the deferred-callback source)"], simulated=SIM_COMMON, stubbed=[]), assumptions=ASSUME_R,
   expected_probes=["loopbreak-in-callback", "loopcontinue-in-callback", "more-than-32-deferred", "active-later"]),
 "C45": dict(level="exploration", stages=h1("C45", 70000, 1000000),
   rule="same plan family, watcher-heavy mix (up to 6 prepare/check watchers created and freed at top level, from event callbacks and from watcher callbacks); non-trivial when >= 1 watcher callback was compared; distinct = distinct trace hashes among non-trivial runs",
   components=dict(real=REAL_CORE, simulated=SIM_COMMON, stubbed=[]), assumptions=ASSUME_R,
   expected_probes=["watcher-created-in-callback"]),
}
