#!/usr/bin/env python3
"""Build libevent from the current working tree of the repository plus the verification
harnesses, with sanitizers and the --wrap interposition list. Cached by content hash."""
import hashlib, os, subprocess, sys, shutil, glob, time
from concurrent.futures import ThreadPoolExecutor

VERIF = os.path.dirname(os.path.dirname(os.path.abspath(__file__)))
BUILD = os.path.join(VERIF, "build")
GUARD = "LIBEVENT_VERIF"

LIB_SOURCES = """event.c evthread.c buffer.c bufferevent.c bufferevent_sock.c bufferevent_filter.c
bufferevent_pair.c bufferevent_ratelim.c listener.c evmap.c log.c evutil.c evutil_rand.c evutil_time.c
watch.c strlcpy.c signal.c epoll.c poll.c select.c signalfd.c event_tagging.c http.c evdns.c evrpc.c
sha1.c ws.c""".split()

WRAPS = """clock_gettime gettimeofday time nanosleep
epoll_pwait2 epoll_wait epoll_pwait poll select
epoll_create epoll_create1 epoll_ctl
read readv write writev pread sendto recvfrom sendfile recv send
socket socketpair bind listen accept accept4 connect shutdown close dup dup2
fcntl ioctl getsockopt setsockopt getsockname getpeername
pipe pipe2 eventfd signalfd open getpid evutil_weakrand_seed_ arc4random arc4random_buf""".split()

# undefined symbols libevent may reference that are pure / harmless; anything else is reported
PURE = set("""__ctype_b_loc __errno_location __isoc99_sscanf abort calloc exit fprintf fputc free fwrite malloc
memchr memcmp memcpy memmove memset realloc snprintf stderr strcasecmp strchr strcmp strcpy strdup strerror strlen
strncmp strpbrk strrchr strsep strsignal strspn strtod strtok_r strtol strtoll strtoul sysconf vsnprintf gmtime_r
getauxval sigaddset sigemptyset sigfillset sigaction sigprocmask gai_strerror getaddrinfo freeaddrinfo getnameinfo
getenv gethostname getifaddrs freeifaddrs if_nametoindex getprotobynumber getservbyname mmap64 munmap fstat
eventfd_read eventfd_write strncpy memrchr qsort bsearch isatty puts printf putchar
__assert_fail __stack_chk_fail strcat strncat toupper tolower atoi strtoull vfprintf fflush sprintf
__ctype_tolower_loc __ctype_toupper_loc strstr strnlen strcspn lseek fopen fclose fread fgets ftell fseek stat
__isoc99_fscanf timegm mktime strftime localtime_r perror __fdelt_chk stdout""".split())

def sh(cmd, **kw):
    return subprocess.run(cmd, stdout=subprocess.PIPE, stderr=subprocess.STDOUT, text=True, **kw)

def file_hash(paths):
    h = hashlib.sha256()
    for p in sorted(paths):
        h.update(p.encode()); h.update(b"\0")
        try:
            with open(p, "rb") as f: h.update(f.read())
        except OSError:
            h.update(b"<missing>")
        h.update(b"\0")
    return h.hexdigest()[:16]

def repo_files(repo):
    fs = glob.glob(os.path.join(repo, "*.c")) + glob.glob(os.path.join(repo, "*.h"))
    for d in ("include", "compat"):
        for root, _, names in os.walk(os.path.join(repo, d)):
            fs += [os.path.join(root, n) for n in names]
    fs += [os.path.join(repo, "event_rpcgen.py"), os.path.join(repo, "test", "regress.rpc")]
    return fs

def repo_hash(repo):
    # relative names so that a scratch copy with identical content hashes the same
    h = hashlib.sha256()
    for p in sorted(repo_files(repo)):
        h.update(os.path.relpath(p, repo).encode()); h.update(b"\0")
        try:
            with open(p, "rb") as f: h.update(f.read())
        except OSError:
            h.update(b"<missing>")
    return h.hexdigest()[:16]

def cfg_dir(repo):
    """Directory holding event2/event-config.h and evconfig-private.h (platform facts)."""
    d = os.path.join(BUILD, "cfg")
    inc = os.path.join(d, "include")
    key = file_hash([os.path.join(repo, "CMakeLists.txt"), os.path.join(repo, "event-config.h.cmake"),
                     os.path.join(repo, "evconfig-private.h.cmake")] + glob.glob(os.path.join(repo, "cmake", "*")))
    stamp = os.path.join(d, "stamp")
    if os.path.exists(stamp) and open(stamp).read().strip() == key and \
       os.path.exists(os.path.join(inc, "event2", "event-config.h")):
        return inc
    os.makedirs(d, exist_ok=True)
    r = sh(["cmake", "-G", "Ninja", "-S", repo, "-B", d, "-DEVENT__DISABLE_TESTS=ON", "-DEVENT__DISABLE_SAMPLES=ON",
            "-DEVENT__DISABLE_BENCHMARK=ON", "-DEVENT__DISABLE_REGRESS=ON", "-DEVENT__LIBRARY_TYPE=STATIC"])
    if r.returncode == 0 and os.path.exists(os.path.join(inc, "event2", "event-config.h")):
        open(stamp, "w").write(key)
        return inc
    # fall back to the repository's own configured build, then to the committed snapshot
    for alt in (os.path.join(repo, "_build", "include"), "/repo/_build/include", os.path.join(VERIF, "cfg-fallback")):
        if os.path.exists(os.path.join(alt, "event2", "event-config.h")):
            sys.stderr.write("vbuild: cmake configure failed, using config headers from %s\n" % alt)
            return alt
    sys.stderr.write(r.stdout[-3000:])
    raise SystemExit("vbuild: no config headers available")

SAN = {
    "asan": ["-fsanitize=address,undefined", "-fno-sanitize-recover=null", "-fno-omit-frame-pointer"],
    "tsan": ["-fsanitize=thread", "-fno-omit-frame-pointer"],
    "plain": [],
}

def compile_many(jobs):
    """jobs: list of (cmd, out). Compile in parallel, stop on the first error."""
    errs = []
    def run(j):
        cmd, out = j
        r = sh(cmd)
        if r.returncode != 0:
            errs.append((" ".join(cmd), r.stdout))
        return r.returncode
    with ThreadPoolExecutor(max_workers=16) as ex:
        list(ex.map(run, jobs))
    if errs:
        for c, o in errs[:3]:
            sys.stderr.write("COMPILE FAILED: %s\n%s\n" % (c, o[-6000:]))
        raise SystemExit(3)

def build_lib(repo, san="asan"):
    rh = repo_hash(repo)
    inc = cfg_dir(repo)
    out = os.path.join(BUILD, "lib-%s-%s" % (rh, san))
    stamp = os.path.join(out, "ok")
    incs = ["-I" + inc, "-I" + os.path.join(repo, "include"), "-I" + os.path.join(repo, "compat"), "-I" + repo]
    if os.path.exists(stamp):
        return out, incs, rh
    os.makedirs(out, exist_ok=True)
    flags = ["-O1", "-g", "-DHAVE_CONFIG_H", "-D_GNU_SOURCE", "-D" + GUARD, "-w"] + SAN[san] + incs
    jobs = []
    for src in LIB_SOURCES:
        extra = ["-DLITTLE_ENDIAN=1"] if src == "sha1.c" else []
        o = os.path.join(out, src.replace(".c", ".o"))
        jobs.append((["clang"] + flags + extra + ["-c", os.path.join(repo, src), "-o", o], o))
    compile_many(jobs)
    # RPC stubs generated from the repository's own generator and test description
    rpcdir = os.path.join(out, "rpc")
    os.makedirs(rpcdir, exist_ok=True)
    r = sh([sys.executable, os.path.join(repo, "event_rpcgen.py"), "--quiet", os.path.join(repo, "test", "regress.rpc"),
            os.path.join(rpcdir, "regress.gen.h"), os.path.join(rpcdir, "regress.gen.c")])
    if r.returncode == 0 and os.path.exists(os.path.join(rpcdir, "regress.gen.c")):
        r2 = sh(["clang"] + flags + ["-I" + rpcdir, "-c", os.path.join(rpcdir, "regress.gen.c"), "-o", os.path.join(rpcdir, "regress.gen.o")])
        if r2.returncode != 0:
            sys.stderr.write("rpc stub compile failed:\n" + r2.stdout[-2000:])
    else:
        sys.stderr.write("event_rpcgen failed:\n" + r.stdout[-2000:])
    # unowned-symbol report: anything undefined that is neither wrapped, pure nor libevent's own
    objs = [os.path.join(out, s.replace(".c", ".o")) for s in LIB_SOURCES]
    nm = sh(["nm", "-u"] + objs).stdout
    defined = set(l.split()[-1] for l in sh(["nm", "--defined-only"] + objs).stdout.splitlines() if len(l.split()) >= 3)
    und = set(l.split()[-1] for l in nm.splitlines() if l.strip().startswith("U "))
    unowned = sorted(s for s in und if s not in defined and s not in WRAPS and s not in PURE
                     and not s.startswith(("__asan", "__ubsan", "__tsan", "__sanitizer", "__sancov")))
    with open(os.path.join(out, "unowned_symbols.txt"), "w") as f:
        f.write("\n".join(unowned) + ("\n" if unowned else ""))
    open(stamp, "w").write(rh)
    prune()
    return out, incs, rh

def verif_headers():
    hs = []
    for d in ("sim", "vk", "mon", "shim", "thr", "ref", "h"):
        hs += glob.glob(os.path.join(VERIF, d, "*.hpp")) + glob.glob(os.path.join(VERIF, d, "*.h"))
    return hs

COMMON = ["sim/sim.cpp", "vk/vk.cpp", "mon/mon.cpp", "shim/shim.c"]
HARNESS_EXTRA = {
    "h_thr": ["thr/thr.cpp"],
    "h_http": [],
    "h_dns": [],
    "h_rpc": ["h/h_rpc_glue.c"],
}

def prune(keep_rh, san):
    """disk is limited: keep the build products of the current tree and of the two most recently used other trees"""
    import shutil, glob, time
    ds = [d for d in glob.glob(os.path.join(BUILD, "bin-*-" + san)) + glob.glob(os.path.join(BUILD, "lib-*-" + san)) if keep_rh not in d]
    ds.sort(key=os.path.getmtime, reverse=True)
    hashes = []
    for d in ds:
        h = os.path.basename(d).split("-")[1]
        if h not in hashes: hashes.append(h)
    for d in ds:
        h = os.path.basename(d).split("-")[1]
        if h in hashes[2:] and time.time() - os.path.getmtime(d) > 1800:
            shutil.rmtree(d, ignore_errors=True)
    objdir = os.path.join(BUILD, "obj-%s" % san)
    if os.path.isdir(objdir):
        for f in os.listdir(objdir):
            fp = os.path.join(objdir, f)
            try:
                if time.time() - os.path.getatime(fp) > 6 * 3600 and time.time() - os.path.getmtime(fp) > 6 * 3600: os.remove(fp)
            except OSError: pass

def build_harness(name, repo="/repo", san="asan", extra_libs=()):
    libdir, incs, rh = build_lib(repo, san)
    try: prune(rh, san)
    except Exception: pass
    hh = file_hash(verif_headers())
    srcs = COMMON + HARNESS_EXTRA.get(name, []) + ["h/%s.cpp" % name]
    objdir = os.path.join(BUILD, "obj-%s" % san)
    os.makedirs(objdir, exist_ok=True)
    jobs, objs = [], []
    cxx = ["clang++", "-std=c++17", "-O1", "-g", "-D_GNU_SOURCE", "-Wall", "-Wno-unused-function", "-Wno-deprecated-declarations"] + SAN[san] + incs + \
          ["-I" + VERIF, "-I" + os.path.join(libdir, "rpc")]
    cc = ["clang", "-O1", "-g", "-DHAVE_CONFIG_H", "-D_GNU_SOURCE", "-w"] + SAN[san] + incs + ["-I" + os.path.join(VERIF, "shim"), "-I" + os.path.join(VERIF, "h"), "-I" + os.path.join(libdir, "rpc")]
    for s in srcs:
        p = os.path.join(VERIF, s)
        key = file_hash([p]) + hh + rh
        o = os.path.join(objdir, "%s-%s.o" % (os.path.basename(s).replace(".", "_"), hashlib.sha256(key.encode()).hexdigest()[:16]))
        objs.append(o)
        if not os.path.exists(o):
            jobs.append(((cc if s.endswith(".c") else cxx) + ["-c", p, "-o", o], o))
    compile_many(jobs)
    bindir = os.path.join(BUILD, "bin-%s-%s" % (rh, san))
    os.makedirs(bindir, exist_ok=True)
    exe = os.path.join(bindir, name)
    linkkey = hashlib.sha256(("|".join(objs) + rh).encode()).hexdigest()[:16]
    lk = exe + ".key"
    if not (os.path.exists(exe) and os.path.exists(lk) and open(lk).read() == linkkey):
        libobjs = [os.path.join(libdir, s.replace(".c", ".o")) for s in LIB_SOURCES]
        rpco = os.path.join(libdir, "rpc", "regress.gen.o")
        if name == "h_http" and os.path.exists(rpco):
            libobjs.append(rpco)
        if name == "h_rpc":
            # the generated marshalling code calls malloc/free/strdup directly while event_tagging.c hands it memory from the
            # library's allocator: for the allocator ledger to see both sides, the generated file is compiled with those
            # names mapped to the library's mm functions
            mmo = os.path.join(libdir, "rpc", "regress.gen.mm.o")
            if not os.path.exists(mmo):
                mm = ["-D%s=event_mm_%s_" % (f, f) for f in ("malloc", "free", "strdup", "calloc", "realloc")]
                r = sh(["clang", "-O1", "-g", "-DHAVE_CONFIG_H", "-D_GNU_SOURCE", "-w"] + SAN[san] + incs + mm + ["-I" + os.path.join(libdir, "rpc"), "-c", os.path.join(libdir, "rpc", "regress.gen.c"), "-o", mmo + ".tmp"])
                if r.returncode != 0:
                    sys.stderr.write("rpc stub (mm) compile failed:\n" + r.stdout[-3000:]); raise SystemExit(3)
                os.replace(mmo + ".tmp", mmo)
            libobjs.append(mmo)
        cmd = ["clang++"] + SAN[san] + ["-o", exe] + objs + libobjs + ["-Wl,--wrap=" + w for w in WRAPS] + ["-lpthread"] + list(extra_libs)
        r = sh(cmd)
        if r.returncode != 0:
            sys.stderr.write("LINK FAILED\n" + r.stdout[-6000:])
            raise SystemExit(3)
        open(lk, "w").write(linkkey)
    return exe, rh

def prune(keep=3):
    for pat in ("lib-*", "bin-*"):
        ds = sorted(glob.glob(os.path.join(BUILD, pat)), key=os.path.getmtime, reverse=True)
        for d in ds[keep * 2:]:
            shutil.rmtree(d, ignore_errors=True)
    objs = sorted(glob.glob(os.path.join(BUILD, "obj-*", "*.o")), key=os.path.getmtime, reverse=True)
    for o in objs[400:]:
        try: os.remove(o)
        except OSError: pass

if __name__ == "__main__":
    t0 = time.time()
    names = sys.argv[1:] or ["h_core"]
    for n in names:
        exe, rh = build_harness(n)
        print(exe)
    sys.stderr.write("built in %.1fs\n" % (time.time() - t0))
