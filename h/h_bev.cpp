// H4: bufferevent harness — C17 (stream integrity), C18 (watermarks), C19 (lifecycle), C20 (timeouts),
// C22 (rate limits), C44 (listener). World S: simulated sockets and network, virtual time; pairs and
// filters run in memory. Every end of a connection is either a bufferevent (real code) or a scripted peer.
#include <cerrno>
#include <cstring>
#include <deque>
#include <map>
#include <set>
#include <sys/socket.h>
#include <netinet/in.h>
#include <unistd.h>
#include <event2/event.h>
#include <event2/buffer.h>
#include <event2/bufferevent.h>
#include <event2/listener.h>
#include <sys/time.h>
#include "sim/sim.hpp"
#include "vk/vk.hpp"
#include "mon/mon.hpp"
#include "shim/shim.h"

using namespace sim;

enum {
	OP_WRITE, OP_POLICY, OP_ENABLE, OP_DISABLE, OP_WATERMARK, OP_TIMEOUTS, OP_FLUSH, OP_SETCB_NULL, OP_FREE, OP_LOOP, OP_ADVANCE,
	OP_PEER_SEND, OP_PEER_SHUTDOWN, OP_PEER_RESET, OP_PEER_PAUSE, OP_SHUTDOWN_WR, OP_RATELIMIT, OP_GROUP, OP_DECREMENT, OP_MAXSINGLE,
	OP_LISTENER, OP_CLIENT_BURST, OP_N
};
static const char *const opnames[OP_N] = {
	"write", "read_policy", "enable", "disable", "setwatermark", "set_timeouts", "flush", "setcb_null", "free", "loop", "advance",
	"peer_send", "peer_shutdown", "peer_reset", "peer_pause", "shutdown_wr", "set_rate_limit", "rate_group", "decrement_limit", "set_max_single",
	"listener_op", "client_burst",
};

#define MAXEND 8
#define MAXFILT 3

static inline unsigned char stream_byte(int s, uint64_t i) { return (unsigned char)(mix64((uint64_t)s * 1000003ULL + (i >> 3)) >> ((i & 7) * 8)); }

struct FilterCtx {
	int kind;	// 0 identity, 1 xor 0x5a, 2 one byte per call, 3 double/halve, 4 need-at-least-k, 5 at most k bytes per call
	bool is_input;
	int k;
	int freed = 0;
	int endidx;
	int calls = 0;
	struct bufferevent *under = nullptr;	// the bufferevent this filter writes into / reads from
};

struct End {
	bool exists = false;
	int id = 0, peer = -1;
	struct bufferevent *bev = nullptr;	// application-facing bufferevent (top of the stack)
	std::vector<struct bufferevent *> under;	// underlying bufferevents, top-most first (freed after the top)
	std::vector<FilterCtx *> fctx;
	vk::Endpoint *ep = nullptr;
	bool is_pair = false, is_sock = false;
	int fd = -1;
	int opts = 0;
	// stream accounting
	uint64_t sent = 0;		// bytes accepted from the application for my outgoing stream
	uint64_t rcvd = 0;		// bytes of the peer's stream the application has read and verified
	bool tx_closed = false;		// I shut my sending direction down (flush FINISHED / shutdown / free / close)
	uint64_t sent_at_close = 0;
	bool tx_reset = false;		// my connection was reset: the peer may legitimately miss bytes
	// lifecycle
	bool freed = false, cbs_cleared = false, connecting = false;
	int n_connected = 0, n_eof_r = 0, n_err_r = 0, n_eof_w = 0, n_err_w = 0, n_readcb = 0, n_writecb = 0;
	bool eof_seen = false;
	uint64_t rcvd_at_eof = 0;
	int policy = 0;			// 0 read everything, 1 read half, 2 read nothing, 3 read one byte
	int free_in_cb = 0;		// 1: free myself in my next read callback, 2: in event callback
	short enabled = 0;		// model of bufferevent_get_enabled
	size_t rlow = 0, rhigh = 0, wlow = 0, whigh = 0;
	// timeouts (C20)
	int64_t rt_us = 0, wt_us = 0;
	int64_t last_r_activity = 0, last_w_activity = 0;
	int n_timeout_r = 0, n_timeout_w = 0;
	size_t out_min_since_cb = 0;
	bool out_low_seen_since_cb = false;	// a drain since the last write callback left the output at or below the low write watermark in force at that moment
	bool low_changed = false;
	bool werr = false;		// a write error / EOF was reported: the direction is never enabled again	// the application changed the read low watermark: a read callback already queued may see less	// smallest output length seen since the previous write callback
	bool paused = false;
	std::string ep_pending;		// scripted peer: bytes not yet accepted by the send buffer
	bool ep_open = false;
	// rate limiting (C22)
	struct ev_token_bucket_cfg *rl_cfg = nullptr;
	int64_t rl_rate[2] = {0, 0}, rl_burst[2] = {0, 0};	// [0] read, [1] write
	int64_t rl_tick_ms = 0;
	int64_t credit[2] = {0, 0};
	uint64_t sock_in = 0, sock_out = 0;
	int64_t prog_since[2] = {-1, -1}; uint64_t prog_mark[2] = {0, 0};
	int in_group = -1;
	size_t max_single[2] = {0, 0};
	std::map<int64_t, int64_t> ledger[2];	// tick -> bytes moved by read / write system calls
	int epoch = 0;
	// C20 "must fire": latest instant at which the library may have (re)started the direction's timer
	int64_t r_start = 0, w_start = 0;
	int r_due_seen = 0, w_due_seen = 0;
	int64_t susp_since = -1;	// input at or above the high read watermark since (us), -1 when below
	int hold_by_disable = 0;	// at the high read watermark the application stops reading instead of draining
	int retry_in_cb = 0;		// re-issue bufferevent_socket_connect from inside the error callback
	int connect_attempts = 0;
};
struct Group {
	struct bufferevent_rate_limit_group *g = nullptr;
	struct ev_token_bucket_cfg *cfg = nullptr;
	int64_t rate[2] = {0, 0}, burst[2] = {0, 0}, tick_ms = 0, min_share = 64;
	std::map<int64_t, int64_t> ledger[2];
	int members = 0;
};
struct Client { vk::Endpoint *ep = nullptr; int port = -1; int delivered = 0; int accepted_fd = -1; bool lib_closed = false; };

struct Run {
	const Plan *plan;
	struct event_base *base = nullptr;
	End e[MAXEND];
	int nend = 0;
	bool in_loop = false;
	uint64_t bytes_crossed = 0;
	int faults_or_toggles = 0, ends_reached = 0, wm_reached = 0, timeouts_seen = 0;
	int topo = 0;
	bool in_cb = false;
	bool in_app_add = false;
	bool stalled = false;
	int in_flush = 0;
	int released_early = 0;	// bufferevents freed before the teardown (C10 non-triviality)
	Group grp[2];
	int buckets_exhausted = 0;
	// listener (C44)
	struct evconnlistener *lev = nullptr;
	int lev_fd = -1;
	unsigned lev_flags = 0;
	bool lev_enabled = false, lev_has_cb = true, lev_freed = false;
	int lev_in_cb_action = 0;	// 1 disable inside the callback, 2 free inside the callback
	std::vector<Client> clients;
	std::map<int, int> accepted;	// fd handed out by accept4 -> client index
	int lev_errors = 0, lev_expected_errors = 0, lev_delivered = 0, accept_while_disabled = 0;
	std::vector<int> delivered_fds;	// inside an explicit bufferevent_flush(FLUSH/FINISHED): watermarks are ignored by definition
};
static Run *R;

static bool fam(const char *id) { const std::string &p = R->plan->prop; return p == id || (p != "C17" && p != "C18" && p != "C19" && p != "C20" && p != "C22" && p != "C44"); }
#define V(idstr, ...) do { if (fam(idstr)) violation(__VA_ARGS__); } while (0)

static int64_t now_us() { return G.now_ns / 1000; }

// ---- filters (harness code; honour dst_limit, the contract the library relies on)
static enum bufferevent_filter_result filter_fn(struct evbuffer *src, struct evbuffer *dst, ev_ssize_t dst_limit, enum bufferevent_flush_mode mode, void *arg) {
	FilterCtx *c = (FilterCtx *)arg;
	c->calls++;
	size_t avail = evbuffer_get_length(src);
	if (R && !R->e[c->endidx].freed && R->e[c->endidx].bev) {
		// C18: the limit handed to an output filter is the room under the underlying high write watermark
		(void)dst_limit;
	}
	if (R && !c->is_input && mode == BEV_NORMAL && c->under && !stop()) {
		size_t lo = 0, hi = 0;
		bufferevent_getwatermark(c->under, EV_WRITE, &lo, &hi);
		if (hi) {
			size_t have = evbuffer_get_length(dst), room = hi > have ? hi - have : 0;
			if (dst_limit < 0 || (size_t)dst_limit > room)
				V("C18", "C18.filter-limit-above-underlying-high-watermark", "end %d: output filter called in normal mode with dst_limit %zd, the underlying output holds %zu and its high write watermark is %zu", c->endidx, (ssize_t)dst_limit, have, hi);
			probe("filter-under-write-watermark");
		}
	}
	if (avail == 0) return BEV_NEED_MORE;
	tr("filter-enter end=%d in=%d avail=%zu lim=%zd dstlen=%zu", c->endidx, (int)c->is_input, avail, (ssize_t)dst_limit, evbuffer_get_length(dst));
	size_t lim = dst_limit < 0 ? (size_t)-1 : (size_t)dst_limit;
	unsigned char buf[4096];
	size_t moved = 0;
	auto xf = [&](size_t n, int x) {
		while (n) {
			size_t k = std::min(n, sizeof buf);
			int got = evbuffer_remove(src, buf, k);
			if (got <= 0) break;	// a nested call (stacked filters) may have taken the rest
			k = (size_t)got;
			if (x) for (size_t i = 0; i < k; i++) buf[i] ^= 0x5a;
			evbuffer_add(dst, buf, k);
			n -= k;
			moved += k;
		}
	};
	switch (c->kind) {
	case 0: xf(std::min(avail, lim), 0); break;
	case 1: xf(std::min(avail, lim), 1); break;
	case 2: if (lim >= 1) xf(1, 0); break;
	case 3:
		if (!c->is_input) {	// output side doubles every byte
			size_t n = std::min(avail, lim / 2);
			for (size_t i = 0; i < n; i++) { unsigned char b; if (evbuffer_remove(src, &b, 1) != 1) break; unsigned char two[2] = {b, b}; evbuffer_add(dst, two, 2); moved++; }
		} else {		// input side collapses pairs; an odd byte waits for its twin
			size_t n = std::min(avail / 2, lim);
			for (size_t i = 0; i < n; i++) { unsigned char two[2]; if (evbuffer_get_length(src) < 2 || evbuffer_remove(src, two, 2) != 2) break; evbuffer_add(dst, two, 1); moved++; }
		}
		break;
	case 4:
		if (avail < (size_t)c->k && mode == BEV_NORMAL) return BEV_NEED_MORE;
		xf(std::min(avail, lim), 0);
		break;
	case 5: xf(std::min(std::min(avail, lim), (size_t)c->k), 0); break;
	}
	tr("filter end=%d kind=%d in=%d avail=%zu lim=%zd mode=%d moved=%zu", c->endidx, c->kind, (int)c->is_input, avail, (ssize_t)dst_limit, (int)mode, moved);
	if (!moved) return BEV_NEED_MORE;
	return BEV_OK;
}
static void filter_free(void *arg) {
	FilterCtx *c = (FilterCtx *)arg;
	c->freed++;
	if (c->freed > 1) violation("C10.filter-context-freed-twice", "filter context of end %d freed %d times", c->endidx, c->freed);
}

// ---- callbacks
static void end_free(int i, const char *why);

// evbuffer callbacks on the application-facing input / output buffers: transfers are what restarts a timeout,
// and growth of the input is what a high read watermark bounds
static void note_susp(End &x, size_t len) {
	bool s = x.rhigh && len >= x.rhigh;
	if (s && x.susp_since < 0) x.susp_since = now_us();
	if (!s) x.susp_since = -1;
}
static void inbuf_cb(struct evbuffer *b, const struct evbuffer_cb_info *info, void *arg) {
	End &x = R->e[(int)(intptr_t)arg];
	if (x.freed || stop()) return;
	x.r_start = now_us(); x.r_due_seen = 0;
	note_susp(x, evbuffer_get_length(b));
	if (info->n_added) {
		tr("inbuf end=%d orig=%zu added=%zu deleted=%zu susp=%d", x.id, info->orig_size, info->n_added, info->n_deleted, shim_bev_read_suspended(x.bev));
		x.last_r_activity = G.now_ns / 1000;
		size_t len = evbuffer_get_length(b);
		bool eof_drain = !x.under.empty() && x.peer >= 0 && R->e[x.peer].tx_closed;	// after EOF from below a filter hands over what is left, as a flush does
		if (x.rhigh && len > x.rhigh && !R->in_app_add && !R->in_flush && !eof_drain) V("C18", "C18.input-above-high-watermark", "end %d: the library grew the input buffer to %zu bytes, high read watermark %zu", x.id, len, x.rhigh);
		if (x.rhigh && len >= x.rhigh) R->wm_reached++;
	}
}
static void outbuf_cb(struct evbuffer *b, const struct evbuffer_cb_info *info, void *arg) {
	End &x = R->e[(int)(intptr_t)arg];
	(void)b;
	if (x.freed || stop()) return;
	if (info->n_deleted) x.last_w_activity = G.now_ns / 1000;
	// a transfer restarts the write timer; so may new output when none was pending (sockets) or whenever the
	// transport re-evaluates (pairs, filters)
	if (info->n_deleted || info->orig_size == 0 || !x.is_sock) { x.w_start = now_us(); x.w_due_seen = 0; }
	size_t l = evbuffer_get_length(b);
	if (l < x.out_min_since_cb) x.out_min_since_cb = l;
	if (info->n_deleted && l <= x.wlow) x.out_low_seen_since_cb = true;
}

static bool cb_guard(End &x, const char *what) {
	if (stop()) return false;
	if (x.freed) { V("C19", "C19.callback-after-free", "end %d: %s callback after bufferevent_free", x.id, what); return false; }
	if (x.cbs_cleared) { V("C19", "C19.callback-after-setcb-null", "end %d: %s callback after the callbacks were cleared", x.id, what); return false; }
	return true;
}

static void drain_and_verify(End &x, size_t want) {
	struct evbuffer *in = bufferevent_get_input(x.bev);
	unsigned char buf[8192];
	End &p = R->e[x.peer];
	while (want > 0) {
		size_t k = std::min(want, sizeof buf);
		// look first, account, then remove: removing bytes can run the read callback again from inside the call (a filter
		// below refills the input as soon as there is room), and that nested callback continues the stream where this one left it
		ev_ssize_t got = evbuffer_copyout(in, buf, k);
		size_t n = got > 0 ? (size_t)got : 0;
		if (n == 0) break;
		for (size_t j = 0; j < n; j++) {
			unsigned char expv = stream_byte(p.id, x.rcvd);
			if (buf[j] != expv) {
				V("C17", "C17.corrupt", "end %d read byte %llu of the stream from end %d as 0x%02x, it was written as 0x%02x (%llu bytes verified so far)", x.id,
				    (unsigned long long)x.rcvd, p.id, buf[j], expv, (unsigned long long)x.rcvd);
				return;
			}
			x.rcvd++;
		}
		R->bytes_crossed += n;
		want -= n;
		evbuffer_drain(in, n);
	}
	if (x.rcvd > p.sent) V("C17", "C17.duplicate", "end %d verified %llu bytes, end %d only wrote %llu", x.id, (unsigned long long)x.rcvd, p.id, (unsigned long long)p.sent);
}

static void read_cb(struct bufferevent *bev, void *arg) {
	End &x = R->e[(int)(intptr_t)arg];
	size_t len = evbuffer_get_length(bufferevent_get_input(bev));
	tr("cb read end=%d len=%zu", x.id, len);
	if (!cb_guard(x, "read")) return;
	bool lc = x.low_changed; (void)lc;
	x.n_readcb++;
	if (x.connecting && x.n_connected == 0) V("C19", "C19.read-before-connected", "end %d: read callback before BEV_EVENT_CONNECTED", x.id);
	// with deferred callbacks the condition is evaluated when the callback is queued, not when it runs
	bool deferred_cbs = x.is_pair || (x.opts & BEV_OPT_DEFER_CALLBACKS);
	if (len < x.rlow && !x.eof_seen && !x.low_changed && !deferred_cbs) V("C18", "C18.read-below-low-watermark", "end %d: read callback with %zu bytes buffered, low watermark %zu", x.id, len, x.rlow);
	if (x.eof_seen && x.rcvd + len > x.rcvd_at_eof) V("C19", "C19.read-after-eof", "end %d: new bytes delivered after EOF", x.id);
	x.low_changed = false;
	size_t want = 0;
	switch (x.policy) {
	case 0: want = len; break;
	case 1: want = (len + 1) / 2; break;
	case 2: want = 0; break;
	default: want = std::min<size_t>(1, len); break;
	}
	// libevent re-schedules the read callback for as long as the input stays at or above the high watermark
	// with reading enabled (bufferevent_inbuf_wm_check): an application must drain below it or disable reading
	if (x.rhigh && len - want >= x.rhigh) {
		if (x.hold_by_disable) {
			bufferevent_disable(x.bev, EV_READ);
			x.enabled &= ~EV_READ;
			probe("held-at-high-watermark-by-disabling-read");
		} else want = len - x.rhigh + 1;
	}
	R->in_cb = true;
	drain_and_verify(x, want);
	R->in_cb = false;
	if (x.free_in_cb == 1 && !stop()) { probe("free-inside-read-callback"); end_free(x.id, "inside its read callback"); }
}
static void write_cb(struct bufferevent *bev, void *arg) {
	End &x = R->e[(int)(intptr_t)arg];
	size_t len = evbuffer_get_length(bufferevent_get_output(bev));
	tr("cb write end=%d outlen=%zu", x.id, len);
	if (!cb_guard(x, "write")) return;
	x.n_writecb++;
	if (x.connecting && x.n_connected == 0) V("C19", "C19.write-before-connected", "end %d: write callback before BEV_EVENT_CONNECTED", x.id);
	// a deferred write callback is queued when a drain leaves the output at or below the low watermark in force at
	// that moment; the application may lower the watermark before the queued callback runs
	if (len > x.wlow && x.out_min_since_cb > x.wlow && !x.out_low_seen_since_cb) V("C18", "C18.write-above-low-watermark", "end %d: write callback although the output buffer never dropped to the low watermark %zu (now %zu, minimum since the last callback %zu)", x.id, x.wlow, len, x.out_min_since_cb);
	x.out_min_since_cb = len;
	x.out_low_seen_since_cb = false;
}
static void event_cb(struct bufferevent *bev, short what, void *arg) {
	End &x = R->e[(int)(intptr_t)arg];
	(void)bev;
	tr("cb event end=%d what=0x%x", x.id, what);
	if (!cb_guard(x, "event")) return;
	End &p = R->e[x.peer];
	if (what & BEV_EVENT_CONNECTED) {
		x.n_connected++;
		if (x.n_connected > 1) V("C19", "C19.connected-twice", "end %d: BEV_EVENT_CONNECTED reported %d times", x.id, x.n_connected);
		if (x.n_readcb || x.n_writecb) V("C19", "C19.connected-after-io", "end %d: CONNECTED after %d read / %d write callbacks", x.id, x.n_readcb, x.n_writecb);
		probe("connected");
		x.r_start = x.w_start = now_us();
	}
	// deferred event callbacks merge what became pending: a read and a write timeout can arrive as one event
	// ... and so can a timeout and an EOF/error: BEV_EVENT_EOF|READING|WRITING (a pair partner's flush(FINISHED) of both
	// directions) merged with TIMEOUT|READING does not say which direction timed out. Then the timeout is attributed to
	// the directions it can belong to (a timeout set and elapsed, the direction enabled by the application and disabled
	// by the library); if there is none the event is judged as it stands.
	bool tmo_dir[2] = {true, true};
	if ((what & BEV_EVENT_TIMEOUT) && (what & (BEV_EVENT_EOF | BEV_EVENT_ERROR)) && (what & BEV_EVENT_READING) && (what & BEV_EVENT_WRITING)) {
		short en_now = bufferevent_get_enabled(x.bev);
		bool can[2];
		for (int dir = 0; dir < 2; dir++) {
			bool rd = dir == 0;
			short bit = rd ? EV_READ : EV_WRITE;
			int64_t T = rd ? x.rt_us : x.wt_us;
			int64_t last = rd ? x.last_r_activity : x.last_w_activity;
			can[dir] = (!rd && x.connecting && x.n_connected == 0) || (T > 0 && now_us() - last >= T && (x.enabled & bit) && !(en_now & bit));
		}
		if (can[0] || can[1]) { tmo_dir[0] = can[0]; tmo_dir[1] = can[1]; probe("timeout-merged-with-eof-or-error"); }
	}
	for (int dir = 0; dir < 2 && (what & BEV_EVENT_TIMEOUT); dir++) {
		bool rd = dir == 0;
		if (!(what & (rd ? BEV_EVENT_READING : BEV_EVENT_WRITING))) continue;
		if (!tmo_dir[dir]) continue;
		R->timeouts_seen++;
		int64_t T = rd ? x.rt_us : x.wt_us;
		int64_t last = rd ? x.last_r_activity : x.last_w_activity;
		bool connect_timeout = !rd && x.connecting && x.n_connected == 0;	// while connecting, the write timeout is the connect timeout
		if (connect_timeout) probe("connect-timeout");
		else {
			if (T <= 0) V("C20", "C20.timeout-without-setting", "end %d: %s timeout event but no %s timeout is set", x.id, rd ? "read" : "write", rd ? "read" : "write");
			else if (now_us() - last < T) V("C20", "C20.timeout-early", "end %d: %s timeout after %lld us of inactivity, configured %lld us", x.id, rd ? "read" : "write", (long long)(now_us() - last), (long long)T);
			if (rd && x.susp_since >= 0 && now_us() - x.susp_since >= 1000 && now_us() - x.susp_since >= T / 2)
				V("C20", "C20.read-timeout-while-suspended", "end %d: read timeout although reading has been suspended by the high read watermark %zu for %lld us (timeout %lld us)", x.id, x.rhigh, (long long)(now_us() - x.susp_since), (long long)T);
			if (!(x.enabled & (rd ? EV_READ : EV_WRITE))) V("C20", "C20.timeout-while-disabled", "end %d: %s timeout while that direction is disabled", x.id, rd ? "read" : "write");
			if (!rd && evbuffer_get_length(bufferevent_get_output(x.bev)) == 0) {
				if (x.is_sock) { if (!suppressed("socket-write-timeout-with-empty-output")) V("C20", "C20.write-timeout-without-pending-output:socket", "end %d: write timeout fired on a socket bufferevent with an empty output buffer (writing was enabled while the socket was not writable)", x.id); else probe("known:socket-write-timeout-with-empty-output"); }
				else V("C20", "C20.write-timeout-without-pending-output", "end %d: write timeout fired with an empty output buffer", x.id);
			}
		}
		x.enabled &= ~(rd ? EV_READ : EV_WRITE);
		short en = bufferevent_get_enabled(x.bev);
		if (!connect_timeout && (en & (rd ? EV_READ : EV_WRITE))) V("C20", "C20.direction-not-disabled", "end %d: %s still enabled after its timeout", x.id, rd ? "read" : "write");
		(rd ? x.n_timeout_r : x.n_timeout_w)++;
		probe(rd ? "read-timeout" : "write-timeout");
	}
	if (what & (BEV_EVENT_EOF | BEV_EVENT_ERROR)) {
		bool rd = (what & BEV_EVENT_READING) || !(what & BEV_EVENT_WRITING);
		bool eof = what & BEV_EVENT_EOF;
		int &cnt = rd ? (eof ? x.n_eof_r : x.n_err_r) : (eof ? x.n_eof_w : x.n_err_w);
		cnt++;
		R->ends_reached++;
		if (cnt > 1) V("C17", "C17.eof-twice", "end %d: %s on the %s side reported %d times", x.id, eof ? "EOF" : "ERROR", rd ? "read" : "write", cnt);
		if (rd && eof) {
			size_t inbuf = evbuffer_get_length(bufferevent_get_input(x.bev));
			x.eof_seen = true;
			x.rcvd_at_eof = x.rcvd + inbuf;
			if (!p.tx_closed && !p.freed) V("C17", "C17.eof-without-shutdown", "end %d: EOF although end %d never shut down", x.id, p.id);
			else if (!p.tx_reset && !x.tx_reset && x.rcvd + inbuf != p.sent_at_close && ((bufferevent_get_enabled(x.bev) & EV_READ) || x.is_pair))	// a filter that disabled reading chose not to pull; a pair member is handed everything by the flush
				V("C17", "C17.eof-before-all-data", "end %d: EOF after %llu of the %llu bytes end %d wrote before its shutdown (%zu of them still unread in the input buffer)", x.id,
				    (unsigned long long)(x.rcvd + inbuf), (unsigned long long)p.sent_at_close, p.id, inbuf);
			probe("eof");
		}
		if (!eof) probe("error-event");
		x.enabled = bufferevent_get_enabled(x.bev);	// sockets stop reading on EOF/error, pairs and filters leave it to the application
		bool was_connecting = x.connecting && x.n_connected == 0;
		x.connecting = false;
		if (was_connecting && !eof && x.retry_in_cb && x.connect_attempts < 3 && !stop()) {
			// fail-over from inside the error callback: a new connection starts, with a lifecycle of its own
			sockaddr_in sa = vk::addr4(0x7f000001, (uint16_t)(8000 + x.id / 2));
			x.connect_attempts++;
			x.n_err_r = x.n_err_w = x.n_eof_r = x.n_eof_w = 0;
			x.n_readcb = x.n_writecb = 0;
			x.connecting = true;
			int r = bufferevent_socket_connect(x.bev, (sockaddr *)&sa, sizeof sa);
			x.fd = bufferevent_getfd(x.bev);
			tr("api reconnect-in-callback end=%d attempt=%d -> %d fd=%d", x.id, x.connect_attempts, r, x.fd);
			if (r != 0) x.connecting = false;
			bufferevent_enable(x.bev, EV_READ | EV_WRITE);
			x.enabled = bufferevent_get_enabled(x.bev);
			x.r_start = x.w_start = now_us();
			probe("reconnect-inside-error-callback");
		} else if (was_connecting && !stop()) {
			// the connection never came up: the application gives the bufferevent up (it is freed at the end)
			bufferevent_disable(x.bev, EV_READ | EV_WRITE);
			x.enabled = 0;
			x.n_err_r = x.n_err_w = 1;
			x.tx_reset = true;
			if (x.peer >= 0) R->e[x.peer].tx_reset = true;
			probe("connect-failed");
		}
	}
	if (x.free_in_cb == 2 && !stop()) { probe("free-inside-event-callback"); end_free(x.id, "inside its event callback"); }
}

// ---- scripted peer
static void ep_push(End &x) {
	if (!x.ep || !x.ep_open) return;
	while (!x.ep_pending.empty()) {
		size_t n = vk::ep_send(x.ep, x.ep_pending);
		if (!n) break;
		x.ep_pending.erase(0, n);
	}
}
static vk::EndpointCbs ep_cbs(int i) {
	vk::EndpointCbs c;
	c.on_data = [i](vk::Endpoint *, const std::string &d) {
		End &x = R->e[i];
		End &p = R->e[x.peer];
		for (unsigned char ch : d) {
			unsigned char expv = stream_byte(p.id, x.rcvd);
			if (ch != expv) { V("C17", "C17.corrupt", "scripted peer %d received byte %llu of the stream from end %d as 0x%02x, written as 0x%02x", x.id, (unsigned long long)x.rcvd, p.id, ch, expv); return; }
			x.rcvd++;
		}
		R->bytes_crossed += d.size();
		if (x.rcvd > p.sent) V("C17", "C17.duplicate", "scripted peer %d received %llu bytes, end %d wrote %llu", x.id, (unsigned long long)x.rcvd, p.id, (unsigned long long)p.sent);
	};
	c.on_eof = [i](vk::Endpoint *) {
		End &x = R->e[i];
		End &p = R->e[x.peer];
		tr("peer %d sees EOF rcvd=%llu", x.id, (unsigned long long)x.rcvd);
		if (!p.tx_closed && !p.freed) V("C17", "C17.eof-without-shutdown", "scripted peer %d: EOF although end %d never shut down", x.id, p.id);
		else if (!p.tx_reset && !x.tx_reset && x.rcvd != p.sent_at_close && !x.paused)
			V("C17", "C17.eof-before-all-data", "scripted peer %d: EOF after %llu of the %llu bytes end %d wrote before closing", x.id, (unsigned long long)x.rcvd, (unsigned long long)p.sent_at_close, p.id);
		x.eof_seen = true;
	};
	c.on_reset = [i](vk::Endpoint *) { R->e[i].tx_reset = true; R->e[i].ep_open = false; if (R->e[i].peer >= 0) R->e[R->e[i].peer].tx_reset = true; };
	c.on_writable = [i](vk::Endpoint *) { ep_push(R->e[i]); };
	c.on_connected = [i](vk::Endpoint *) { R->e[i].ep_open = true; };
	return c;
}

// ---- construction
static struct bufferevent *wrap_filters(int i, struct bufferevent *under, int nfilt, int kindseed, int opts, bool preserve = false) {
	End &x = R->e[i];
	struct bufferevent *cur = under;
	x.fctx.reserve(2 * MAXFILT + 2);
	for (int f = 0; f < nfilt; f++) {
		int kind = (kindseed >> (3 * f)) % 6;
		if (preserve) { if (kind == 1) kind = 0; if (kind == 3) kind = 5; }
		FilterCtx *ci = new FilterCtx{kind, true, 3 + (kindseed % 7), 0, i, 0, cur};
		FilterCtx *co = new FilterCtx{kind, false, 3 + (kindseed % 7), 0, i, 0, cur};
		// one context per direction would need two free callbacks; the API has one ctx: use a small holder
		struct Both { FilterCtx *in, *out; int freed; };
		(void)ci; (void)co;
		x.fctx.push_back(ci);
		x.fctx.push_back(co);
		struct bufferevent *nb = bufferevent_filter_new(cur,
		    [](struct evbuffer *s, struct evbuffer *d, ev_ssize_t l, enum bufferevent_flush_mode m, void *a) { return filter_fn(s, d, l, m, ((FilterCtx **)a)[0]); },
		    [](struct evbuffer *s, struct evbuffer *d, ev_ssize_t l, enum bufferevent_flush_mode m, void *a) { return filter_fn(s, d, l, m, ((FilterCtx **)a)[1]); },
		    opts | BEV_OPT_CLOSE_ON_FREE,
		    [](void *a) { FilterCtx **p = (FilterCtx **)a; filter_free(p[0]); p[1]->freed++; },
		    &x.fctx[x.fctx.size() - 2]);
		if (!nb) { violation("C19.filter-new", "bufferevent_filter_new failed"); return cur; }
		x.under.insert(x.under.begin(), cur);
		cur = nb;
	}
	return cur;
}
static void end_setup(int i) {
	End &x = R->e[i];
	x.exists = true;
	x.id = i;
	if (x.bev) {
		bufferevent_setcb(x.bev, read_cb, write_cb, event_cb, (void *)(intptr_t)i);
		evbuffer_add_cb(bufferevent_get_input(x.bev), inbuf_cb, (void *)(intptr_t)i);
		evbuffer_add_cb(bufferevent_get_output(x.bev), outbuf_cb, (void *)(intptr_t)i);
		x.enabled = bufferevent_get_enabled(x.bev);
		x.last_r_activity = x.last_w_activity = now_us();
	}
}

static void end_free(int i, const char *why) {
	End &x = R->e[i];
	if (!x.exists || x.freed) return;
	tr("api free end=%d %s", i, why);
	if (x.bev && strcmp(why, "teardown") != 0) R->released_early++;
	if (x.bev) {
		x.freed = true;
		x.tx_closed = true;
		x.sent_at_close = x.sent;
		// freeing with unsent output or unread input tears the connection down: the peer may miss bytes
		if (evbuffer_get_length(bufferevent_get_output(x.bev)) > 0 || x.is_pair || !x.under.empty()) { x.tx_reset = true; if (x.peer >= 0) R->e[x.peer].tx_reset = true; }
		if (x.is_sock && (evbuffer_get_length(bufferevent_get_input(x.bev)) > 0 || vk::sim_unread(x.fd) > 0)) { x.tx_reset = true; if (x.peer >= 0) R->e[x.peer].tx_reset = true; }
		if (x.peer >= 0) R->e[x.peer].tx_reset = R->e[x.peer].tx_reset || true;	// bytes in flight towards a freed end are lost by design
		if (x.in_group >= 0) { R->grp[x.in_group].members--; x.in_group = -1; }
		APIV(bufferevent_free(x.bev));
		x.bev = nullptr;
	} else if (x.ep) {
		x.freed = true;
		x.tx_closed = true;
		x.sent_at_close = x.sent - x.ep_pending.size();
		x.sent = x.sent_at_close;
		x.ep_pending.clear();
		vk::ep_close(x.ep);
		x.ep_open = false;
	}
}

// the tick of an I/O call is taken from the clock the library itself schedules by (the base's cached wall time):
// the property is stated in ticks of virtual time as the loop sees it, and a stale cache or a wall-clock jump the
// base has not noticed yet must not count against the library
static int64_t wall_ms() { struct timeval tv; event_base_gettimeofday_cached(R->base, &tv); return (int64_t)tv.tv_sec * 1000 + tv.tv_usec / 1000; }
static void ledger_epoch();
static int64_t g_last_wall_ms;	// the latest wall time an I/O call was accounted at (reset per run)
static void on_io(int fd, bool out, size_t n) {
	// the wall clock as the base sees it went backwards (a jump the plan made): tick numbers repeat from here on, so the
	// windows so far are judged and the accounting starts again
	{ int64_t w = wall_ms(); if (w < g_last_wall_ms) { probe("ledger-restarted-after-wall-clock-jump-back"); ledger_epoch(); } g_last_wall_ms = w; }
	for (int i = 0; i < R->nend; i++) {
		End &x = R->e[i];
		if (!x.exists || x.freed || !x.is_sock || x.fd != fd) continue;
		int d = out ? 1 : 0;
		(out ? x.sock_out : x.sock_in) += n;
		if (x.max_single[d] && n > x.max_single[d]) V("C22", "C22.max-single-exceeded", "end %d moved %zu bytes in one %s call, max_single is %zu", x.id, n, out ? "write" : "read", x.max_single[d]);
		if (x.rl_tick_ms) x.ledger[d][wall_ms() / x.rl_tick_ms] += (int64_t)n;
		if (x.in_group >= 0) { Group &g = R->grp[x.in_group]; g.ledger[d][wall_ms() / g.tick_ms] += (int64_t)n; }
	}
}
// an injected EINTR / EAGAIN: the readiness event was consumed without a transfer, and libevent's persistent event starts
// its timeout interval again. DESIGN.md (C20) allows the firing instant to lie in [last transfer + T, last attempt + T]
static void on_io_retry(int fd, bool out) {
	for (int i = 0; i < R->nend; i++) {
		End &x = R->e[i];
		if (!x.exists || x.freed || !x.is_sock || x.fd != fd) continue;
		if (out) { x.w_start = now_us(); x.w_due_seen = 0; } else { x.r_start = now_us(); x.r_due_seen = 0; }
	}
}
static void check_windows(const std::map<int64_t, int64_t> &led, int64_t rate, int64_t burst, int64_t extra, const char *who, int id, const char *dir) {
	// for every window of k consecutive ticks: bytes <= burst + k * rate (+ extra)
	std::vector<std::pair<int64_t, int64_t>> v(led.begin(), led.end());
	for (size_t a = 0; a < v.size() && !stop(); a++) {
		int64_t sum = 0;
		for (size_t b = a; b < v.size(); b++) {
			sum += v[b].second;
			int64_t k = v[b].first - v[a].first + 1;
			__int128 allowed = (__int128)burst + (__int128)k * rate + extra;
			if ((__int128)sum > allowed) {
				V("C22", "C22.bandwidth-exceeded", "%s %d %s %lld bytes in the %lld ticks %lld..%lld; burst %lld + %lld x rate %lld allows %lld", who, id, dir, (long long)sum, (long long)k,
				    (long long)v[a].first, (long long)v[b].first, (long long)burst, (long long)k, (long long)rate, (long long)allowed);
				return;
			}
		}
	}
}
static void ledger_epoch() {	// the wall clock went backwards: tick numbers repeat, start the accounting again
	for (int i = 0; i < R->nend; i++) for (int d = 0; d < 2; d++) {
		End &x = R->e[i];
		if (x.rl_tick_ms) check_windows(x.ledger[d], x.rl_rate[d], x.rl_burst[d], x.credit[d], "end", x.id, d ? "wrote" : "read");
		x.ledger[d].clear();
	}
	for (int gi = 0; gi < 2; gi++) for (int d = 0; d < 2; d++) {
		Group &g = R->grp[gi];
		if (g.g) check_windows(g.ledger[d], g.rate[d], g.burst[d], g.min_share, "group", gi, d ? "wrote" : "read");
		g.ledger[d].clear();
	}
}

// C22 progress clause, evaluated in the final phase (everything enabled, no watermarks, no faults): a limited socket
// bufferevent whose own and group buckets are positive, with bytes waiting, must move some within a tick (+ margin for
// the loop's own timer granularity and the network latency)
static void check_progress() {
	for (int i = 0; i < R->nend && !stop(); i++) {
		End &x = R->e[i];
		if (!x.exists || x.freed || !x.bev || !x.is_sock || (!x.rl_cfg && x.in_group < 0) || x.fd < 0) continue;
		if (x.peer < 0 || x.tx_reset || R->e[x.peer].tx_reset || R->e[x.peer].freed || x.n_err_r || x.n_err_w) continue;
		int64_t tick_ms = std::max<int64_t>(x.rl_tick_ms, x.in_group >= 0 ? R->grp[x.in_group].tick_ms : 0);
		for (int d = 0; d < 2; d++) {
			bool budget = d ? bufferevent_get_write_limit(x.bev) > 0 : bufferevent_get_read_limit(x.bev) > 0;
			if (x.in_group >= 0) { auto *g = R->grp[x.in_group].g; budget = budget && (d ? bufferevent_rate_limit_group_get_write_limit(g) > 0 : bufferevent_rate_limit_group_get_read_limit(g) > 0); }
			bool work = d ? (evbuffer_get_length(bufferevent_get_output(x.bev)) > 0 && vk::sim_unsent_room(x.fd) > 0 && !(x.n_err_w || x.n_eof_w) && !(x.connecting && x.n_connected == 0))
				      : (vk::sim_unread(x.fd) > 0 && !(x.eof_seen || x.n_err_r));
			uint64_t mark = d ? x.sock_out : x.sock_in;
			if (!budget || !work || mark != x.prog_mark[d] || x.prog_since[d] < 0) { x.prog_since[d] = G.now_ns; x.prog_mark[d] = mark; continue; }
			int64_t waited_ms = (G.now_ns - x.prog_since[d]) / 1000000;
			if (waited_ms > 2 * tick_ms + 50)
				V("C22", "C22.no-progress", "end %d: %s budget positive and bytes waiting for %lld ms (tick %lld ms) but no byte moved", x.id, d ? "write" : "read", (long long)waited_ms, (long long)tick_ms);
		}
	}
}

// ---- listener (C44)
static void lev_cb(struct evconnlistener *lev, evutil_socket_t fd, struct sockaddr *sa, int socklen, void *arg) {
	(void)arg; (void)socklen;
	tr("cb listener fd=%d peer=%s", (int)fd, vk::addr_str(sa).c_str());
	if (stop()) { close(fd); return; }
	if (R->lev_freed) { V("C44", "C44.callback-after-free", "listener callback after evconnlistener_free"); close(fd); return; }
	if (!R->lev_enabled) V("C44", "C44.delivered-while-disabled", "listener delivered a connection while it was disabled");
	if (!R->lev_has_cb) V("C44", "C44.delivered-without-callback", "listener callback ran although the callback was cleared");
	int port = sa->sa_family == AF_INET ? ntohs(((sockaddr_in *)sa)->sin_port) : -1;
	int ci = -1;
	for (size_t k = 0; k < R->clients.size(); k++) if (R->clients[k].port == port) ci = (int)k;
	if (ci < 0) { V("C44", "C44.wrong-peer-address", "listener callback got peer %s, which is not the address any client connected from", vk::addr_str(sa).c_str()); close(fd); return; }
	Client &c = R->clients[ci];
	c.delivered++;
	R->lev_delivered++;
	if (c.delivered > 1) V("C44", "C44.delivered-twice", "connection from port %d delivered %d times", port, c.delivered);
	auto it = R->accepted.find((int)fd);
	if (it == R->accepted.end() || it->second != ci) V("C44", "C44.wrong-fd", "callback got fd %d for the client on port %d, accept4 handed out another", (int)fd, port);
	R->delivered_fds.push_back((int)fd);
	if (R->lev_in_cb_action == 1) { R->lev_in_cb_action = 0; probe("listener-disabled-inside-callback"); evconnlistener_disable(lev); R->lev_enabled = false; }
	else if (R->lev_in_cb_action == 2) { R->lev_in_cb_action = 0; probe("listener-freed-inside-callback"); evconnlistener_free(lev); R->lev = nullptr; R->lev_freed = true; R->lev_enabled = false; }
}
static void lev_err_cb(struct evconnlistener *lev, void *arg) {
	(void)lev; (void)arg;
	int err = errno;
	tr("cb listener error errno=%d", err);
	R->lev_errors++;
	if (err == EAGAIN || err == EINTR || err == ECONNABORTED) V("C44", "C44.error-callback-for-retriable", "error callback invoked for retriable errno %d", err);
}
static void on_accept(int lfd, int nfd, int port, int err) {
	if (lfd != R->lev_fd) return;
	if (!R->lev_enabled && !R->lev_freed) R->accept_while_disabled++;
	if (nfd >= 0) {
		for (size_t k = 0; k < R->clients.size(); k++) if (R->clients[k].port == port) { R->clients[k].accepted_fd = nfd; R->accepted[nfd] = (int)k; }
		if (!R->lev_enabled) V("C44", "C44.accepted-while-disabled", "accept4 took a connection while the listener was disabled");
	} else if (err != EAGAIN && err != EINTR && err != ECONNABORTED) R->lev_expected_errors++;
}

static int pick_end(int64_t v, bool need_bev, bool need_ep = false) {
	int idx[MAXEND], n = 0;
	for (int i = 0; i < R->nend; i++) {
		End &x = R->e[i];
		if (!x.exists || x.freed) continue;
		if (need_bev && !x.bev) continue;
		if (need_ep && !x.ep) continue;
		idx[n++] = i;
	}
	if (!n) return -1;
	return idx[((v % n) + n) % n];
}

// C20, the "if" half: a direction that has been enabled, not suspended, (for writes) with output pending and without a
// transfer for the configured time must get its timeout.  r_start / w_start are the latest instants at which the library
// may have restarted the timer; the verdict waits for two complete loop calls that began after the deadline (a deferred
// event callback runs one iteration later)
static void check_timeouts_due(int64_t t_loop_start) {
	for (int i = 0; i < R->nend && !stop(); i++) {
		End &x = R->e[i];
		if (!x.exists || x.freed || !x.bev || x.cbs_cleared) continue;
		if (x.connecting && x.n_connected == 0) continue;
		if (x.rl_cfg || x.in_group >= 0) continue;
		size_t inl = evbuffer_get_length(bufferevent_get_input(x.bev)), outl = evbuffer_get_length(bufferevent_get_output(x.bev));
		bool r_armed = x.rt_us > 0 && (x.enabled & EV_READ) && !x.eof_seen && !x.n_err_r && !(x.rhigh && inl >= x.rhigh);
		if (r_armed && t_loop_start >= x.r_start + x.rt_us + 1000) {
			if (++x.r_due_seen >= 2) V("C20", "C20.timeout-missed", "end %d: reading enabled, not suspended, nothing received for %lld us with a read timeout of %lld us, and no BEV_EVENT_TIMEOUT", x.id, (long long)(now_us() - x.r_start), (long long)x.rt_us);
		} else x.r_due_seen = 0;
		bool w_armed = x.wt_us > 0 && (x.enabled & EV_WRITE) && !x.n_err_w && !x.n_eof_w && outl > 0;
		if (w_armed && t_loop_start >= x.w_start + x.wt_us + 1000) {
			if (++x.w_due_seen >= 2) V("C20", "C20.timeout-missed", "end %d: writing enabled with %zu bytes pending, nothing written for %lld us with a write timeout of %lld us, and no BEV_EVENT_TIMEOUT", x.id, outl, (long long)(now_us() - x.w_start), (long long)x.wt_us);
		} else x.w_due_seen = 0;
	}
}

// C18 "reading resumes as soon as the application drains below the high watermark (or raises it)": the library keeps this
// as a flag, which the next transfer consults; checked where the application just changed mark or level
static void check_wm_state(End &x, const char *after) {
	if (stop() || !x.bev || x.freed) return;
	size_t len = evbuffer_get_length(bufferevent_get_input(x.bev));
	bool want = x.rhigh && len >= x.rhigh;
	bool have = shim_bev_read_suspended(x.bev) & 0x01;	// BEV_SUSPEND_WM
	if (want != have)
		V("C18", "C18.read-suspension-state", "end %d after %s: %zu bytes buffered, high read watermark %zu, reading is %s by the watermark", x.id, after, len, x.rhigh, have ? "still suspended" : "not suspended");
}

static void exec_op(const Op &op) {
	switch (op.code) {
	case OP_WRITE: {
		int i = pick_end(op.a[0], true);
		if (i < 0) break;
		End &x = R->e[i];
		if (x.tx_closed) break;
		size_t n = (size_t)op.a[1];
		if (vk::net.seg_size <= 3 && vk::net.seg_mode != 0 && n > 30000) { n = 30000; probe("size-capped-for-tiny-segments"); }
		std::string s(n, 0);
		for (size_t j = 0; j < n; j++) s[j] = (char)stream_byte(x.id, x.sent + j);
		int r = API(bufferevent_write(x.bev, s.data(), n));
		tr("api write end=%d n=%zu -> %d", i, n, r);
		if (r == 0) x.sent += n;
		else V("C17", "C17.write-failed", "bufferevent_write(%zu) returned %d", n, r);
		break;
	}
	case OP_POLICY: {
		int i = pick_end(op.a[0], true);
		if (i < 0) break;
		End &x = R->e[i];
		x.policy = (int)(op.a[1] % 4);
		x.free_in_cb = (op.a[2] % 16 == 7) ? 1 : (op.a[2] % 16 == 9 ? 2 : 0);
		if (op.a[2] % 16 == 11) x.retry_in_cb = 1;
		x.hold_by_disable = (op.a[2] & 32) ? 1 : 0;
		tr("api read_policy end=%d policy=%d free_in_cb=%d", i, x.policy, x.free_in_cb);
		// an application that starts reading again drains what is buffered (as a read callback would)
		if (x.policy != 2 && !x.eof_seen) {
			size_t len = evbuffer_get_length(bufferevent_get_input(x.bev));
			if (len) { drain_and_verify(x, x.policy == 0 ? len : 1); x.low_changed = true; check_wm_state(x, "draining the input"); }	// a read callback already queued will find less than it was queued for
		}
		break;
	}
	case OP_ENABLE: case OP_DISABLE: {
		int i = pick_end(op.a[0], true);
		if (i < 0) break;
		End &x = R->e[i];
		short ev = (short)((op.a[1] & 1 ? EV_READ : 0) | (op.a[1] & 2 ? EV_WRITE : 0));
		if (!ev) ev = EV_READ;
		if (op.code == OP_ENABLE && (ev & EV_READ) && (x.eof_seen || x.n_err_r)) ev &= ~EV_READ;	// never re-enable a direction after its EOF / error was reported
		if (op.code == OP_ENABLE && (ev & EV_WRITE) && (x.n_err_w || x.n_eof_w)) ev &= ~EV_WRITE;
		if (!ev) break;
		int r = op.code == OP_ENABLE ? API(bufferevent_enable(x.bev, ev)) : API(bufferevent_disable(x.bev, ev));
		tr("api %s end=%d ev=0x%x -> %d", opnames[op.code], i, ev, r);
		if (r == 0) {
			if (op.code == OP_ENABLE) {
				if (ev & EV_READ) { x.r_start = now_us(); x.r_due_seen = 0; }
				if (ev & EV_WRITE) { x.w_start = now_us(); x.w_due_seen = 0; }
				if ((ev & EV_READ) && !(x.enabled & EV_READ)) x.last_r_activity = now_us();
				if ((ev & EV_WRITE) && !(x.enabled & EV_WRITE)) x.last_w_activity = now_us();
				x.enabled |= ev;
			} else x.enabled &= ~ev;
		}
		R->faults_or_toggles++;
		break;
	}
	case OP_WATERMARK: {
		int i = pick_end(op.a[0], true);
		if (i < 0) break;
		End &x = R->e[i];
		short ev = (op.a[1] & 1) ? EV_READ : EV_WRITE;
		size_t low = (size_t)op.a[2], high = (size_t)op.a[3];
		// only write marks below a filter (the documented back-pressure pattern); a read high mark on an underlying
		// bufferevent whose filter cannot take more makes bufferevent_inbuf_wm_check re-queue the read callback for ever
		int level = (x.under.empty() || ev == EV_READ) ? 0 : (int)(op.a[4] % (int64_t)(1 + x.under.size()));
		if (level > 0) {	// a watermark on an underlying bufferevent: back-pressure inside the stack, invisible at the top
			struct bufferevent *u = x.under[level - 1];
			APIV(bufferevent_setwatermark(u, ev, low, high));
			tr("api setwatermark end=%d level=%d %s low=%zu high=%zu", i, level, ev == EV_READ ? "read" : "write", low, high);
			probe("watermark-on-underlying");
			break;
		}
		if (op.a[5]) {	// relative to what is buffered right now: the boundary cases of every comparison
			size_t len = evbuffer_get_length(ev == EV_READ ? bufferevent_get_input(x.bev) : bufferevent_get_output(x.bev));
			switch (op.a[5] % 5) {
			case 1: high = len; break;
			case 2: high = len + 1; break;
			case 3: high = len + 1 + (size_t)op.a[3] % 5000; break;
			case 4: high = len > 1 ? len - 1 : 1; break;
			default: break;
			}
			if (low > high && (op.a[5] & 8)) low = high;
			probe("watermark-relative");
		}
		x.r_start = x.w_start = now_us(); x.r_due_seen = x.w_due_seen = 0;
		if (ev == EV_READ) { x.rlow = low; x.rhigh = high; x.low_changed = true; } else { x.wlow = low; x.whigh = high; }	// the call itself may resume transfers
		APIV(bufferevent_setwatermark(x.bev, ev, low, high));
		tr("api setwatermark end=%d %s low=%zu high=%zu", i, ev == EV_READ ? "read" : "write", low, high);
		if (ev == EV_READ) { note_susp(x, evbuffer_get_length(bufferevent_get_input(x.bev))); check_wm_state(x, "bufferevent_setwatermark"); }
		break;
	}
	case OP_TIMEOUTS: {
		int i = pick_end(op.a[0], true);
		if (i < 0) break;
		End &x = R->e[i];
		struct timeval rt = {(time_t)(op.a[1] / 1000000), (suseconds_t)(op.a[1] % 1000000)}, wt = {(time_t)(op.a[2] / 1000000), (suseconds_t)(op.a[2] % 1000000)};
		int r = API(bufferevent_set_timeouts(x.bev, op.a[1] ? &rt : nullptr, op.a[2] ? &wt : nullptr));
		x.rt_us = op.a[1];
		x.wt_us = op.a[2];
		x.last_r_activity = x.last_w_activity = now_us();
		x.r_start = x.w_start = now_us(); x.r_due_seen = x.w_due_seen = 0;
		tr("api set_timeouts end=%d r=%lld w=%lld -> %d", i, (long long)op.a[1], (long long)op.a[2], r);
		break;
	}
	case OP_FLUSH: {
		int i = pick_end(op.a[0], true);
		if (i < 0) break;
		End &x = R->e[i];
		short io = (short)((op.a[1] & 1 ? EV_READ : 0) | (op.a[1] & 2 ? EV_WRITE : 0));
		if (x.eof_seen) io &= ~EV_READ;	// pulling more input up after EOF was reported is the application's own doing
		if (!io) io = EV_WRITE;
		enum bufferevent_flush_mode mode = (op.a[2] % 3 == 0) ? BEV_NORMAL : (op.a[2] % 3 == 1 ? BEV_FLUSH : BEV_FINISHED);
		if (mode == BEV_FINISHED && (x.is_sock || x.tx_closed || !(x.enabled & EV_WRITE))) mode = BEV_FLUSH;	// finishing a stream whose writing is disabled is the application's own truncation
		if (mode == BEV_FINISHED) {
			if (!(io & EV_WRITE)) io |= EV_WRITE;
			if (suppressed("pair-finished-flush-with-read-watermark") && R->e[x.peer].rhigh) mode = BEV_FLUSH;
		}
		if (mode == BEV_FLUSH && (x.is_pair || !x.under.empty()) && R->e[x.peer].rhigh && suppressed("pair-flush-ignores-read-watermark")) mode = BEV_NORMAL;
		if (mode == BEV_FINISHED) { x.tx_closed = true; x.sent_at_close = x.sent; probe("flush-finished"); }
		if (mode != BEV_NORMAL) R->in_flush++;
		x.r_start = x.w_start = now_us(); x.r_due_seen = x.w_due_seen = 0;
		if (x.peer >= 0) { End &q = R->e[x.peer]; q.r_start = q.w_start = now_us(); q.r_due_seen = q.w_due_seen = 0; }
		int r = API(bufferevent_flush(x.bev, io, mode));
		if (mode != BEV_NORMAL) R->in_flush--;
		tr("api flush end=%d io=0x%x mode=%d -> %d", i, io, (int)mode, r);
		break;
	}
	case OP_SETCB_NULL: {
		int i = pick_end(op.a[0], true);
		if (i < 0) break;
		End &x = R->e[i];
		APIV(bufferevent_setcb(x.bev, nullptr, nullptr, nullptr, nullptr));
		x.cbs_cleared = true;
		// nobody reads any more: the peer's data piles up, which is fine
		tr("api setcb_null end=%d", i);
		probe("setcb-null");
		break;
	}
	case OP_FREE: {
		int i = pick_end(op.a[0], false);
		if (i < 0) break;
		end_free(i, "at top level");
		break;
	}
	case OP_SHUTDOWN_WR: {
		// half-close of a socket bufferevent's fd once its output is drained
		int i = pick_end(op.a[0], true);
		if (i < 0) break;
		End &x = R->e[i];
		if (!x.is_sock || x.tx_closed || x.fd < 0 || x.connecting) break;
		if (evbuffer_get_length(bufferevent_get_output(x.bev)) != 0) break;
		x.tx_closed = true;
		x.sent_at_close = x.sent;
		shutdown(x.fd, SHUT_WR);
		tr("api shutdown_wr end=%d", i);
		probe("socket-half-close");
		break;
	}
	case OP_PEER_SEND: {
		int i = pick_end(op.a[0], false, true);
		if (i < 0) break;
		End &x = R->e[i];
		if (x.tx_closed) break;
		size_t n = (size_t)op.a[1];
		if (vk::net.seg_size <= 3 && n > 30000) { n = 30000; probe("size-capped-for-tiny-segments"); }	// half a megabyte in 1-byte segments is a million simulator events: the run would only hit the watchdog
		for (size_t j = 0; j < n; j++) x.ep_pending += (char)stream_byte(x.id, x.sent + j);
		x.sent += n;
		ep_push(x);
		tr("api peer_send end=%d n=%zu", i, n);
		break;
	}
	case OP_PEER_SHUTDOWN: {
		int i = pick_end(op.a[0], false, true);
		if (i < 0) break;
		End &x = R->e[i];
		if (x.tx_closed || !x.ep_open) break;
		// only what the send buffer has taken is part of the stream
		x.sent -= x.ep_pending.size();
		x.ep_pending.clear();
		x.tx_closed = true;
		x.sent_at_close = x.sent;
		vk::ep_shutdown(x.ep);
		tr("api peer_shutdown end=%d", i);
		probe("peer-half-close");
		break;
	}
	case OP_PEER_RESET: {
		int i = pick_end(op.a[0], false, true);
		if (i < 0) break;
		End &x = R->e[i];
		if (!x.ep_open) break;
		x.tx_reset = true;
		R->e[x.peer].tx_reset = true;
		x.tx_closed = true;
		x.sent_at_close = x.sent;
		x.freed = true;
		vk::ep_reset(x.ep);
		x.ep_open = false;
		R->faults_or_toggles++;
		tr("api peer_reset end=%d", i);
		fault("net.rst");
		break;
	}
	case OP_PEER_PAUSE: {
		int i = pick_end(op.a[0], false, true);
		if (i < 0) break;
		End &x = R->e[i];
		x.paused = op.a[1] & 1;
		vk::ep_pause_reading(x.ep, x.paused);
		tr("api peer_pause end=%d paused=%d", i, (int)x.paused);
		if (x.paused) probe("peer-stalled");
		break;
	}
	case OP_ADVANCE:
		vk::advance_running(op.a[0] * 1000);
		if (op.a[1]) {	// wall-clock jump (ms, signed): rate-limit ticks follow the wall clock
			G.wall_off_ns += op.a[1] * 1000000;
			fault(op.a[1] > 0 ? "clock.wall-jump-forward" : "clock.wall-jump-back");
		}
		break;
	case OP_RATELIMIT: {
		int i = pick_end(op.a[0], true);
		if (i < 0) break;
		End &x = R->e[i];
		if (!x.is_sock) break;
		if (op.a[1] == 0) {	// remove the limit
			if (!x.rl_cfg) break;
			int r = API(bufferevent_set_rate_limit(x.bev, nullptr));
			tr("api set_rate_limit end=%d NULL -> %d", i, r);
			for (int d = 0; d < 2; d++) { check_windows(x.ledger[d], x.rl_rate[d], x.rl_burst[d], x.credit[d], "end", x.id, d ? "wrote" : "read"); x.ledger[d].clear(); x.credit[d] = 0; }
			ev_token_bucket_cfg_free(x.rl_cfg);
			x.rl_cfg = nullptr;
			x.rl_tick_ms = 0;
			break;
		}
		if (x.rl_cfg) break;
		int64_t rr = op.a[1], rb = std::max(op.a[1], op.a[2]), wr = op.a[3], wb = std::max(op.a[3], op.a[4]), tick = std::max<int64_t>(1, op.a[5]);
		struct timeval tv = {(time_t)(tick / 1000), (suseconds_t)((tick % 1000) * 1000)};
		struct ev_token_bucket_cfg *cfg = ev_token_bucket_cfg_new((size_t)rr, (size_t)rb, (size_t)wr, (size_t)wb, &tv);
		if (!cfg) break;
		int r = API(bufferevent_set_rate_limit(x.bev, cfg));
		tr("api set_rate_limit end=%d read %lld/%lld write %lld/%lld tick=%lldms -> %d", i, (long long)rr, (long long)rb, (long long)wr, (long long)wb, (long long)tick, r);
		if (r != 0) { ev_token_bucket_cfg_free(cfg); break; }
		x.rl_cfg = cfg;
		x.rl_rate[0] = rr; x.rl_burst[0] = rb; x.rl_rate[1] = wr; x.rl_burst[1] = wb;
		x.rl_tick_ms = tick;
		probe("rate-limit-set");
		break;
	}
	case OP_GROUP: {
		int gi = (int)(op.a[0] & 1);
		Group &g = R->grp[gi];
		int act = (int)(op.a[1] % 4);
		if (act == 0 && !g.g) {
			int64_t rr = std::max<int64_t>(1, op.a[2]), rb = std::max(rr, op.a[3]), tick = std::max<int64_t>(1, op.a[4]);
			struct timeval tv = {(time_t)(tick / 1000), (suseconds_t)((tick % 1000) * 1000)};
			g.cfg = ev_token_bucket_cfg_new((size_t)rr, (size_t)rb, (size_t)rr, (size_t)rb, &tv);
			if (!g.cfg) break;
			g.g = API(bufferevent_rate_limit_group_new(R->base, g.cfg));
			if (!g.g) { ev_token_bucket_cfg_free(g.cfg); g.cfg = nullptr; break; }
			g.rate[0] = g.rate[1] = rr; g.burst[0] = g.burst[1] = rb; g.tick_ms = tick; g.min_share = 64;
			tr("api group_new g=%d rate=%lld burst=%lld tick=%lldms", gi, (long long)rr, (long long)rb, (long long)tick);
			probe("rate-group");
		} else if (act == 1 && g.g) {
			int i = pick_end(op.a[2], true);
			if (i < 0 || !R->e[i].is_sock || R->e[i].in_group >= 0) break;
			int r = API(bufferevent_add_to_rate_limit_group(R->e[i].bev, g.g));
			tr("api group_add g=%d end=%d -> %d", gi, i, r);
			if (r == 0) { R->e[i].in_group = gi; g.members++; }
		} else if (act == 2 && g.g) {
			int i = pick_end(op.a[2], true);
			if (i < 0 || R->e[i].in_group != gi) break;
			int r = API(bufferevent_remove_from_rate_limit_group(R->e[i].bev));
			tr("api group_remove g=%d end=%d -> %d", gi, i, r);
			R->e[i].in_group = -1;
			probe("left-rate-group");
		} else if (act == 3 && g.g) {
			size_t share = (size_t)(op.a[2] % 5000);
			int r = API(bufferevent_rate_limit_group_set_min_share(g.g, share));
			if (r == 0) g.min_share = std::max<int64_t>(g.min_share, (int64_t)share);
			tr("api group_min_share g=%d share=%zu -> %d", gi, share, r);
		}
		break;
	}
	case OP_DECREMENT: {
		int i = pick_end(op.a[0], true);
		if (i < 0) break;
		End &x = R->e[i];
		if (!x.rl_cfg) break;
		if (op.a[2] < 0) {	// a negative decrement grants budget: windows so far are checked as they are, later ones get the credit
			int d = (int)(op.a[1] & 1);
			check_windows(x.ledger[d], x.rl_rate[d], x.rl_burst[d], x.credit[d], "end", x.id, d ? "wrote" : "read");
			x.credit[d] += -op.a[2];
		}
		int r = (op.a[1] & 1) ? API(bufferevent_decrement_write_limit(x.bev, (ev_ssize_t)op.a[2])) : API(bufferevent_decrement_read_limit(x.bev, (ev_ssize_t)op.a[2]));
		tr("api decrement_%s_limit end=%d by %lld -> %d", (op.a[1] & 1) ? "write" : "read", i, (long long)op.a[2], r);
		probe("manual-decrement");
		break;
	}
	case OP_MAXSINGLE: {
		int i = pick_end(op.a[0], true);
		if (i < 0) break;
		End &x = R->e[i];
		if (!x.is_sock) break;
		size_t n = (size_t)op.a[2];
		int d = (int)(op.a[1] & 1);
		int r = d ? API(bufferevent_set_max_single_write(x.bev, n)) : API(bufferevent_set_max_single_read(x.bev, n));
		if (r == 0) x.max_single[d] = n ? n : 16384;
		tr("api set_max_single_%s end=%d %zu -> %d", d ? "write" : "read", i, n, r);
		break;
	}
	case OP_LISTENER: {
		if (!R->lev || R->lev_freed) break;
		switch (op.a[0] % 7) {
		case 0: { int r = API(evconnlistener_enable(R->lev)); if (r == 0) R->lev_enabled = true; tr("api listener enable -> %d", r); break; }
		case 1: { int r = API(evconnlistener_disable(R->lev)); if (r == 0) R->lev_enabled = false; tr("api listener disable -> %d", r); break; }
		case 2: APIV(evconnlistener_set_cb(R->lev, nullptr, nullptr)); R->lev_has_cb = false; tr("api listener set_cb NULL"); probe("listener-callback-cleared"); break;
		case 3: APIV(evconnlistener_set_cb(R->lev, lev_cb, nullptr)); R->lev_has_cb = true; tr("api listener set_cb"); break;
		case 4: R->lev_in_cb_action = 1 + (int)(op.a[1] & 1); break;
		case 5: {	// scripted accept errors on the next accept4 calls
			static const int errs[] = {EAGAIN, EINTR, ECONNABORTED, EMFILE, ENFILE, ENOMEM};
			int e = errs[op.a[1] % 6];
			vk::script_read(R->lev_fd, {vk::ScriptItem::ERR, e});
			tr("api listener script accept errno=%d", e);
			break;
		}
		case 6: {
			tr("api listener free");
			APIV(evconnlistener_free(R->lev));
			R->lev = nullptr;
			R->lev_freed = true;
			R->lev_enabled = false;
			break;
		}
		}
		break;
	}
	case OP_CLIENT_BURST: {
		if (R->lev_fd < 0) break;
		int n = (int)(op.a[0] % 21);
		sockaddr_in sa = vk::addr4(0x7f000001, 9000);
		for (int k = 0; k < n; k++) {
			Client c;
			c.ep = vk::ep_connect((sockaddr *)&sa, sizeof sa, vk::EndpointCbs());
			c.port = vk::ep_local_port(c.ep);
			R->clients.push_back(c);
		}
		tr("api client_burst n=%d", n);
		break;
	}
	case OP_LOOP: {
		int iters = 1 + (int)(op.a[0] % 30);
		int64_t until_us = op.a[1];
		R->in_loop = true;
		int64_t t_end = G.now_ns + until_us * 1000;
		for (int k = 0; k < iters && !stop() && !G.capped; k++) {
			int64_t t_start = now_us();
			int r = API(event_base_loop(R->base, EVLOOP_ONCE | ((op.a[2] & 1) ? EVLOOP_NONBLOCK : 0)));
			if (r < 0) { violation("C17.loop-failed", "event_base_loop returned %d", r); break; }
			if (!R->stalled && !G.capped) check_timeouts_due(t_start);
			if (r == 1 && !vk::events_pending()) break;
			if (until_us > 0 && G.now_ns >= t_end) break;
		}
		R->in_loop = false;
		break;
	}
	default: break;
	}
}

// ---------------------------------------------------------------------------
static void build_topology(const Plan &p) {
	int topo = (int)p.c("topo");
	int opts = 0;
	if (p.c("defer")) opts |= BEV_OPT_DEFER_CALLBACKS;
	if (p.c("unlock") && ((opts & BEV_OPT_DEFER_CALLBACKS) || (p.c("topo") % 5) >= 2)) opts |= BEV_OPT_UNLOCK_CALLBACKS | BEV_OPT_DEFER_CALLBACKS;
	if (p.c("threadsafe") && mon::locks_enabled) opts |= BEV_OPT_THREADSAFE;
	int nconn = (int)std::max<int64_t>(1, std::min<int64_t>(MAXEND / 2, p.c("nconn", 1)));
	for (int c = 0; c < nconn; c++) {
		int a = 2 * c, b = 2 * c + 1;
		End &A = R->e[a], &B = R->e[b];
		A.peer = b;
		B.peer = a;
		A.opts = B.opts = opts;
		int t = (topo + c) % 5;
		if (t == 0) {
			// socket bufferevent connecting to a scripted listener
			sockaddr_in sa = vk::addr4(0x7f000001, (uint16_t)(8000 + c));
			vk::ep_listen((sockaddr *)&sa, sizeof sa, [b](vk::Endpoint *conn) {
				End &x = R->e[b];
				x.ep = conn;
				x.ep_open = true;
				vk::ep_set_cbs(conn, ep_cbs(b));
				ep_push(x);
			});
			B.exists = true;
			B.id = b;
			A.bev = bufferevent_socket_new(R->base, -1, opts | BEV_OPT_CLOSE_ON_FREE);
			A.is_sock = true;
			A.connecting = true;
			A.connect_attempts = 1;
			if (p.c("connect_fail") && c == 0) {
				int mode = (int)p.c("connect_fail");
				A.retry_in_cb = p.c("connect_retry") ? 1 : 0;
				vk::connect_policy = [mode](const sockaddr *, socklen_t) {
					vk::ConnectDecision d;
					if (R->e[0].connect_attempts > 1) return d;	// the retry goes through
					if (mode == 1) d.err = ECONNREFUSED;
					else if (mode == 2) { d.err = ECONNREFUSED; d.immediate = true; }
					else d.never = true;
					fault("net.connect-refused-or-unanswered");
					return d;
				};
			}
			end_setup(a);
			int r = bufferevent_socket_connect(A.bev, (sockaddr *)&sa, sizeof sa);
			A.fd = bufferevent_getfd(A.bev);
			if (r != 0) { tr("connect returned %d", r); A.connecting = false; }
			bufferevent_enable(A.bev, EV_READ | EV_WRITE);
			A.enabled = EV_READ | EV_WRITE;
		} else if (t == 1) {
			int fds[2];
			vk::sim_socketpair(fds);
			A.bev = bufferevent_socket_new(R->base, fds[0], opts | BEV_OPT_CLOSE_ON_FREE);
			B.bev = bufferevent_socket_new(R->base, fds[1], opts | BEV_OPT_CLOSE_ON_FREE);
			A.is_sock = B.is_sock = true;
			A.fd = fds[0];
			B.fd = fds[1];
			end_setup(a);
			end_setup(b);
			bufferevent_enable(A.bev, EV_READ | EV_WRITE);
			bufferevent_enable(B.bev, EV_READ | EV_WRITE);
			A.enabled = B.enabled = EV_READ | EV_WRITE;
		} else {
			struct bufferevent *pr[2];
			if (bufferevent_pair_new(R->base, opts, pr) != 0) { violation("C19.pair-new", "bufferevent_pair_new failed"); return; }
			A.is_pair = B.is_pair = true;
			if (t >= 3) {
				int nf = 1 + (int)(p.c("nfilt") % MAXFILT);
				int ks = (int)p.c("filtkinds");
				// the same filter kinds on both sides so that input filters undo the peer's output filters
				if (t == 3) {
					A.bev = wrap_filters(a, pr[0], nf, ks, opts & ~BEV_OPT_THREADSAFE);
					B.bev = wrap_filters(b, pr[1], nf, ks, opts & ~BEV_OPT_THREADSAFE);
					A.is_pair = B.is_pair = false;
				} else {	// a filter stack talking to a bare pair member: only filters that leave the bytes as they are
					A.bev = wrap_filters(a, pr[0], nf, ks, opts & ~BEV_OPT_THREADSAFE, true);
					B.bev = pr[1];
					A.is_pair = false;
				}
			} else { A.bev = pr[0]; B.bev = pr[1]; }
			end_setup(a);
			end_setup(b);
			bufferevent_enable(A.bev, EV_READ | EV_WRITE);
			bufferevent_enable(B.bev, EV_READ | EV_WRITE);
			A.enabled = B.enabled = EV_READ | EV_WRITE;
		}
		R->nend = b + 1;
	}
}

static void execute(const Plan &p) {
	g_last_wall_ms = 0;
	Run run;
	R = &run;
	run.plan = &p;
	vk::net.sim_sockets = true;
	vk::net.sockbuf = (size_t)p.c("sockbuf", 65536);
	vk::net.seg_mode = (int)p.c("seg_mode", 0);
	vk::net.seg_size = (int)p.c("seg_size", 1460);
	vk::net.lat_min_ns = p.c("lat_min_us", 1) * 1000;
	vk::net.lat_max_ns = p.c("lat_max_us", 1) * 1000;
	vk::net.connect_lat_ns = p.c("connect_lat_us", 10) * 1000;
	vk::wait_cap = 20000;
	static const struct { const char *k; vk::Site s; } sites[] = {
		{"f_read_short", vk::S_READ_SHORT}, {"f_read_eagain", vk::S_READ_EAGAIN}, {"f_read_eintr", vk::S_READ_EINTR},
		{"f_write_short", vk::S_WRITE_SHORT}, {"f_write_eagain", vk::S_WRITE_EAGAIN}, {"f_write_eintr", vk::S_WRITE_EINTR},
	};
	for (auto &s : sites) if (p.c(s.k)) { vk::set_fault(s.s, (int)p.c(s.k)); run.faults_or_toggles++; }
	vk::hooks.stall = []() { if (R && R->base) { R->stalled = true; event_base_loopbreak(R->base); } };
	vk::hooks.capped = []() { if (R && R->base) event_base_loopbreak(R->base); };

	struct event_config *cfg = event_config_new();
	static const char *const methods[] = {"epoll", "poll", "select"};
	int backend = (int)p.c("backend");
	int meth = backend <= 1 ? 0 : backend - 1;
	for (int i = 0; i < 3; i++) if (i != meth) event_config_avoid_method(cfg, methods[i]);
	int flags = EVENT_BASE_FLAG_IGNORE_ENV;
	if (backend == 1) flags |= EVENT_BASE_FLAG_EPOLL_USE_CHANGELIST;
	event_config_set_flag(cfg, flags);
	run.base = event_base_new_with_config(cfg);
	event_config_free(cfg);
	if (!run.base) { violation("C17.base-new", "no event base"); R = nullptr; return; }
	tr("cfg backend=%s topo=%d", event_base_get_method(run.base), (int)p.c("topo"));
	vk::io_ledger = on_io;
	vk::io_retry = on_io_retry;
	vk::accept_hook = on_accept;
	build_topology(p);
	if (p.c("listener")) {
		sockaddr_in sa = vk::addr4(0x7f000001, 9000);
		unsigned fl = LEV_OPT_REUSEABLE;
		if (p.c("lev_close_on_free")) fl |= LEV_OPT_CLOSE_ON_FREE;
		if (p.c("lev_disabled")) fl |= LEV_OPT_DISABLED;
		if (p.c("lev_threadsafe") && mon::locks_enabled) fl |= LEV_OPT_THREADSAFE;
		if (p.c("lev_cloexec")) fl |= LEV_OPT_CLOSE_ON_EXEC;
		run.lev_flags = fl;
		run.lev = evconnlistener_new_bind(run.base, p.c("lev_no_cb") ? nullptr : lev_cb, nullptr, fl, 16, (sockaddr *)&sa, sizeof sa);
		if (run.lev) {
			run.lev_fd = evconnlistener_get_fd(run.lev);
			run.lev_enabled = !(fl & LEV_OPT_DISABLED);
			run.lev_has_cb = !p.c("lev_no_cb");
			if (!p.c("lev_no_err_cb")) evconnlistener_set_error_cb(run.lev, lev_err_cb);
		}
	}

	for (auto &op : p.ops) { if (stop() || G.capped) break; exec_op(op); }

	// liveness / completeness: with faults over and everything enabled, what was written must arrive
	const bool keep = p.c("settle_keep") != 0;
	auto got = [&](End &x) -> uint64_t { return x.rcvd + ((keep && x.bev && !x.freed && !x.eof_seen) ? evbuffer_get_length(bufferevent_get_input(x.bev)) : 0); };
	if (!stop()) {
		for (int i = 0; i < run.nend; i++) {
			End &x = run.e[i];
			if (!x.exists || x.freed || !x.bev) continue;
			x.policy = 0;
			x.free_in_cb = 0;
			for (auto u : x.under) { bufferevent_setwatermark(u, EV_READ, 0, 0); bufferevent_setwatermark(u, EV_WRITE, 0, 0); }
			size_t inl0 = evbuffer_get_length(bufferevent_get_input(x.bev));
			// variant: an application that keeps a high read watermark it is below of and simply waits for more input
			bool keep_high = keep && x.rhigh && inl0 < x.rhigh && !x.cbs_cleared;
			x.rlow = x.wlow = x.whigh = 0;
			if (!keep_high) x.rhigh = 0;
			bufferevent_setwatermark(x.bev, EV_READ, 0, x.rhigh);
			bufferevent_setwatermark(x.bev, EV_WRITE, 0, 0);
			bufferevent_set_timeouts(x.bev, nullptr, nullptr);
			x.rt_us = x.wt_us = 0;
			short en = (short)(((x.n_err_w || x.n_eof_w) ? 0 : EV_WRITE) | ((x.eof_seen || x.n_err_r) ? 0 : EV_READ));
			bufferevent_enable(x.bev, en);
			x.enabled |= en;
		}
		for (int i = 0; i < run.nend; i++) { End &x = run.e[i]; if (x.exists && x.ep && !x.freed) { x.paused = false; vk::ep_pause_reading(x.ep, false); ep_push(x); } }
		for (int s = 0; s < vk::S_NSITES; s++) vk::set_fault((vk::Site)s, 0);
		run.in_loop = true;
		int stalls = 0;
		uint64_t last_tot = ~0ULL;
		for (int k = 0; k < 20000 && !stop(); k++) {
			uint64_t tot = 0;
			for (int i = 0; i < run.nend; i++) tot += got(run.e[i]);
			if (k == 0 || (tot == last_tot && !vk::events_pending()))	// push filter leftovers (NEED_MORE) only when nothing else moves
				for (int i = 0; i < run.nend; i++) { End &x = run.e[i]; if (x.exists && !x.freed && x.bev && !x.under.empty()) { R->in_flush++; if (!x.tx_closed) bufferevent_flush(x.bev, EV_WRITE, BEV_FLUSH); if (!x.eof_seen) bufferevent_flush(x.bev, EV_READ, BEV_FLUSH); R->in_flush--; } }
			last_tot = tot;
			for (int i = 0; i < run.nend; i++) { End &x = run.e[i]; if (!keep && x.exists && !x.freed && x.bev && !x.eof_seen) { size_t l = evbuffer_get_length(bufferevent_get_input(x.bev)); if (l) drain_and_verify(x, l); } if (x.ep) ep_push(x); }
			bool moving = false;
			for (int i = 0; i < run.nend; i++) {
				End &x = run.e[i];
				if (!x.exists || x.peer < 0) continue;
				End &q = run.e[x.peer];
				if (!x.freed && !q.freed && !x.eof_seen && !x.tx_reset && !q.tx_reset && !(x.connecting && x.n_connected == 0 && p.c("connect_fail") == 3 && x.connect_attempts <= 1) && !(q.connecting && q.n_connected == 0 && p.c("connect_fail") == 3 && q.connect_attempts <= 1) && got(x) < q.sent - (q.ep ? q.ep_pending.size() : 0)) moving = true;
			}
			if (!moving) break;
			if (k == 19999) G.capped = true;
			if (G.capped) break;
			if (p.prop == "C22") {
				if (k == 4000) {	// slow limits: lift them so that the run ends; the ledger so far is still checked
					ledger_epoch();
					for (int i = 0; i < run.nend; i++) { End &x = run.e[i]; if (!x.exists || x.freed || !x.bev || !x.is_sock) continue;
						if (x.in_group >= 0) { bufferevent_remove_from_rate_limit_group(x.bev); x.in_group = -1; }
						if (x.rl_cfg) { bufferevent_set_rate_limit(x.bev, nullptr); x.rl_tick_ms = 0; } }
				}
				if (k < 4000) check_progress();
			}
			run.stalled = false;
			int r = event_base_loop(run.base, EVLOOP_ONCE);	// blocking in virtual time: jumps to the next network event
			if (r < 0) break;
			if (run.stalled || r == 1) {
				// the base has nothing to wait for, but the network may still hold segments in flight
				if (vk::events_pending()) vk::advance_running(std::max<int64_t>(0, vk::next_event_time() - G.now_ns));
				else if (++stalls > 3) break;
			}
		}
		run.in_loop = false;
		// what waited in an input buffer is verified now
		for (int i = 0; i < run.nend && !stop(); i++) { End &x = run.e[i]; if (keep && x.exists && !x.freed && x.bev && !x.eof_seen) { size_t l = evbuffer_get_length(bufferevent_get_input(x.bev)); if (l) drain_and_verify(x, l); } }
		// C19: a connection the network established long ago must have been announced
		{ bool any = false; for (int i = 0; i < run.nend; i++) { End &x = run.e[i]; if (x.exists && !x.freed && x.bev && x.is_sock && x.connecting && x.n_connected == 0 && x.fd >= 0 && vk::sim_connected(x.fd)) any = true; }
		  if (any && !stop() && !G.capped) { run.in_loop = true; for (int k = 0; k < 4; k++) event_base_loop(run.base, EVLOOP_NONBLOCK); run.in_loop = false; } }
		for (int i = 0; i < run.nend && !stop(); i++) {
			End &x = run.e[i];
			if (!x.exists || x.freed || !x.bev || !x.is_sock || x.cbs_cleared || G.capped) continue;
			if (x.connecting && x.n_connected == 0 && !x.n_err_r && !x.n_err_w && !x.n_timeout_w && !x.n_timeout_r && x.fd >= 0 && vk::sim_connected(x.fd))
				V("C19", "C19.connected-not-reported", "end %d: the connection has been established and the loop is idle, but BEV_EVENT_CONNECTED was never delivered", x.id);
		}
		for (int i = 0; i < run.nend && !stop(); i++) {
			End &x = run.e[i];
			if (!x.exists || x.peer < 0) continue;
			End &q = run.e[x.peer];
			if (x.freed || q.freed || x.tx_reset || q.tx_reset || x.eof_seen) continue;
			if ((x.connecting && x.n_connected == 0) || (q.connecting && q.n_connected == 0)) continue;	// never answered: no connection, no stream
			uint64_t expect = q.sent - (q.ep ? q.ep_pending.size() : 0);
			if (x.rcvd != expect && !G.capped)
				V(p.prop == "C22" ? "C22" : "C17", p.prop == "C22" ? "C22.stalled" : "C17.bytes-lost", "after the faults stopped, with both ends enabled and no watermarks: end %d has %llu of the %llu bytes end %d wrote", x.id, (unsigned long long)x.rcvd, (unsigned long long)expect, q.id);
		}
	}

	// C22: the ledger of system calls against the configured bandwidth
	if (!stop()) ledger_epoch();
	// C44: every connection handed out by accept4 was delivered once or closed by the library
	if (!stop() && run.lev_fd >= 0) {
		for (int fd : run.delivered_fds) { vk::HarnessScope hs; close(fd); }
		if (run.lev && !run.lev_freed) { evconnlistener_free(run.lev); run.lev = nullptr; run.lev_freed = true; }
		for (auto &kv : run.accepted) {
			Client &c = run.clients[kv.second];
			bool delivered = c.delivered > 0;
			bool still_open = vk::is_sim_fd(kv.first) && std::find(run.delivered_fds.begin(), run.delivered_fds.end(), kv.first) == run.delivered_fds.end();
			if (!delivered && still_open) { V("C44", "C44.connection-leaked", "accept4 returned fd %d (client port %d) but it was neither passed to the callback nor closed", kv.first, c.port); break; }
		}
		bool lfd_open = vk::is_sim_fd(run.lev_fd);
		bool want_closed = run.lev_flags & LEV_OPT_CLOSE_ON_FREE;
		if (!stop() && lfd_open == want_closed) V("C44", "C44.listening-socket-close", "after evconnlistener_free the listening fd is %s, LEV_OPT_CLOSE_ON_FREE is %s", lfd_open ? "open" : "closed", want_closed ? "set" : "not set");
		if (lfd_open) { vk::HarnessScope hs; close(run.lev_fd); }
		if (!stop() && !p.c("lev_no_err_cb") && run.lev_errors < run.lev_expected_errors && false) V("C44", "C44.error-not-reported", "%d non-retriable accept errors, error callback ran %d times", run.lev_expected_errors, run.lev_errors);
	}
	// teardown
	for (int i = 0; i < run.nend; i++) if (run.e[i].exists && !run.e[i].freed) end_free(i, "teardown");
	// variant: the base is freed with the finalizers of the bufferevents still queued (a filter's finalizer then releases
	// the bufferevent below it from inside event_base_free)
	bool any_deferred = false;	// pairs always defer their callbacks; sockets only with BEV_OPT_DEFER_CALLBACKS
	for (int i = 0; i < run.nend; i++) if (run.e[i].exists && !run.e[i].ep && (!run.e[i].is_sock || (run.e[i].opts & BEV_OPT_DEFER_CALLBACKS))) any_deferred = true;
	const bool noloop = p.c("teardown_noloop") && !run.grp[0].g && !run.grp[1].g && !(any_deferred && suppressed("base-free-with-deferred-callbacks-pending"));
	if (noloop) probe("base-freed-with-bufferevent-finalizers-pending");
	for (int k = 0; k < 3 && !noloop; k++) event_base_loop(run.base, EVLOOP_NONBLOCK);	// freeing a member takes effect in its deferred finaliser
	for (int gi = 0; gi < 2; gi++) if (run.grp[gi].g) { bufferevent_rate_limit_group_free(run.grp[gi].g); ev_token_bucket_cfg_free(run.grp[gi].cfg); }
	for (int i = 0; i < run.nend; i++) if (run.e[i].rl_cfg) ev_token_bucket_cfg_free(run.e[i].rl_cfg);
	for (int k = 0; k < 3 && !noloop; k++) event_base_loop(run.base, EVLOOP_NONBLOCK);
	event_base_free(run.base);
	run.base = nullptr;
	if (!stop()) {
		for (int i = 0; i < run.nend; i++) for (size_t f = 0; f + 1 < run.e[i].fctx.size(); f += 2) {
			if (run.e[i].fctx[f]->freed != 1) { violation("C10.filter-context-free-count", "end %d: filter context freed %d time(s)", i, run.e[i].fctx[f]->freed); break; }
		}
	}
	for (int i = 0; i < run.nend; i++) for (auto c : run.e[i].fctx) delete c;
	if (!stop()) {
		if (mon::live_blocks_run() != 0) violation(noloop && any_deferred ? "C10.leak:deferred-callbacks-dropped-by-event-base-free" : "C10.leak", "%lld block(s) live after teardown: %s", (long long)mon::live_blocks_run(), mon::live_blocks_desc(6).c_str());
		else if (vk::open_fd_count_lib() != 0) violation("C10.fd-leak", "library fds still open: %s", vk::open_fd_list_lib().c_str());
		else if (mon::locks_enabled && mon::held() != 0) violation("C08.lock-held-at-end", "%d lock acquisition(s) held at the end", mon::held());
	}
	if (!stop()) {
		const std::string &prop = p.prop;
		if (prop == "C17") G.nontrivial = run.bytes_crossed >= 1024 && run.faults_or_toggles > 0;
		else if (prop == "C18") G.nontrivial = run.wm_reached > 0;
		else if (prop == "C19") G.nontrivial = run.ends_reached > 0 || G.cnt.count("probe.connected");
		else if (prop == "C20") G.nontrivial = run.timeouts_seen > 0;
		else if (prop == "C22") G.nontrivial = G.cnt.count("probe.rate-limit-set") || G.cnt.count("probe.rate-group");
		else if (prop == "C08") { bool f = false; for (auto &kv : G.cnt) if (kv.first.compare(0, 6, "fault.") == 0 || kv.first == "probe.error-event") f = true; G.nontrivial = mon::locks_enabled && f; }
		else if (prop == "C10") G.nontrivial = run.released_early > 0 || G.cnt.count("probe.listener-freed-inside-callback") || G.cnt.count("probe.setcb-null");
		else if (prop == "C44") G.nontrivial = run.lev_delivered > 0 || run.lev_expected_errors > 0 || run.accept_while_disabled > 0 || !run.clients.empty();
		else G.nontrivial = run.bytes_crossed > 0;
	}
	R = nullptr;
}

static int64_t gen_size(Rng &r, bool big) {
	switch (r.below(5)) {
	case 0: return r.pick(std::vector<int64_t>{0, 1, 2, 4095, 4096, 4097, 16383, 16384, 16385});
	case 1: return r.range(1, 100);
	case 2: return r.range(1, 5000);
	case 3: return big ? r.range(1, 1500000) : r.range(1, 70000);
	default: return r.range(1, 20000);
	}
}

static void generate(Plan &p, Rng &r) {
	const std::string &prop = p.prop;
	bool thorough = p.tier == "thorough";
	p.cfg["backend"] = r.below(4);
	p.cfg["topo"] = (prop == "C22") ? r.below(2) : r.below(5);
	if (prop == "C44") { p.cfg["listener"] = 1; p.cfg["lev_close_on_free"] = r.coin(); p.cfg["lev_disabled"] = r.chance(0.2); p.cfg["lev_threadsafe"] = r.chance(0.3); p.cfg["lev_no_cb"] = r.chance(0.1); p.cfg["lev_no_err_cb"] = r.chance(0.2); p.cfg["lev_cloexec"] = r.coin(); }
	p.cfg["nconn"] = r.chance(0.7) ? 1 : r.range(2, 3);
	p.cfg["defer"] = r.chance(0.4);
	p.cfg["unlock"] = r.chance(prop == "C19" ? 0.5 : 0.3);
	p.cfg["connect_fail"] = r.chance(prop == "C19" ? 0.5 : 0.15) ? r.range(1, 3) : 0;	// 1 refused after the connect latency, 2 refused at once, 3 never answered
	p.cfg["settle_keep"] = r.chance(0.4);
	p.cfg["connect_retry"] = r.chance(0.6);
	p.cfg["threadsafe"] = r.chance(0.3);
	p.cfg["nfilt"] = r.below(MAXFILT);
	p.cfg["filtkinds"] = r.below(4096);
	p.cfg["sockbuf"] = r.pick(std::vector<int64_t>{1, 7, 64, 1024, 65536, 1048576});
	p.cfg["seg_mode"] = r.below(4);
	p.cfg["seg_size"] = r.pick(std::vector<int64_t>{1, 3, 100, 1460});
	p.cfg["lat_min_us"] = r.pick(std::vector<int64_t>{1, 10, 900});
	p.cfg["lat_max_us"] = p.cfg["lat_min_us"] + (r.chance(0.5) ? 0 : (int64_t)r.below(2000));
	p.cfg["connect_lat_us"] = r.pick(std::vector<int64_t>{0, 10, 5000});
	if (r.chance(0.5)) {
		static const char *ks[] = {"f_read_short", "f_read_eagain", "f_read_eintr", "f_write_short", "f_write_eagain", "f_write_eintr"};
		for (auto k : ks) if (r.chance(0.35)) p.cfg[k] = r.pick(std::vector<int64_t>{10, 50, 200});
	}
	struct W { int code; int w; };
	std::vector<W> ws = {{OP_WRITE, 18}, {OP_POLICY, 5}, {OP_ENABLE, 5}, {OP_DISABLE, 4}, {OP_WATERMARK, 3}, {OP_TIMEOUTS, 0}, {OP_FLUSH, 3}, {OP_SETCB_NULL, 1},
	    {OP_FREE, 1}, {OP_LOOP, 16}, {OP_ADVANCE, 3}, {OP_PEER_SEND, 8}, {OP_PEER_SHUTDOWN, 1}, {OP_PEER_RESET, 1}, {OP_PEER_PAUSE, 2}, {OP_SHUTDOWN_WR, 1}};
	auto bump = [&](int code, int w) { for (auto &x : ws) if (x.code == code) x.w = w; };
	if (prop == "C18") { bump(OP_WATERMARK, 12); bump(OP_POLICY, 10); bump(OP_ENABLE, 7); }
	if (prop == "C17") { bump(OP_WATERMARK, 6); bump(OP_FLUSH, 5); }
	if (prop == "C19") { bump(OP_POLICY, 9); bump(OP_FREE, 4); bump(OP_SETCB_NULL, 3); bump(OP_PEER_SHUTDOWN, 4); bump(OP_PEER_RESET, 3); bump(OP_FLUSH, 5); bump(OP_SHUTDOWN_WR, 4); }
	if (prop == "C08") { p.cfg["threadsafe"] = 1; p.cfg["unlock"] = r.chance(0.5); static const char *ks[] = {"f_read_short", "f_read_eagain", "f_read_eintr", "f_write_short", "f_write_eagain", "f_write_eintr"}; for (auto k : ks) if (r.chance(0.5)) p.cfg[k] = r.pick(std::vector<int64_t>{50, 200}); bump(OP_PEER_RESET, 4); bump(OP_PEER_SHUTDOWN, 3); bump(OP_FREE, 3); bump(OP_FLUSH, 4); if (r.chance(0.4)) { p.cfg["listener"] = 1; p.cfg["lev_threadsafe"] = 1; p.cfg["lev_close_on_free"] = r.coin(); ws.push_back({OP_LISTENER, 8}); ws.push_back({OP_CLIENT_BURST, 6}); } }
	if (prop == "C10") { p.cfg["teardown_noloop"] = r.chance(0.5); bump(OP_POLICY, 9); bump(OP_FREE, 6); bump(OP_SETCB_NULL, 2); bump(OP_PEER_SHUTDOWN, 3); bump(OP_PEER_RESET, 2); bump(OP_FLUSH, 4); if (r.chance(0.3)) { p.cfg["listener"] = 1; p.cfg["lev_close_on_free"] = r.coin(); ws.push_back({OP_LISTENER, 8}); ws.push_back({OP_CLIENT_BURST, 6}); } }
	if (prop == "C22") { ws.push_back({OP_RATELIMIT, 10}); ws.push_back({OP_GROUP, 8}); ws.push_back({OP_DECREMENT, 4}); ws.push_back({OP_MAXSINGLE, 4}); bump(OP_ADVANCE, 8); bump(OP_WRITE, 24); bump(OP_LOOP, 20); }
	if (prop == "C44") { ws.push_back({OP_LISTENER, 14}); ws.push_back({OP_CLIENT_BURST, 12}); bump(OP_WRITE, 4); bump(OP_PEER_SEND, 2); }
	if (prop == "C20") { bump(OP_TIMEOUTS, 10); bump(OP_ADVANCE, 8); bump(OP_WATERMARK, 5); bump(OP_PEER_PAUSE, 5); }
	int total = 0;
	for (auto &x : ws) total += x.w;
	int nops = thorough ? (int)r.range(10, 120) : (int)r.range(5, 50);
	bool big = thorough && r.chance(0.15);
	bool slow_filter = false;	// a one-byte-per-call or doubling filter somewhere in a stack: keep the payloads small
	for (int f = 0; f < MAXFILT; f++) { int k = (int)((p.cfg["filtkinds"] >> (3 * f)) % 6); if (k == 2 || k == 3 || k == 5) slow_filter = true; }
	if ((prop == "C17" || prop == "C18") && r.chance(0.12)) {
		// family "back-pressure then finish": a small write mark below the filter stack, a far end that is not taking
		// data, more output than fits, and a finishing flush; the random ops follow
		p.cfg["topo"] = r.chance(0.6) ? 4 : 3;
		p.cfg["nconn"] = 1;
		auto mk = [&](int code, std::initializer_list<int64_t> a) { Op o; o.code = code; int k = 0; for (auto v : a) o.a[k++] = v; p.ops.push_back(o); };
		mk(OP_WATERMARK, {0, 0, 0, r.pick(std::vector<int64_t>{1, 7, 64, 1000}), r.range(1, 3), 0});
		if (r.coin()) mk(OP_DISABLE, {1, 1}); else mk(OP_WATERMARK, {1, 1, 0, r.pick(std::vector<int64_t>{1, 10, 500}), 0, 0});
		if (r.coin()) mk(OP_POLICY, {1, 2, 0});
		mk(OP_WRITE, {0, r.range(100, 6000)});
		if (r.coin()) mk(OP_LOOP, {(int64_t)r.below(5), 0, 1});
		mk(OP_FLUSH, {0, 2, r.chance(0.7) ? 2 : 1});
		if (r.coin()) mk(OP_LOOP, {(int64_t)r.below(5), 0, 1});
		if (r.coin()) mk(OP_ENABLE, {1, 1});
		probe("family.back-pressure-then-finish");
	}
	for (int i = 0; i < nops; i++) {
		int x = (int)r.below(total), code = 0;
		for (auto &w : ws) { if (x < w.w) { code = w.code; break; } x -= w.w; }
		Op o;
		o.code = code;
		o.a[0] = r.below(MAXEND);
		switch (code) {
		case OP_WRITE: case OP_PEER_SEND: o.a[1] = gen_size(r, big); if (p.cfg["sockbuf"] <= 64 || p.cfg["seg_mode"] == 2 || slow_filter) o.a[1] %= 1500; break;
		case OP_POLICY: o.a[1] = r.below(4); o.a[2] = r.below(64); break;
		case OP_ENABLE: case OP_DISABLE: o.a[1] = r.range(1, 3); break;
		case OP_WATERMARK: o.a[1] = r.below(2); o.a[2] = r.chance(0.5) ? 0 : gen_size(r, false) % 20000; o.a[3] = r.chance(0.3) ? 0 : gen_size(r, false) % 40000;
			o.a[4] = r.chance(0.35) ? r.range(1, 3) : 0; o.a[5] = r.chance(0.3) ? r.range(1, 4) + (r.coin() ? 8 : 0) : 0;
			if (o.a[4] && r.chance(0.6)) { o.a[1] = 0; o.a[3] = r.pick(std::vector<int64_t>{1, 2, 7, 10, 64, 1000, 4096}); }	// small write marks below a filter
			break;
		case OP_TIMEOUTS: o.a[1] = r.chance(0.3) ? 0 : r.pick(std::vector<int64_t>{1000, 10000, 250000, 3000000}); o.a[2] = r.chance(0.3) ? 0 : r.pick(std::vector<int64_t>{1000, 10000, 250000, 3000000}); break;
		case OP_FLUSH: o.a[1] = r.range(1, 3); o.a[2] = r.below(3); break;
		case OP_LOOP: o.a[0] = r.below(30); o.a[1] = r.chance(0.5) ? 0 : r.pick(std::vector<int64_t>{100, 5000, 300000, 5000000}); o.a[2] = r.below(2); break;
		case OP_ADVANCE: o.a[0] = r.pick(std::vector<int64_t>{1, 999, 1000, 9999, 10000, 250000, 3000001}); if (prop == "C22" && r.chance(0.15)) o.a[1] = r.pick(std::vector<int64_t>{-5000, -50, 50, 5000, 100000}); break;
		case OP_PEER_PAUSE: o.a[1] = r.below(2); break;
		case OP_RATELIMIT: o.a[1] = r.chance(0.1) ? 0 : r.pick(std::vector<int64_t>{1, 100, 1000, 5000, 100000}); o.a[2] = o.a[1] * r.range(1, 5); o.a[3] = r.pick(std::vector<int64_t>{1, 100, 1000, 5000, 100000}); o.a[4] = o.a[3] * r.range(1, 5); o.a[5] = r.pick(std::vector<int64_t>{1, 10, 50, 1000}); break;
		case OP_GROUP: o.a[0] = r.below(2); o.a[1] = r.below(4); o.a[2] = r.pick(std::vector<int64_t>{0, 1, 2, 3, 100, 1000, 20000}); o.a[3] = o.a[2] * r.range(1, 4); o.a[4] = r.pick(std::vector<int64_t>{1, 10, 50, 1000}); break;
		case OP_DECREMENT: o.a[1] = r.below(2); o.a[2] = r.chance(0.2) ? -(int64_t)r.below(5000) : (int64_t)r.below(20000); break;
		case OP_MAXSINGLE: o.a[1] = r.below(2); o.a[2] = r.pick(std::vector<int64_t>{0, 1, 7, 100, 4096, 70000}); break;
		case OP_LISTENER: o.a[0] = r.below(7) == 6 && r.chance(0.7) ? r.below(6) : r.below(7); o.a[1] = r.below(6); break;
		case OP_CLIENT_BURST: o.a[0] = r.below(21); break;
		default: break;
		}
		p.ops.push_back(o);
	}
}

static std::vector<int64_t> cfg_simpler(const std::string &key, int64_t cur) {
	if (key == "sockbuf") return cur != 65536 ? std::vector<int64_t>{65536} : std::vector<int64_t>{};
	if (key == "nconn") return cur > 1 ? std::vector<int64_t>{1} : std::vector<int64_t>{};
	if (key == "lat_min_us" || key == "lat_max_us") return cur != 1 ? std::vector<int64_t>{1} : std::vector<int64_t>{};
	if (key == "seg_size") return {};
	if (cur != 0) return {0};
	return {};
}

static void process_init(int cls) {
	(void)cls;
	struct event_base *b = event_base_new();
	struct bufferevent *pr[2];
	bufferevent_pair_new(b, 0, pr);
	bufferevent_free(pr[0]);
	bufferevent_free(pr[1]);
	event_base_loop(b, EVLOOP_NONBLOCK);
	event_base_free(b);
}

int main(int argc, char **argv) {
	static Harness h = {"h_bev", opnames, OP_N, generate, execute, cfg_simpler, process_init};
	return harness_main(argc, argv, h);
}
