// H1: event core harness — C01 (timers), C02 (event state machine), C03 (priorities and
// loop control), C45 (watchers); contributes lock balance (C08) and finalisation (C10) evidence.
// World R: real socketpairs and the real backends under the virtual clock.
#include <cerrno>
#include <cstring>
#include <deque>
#include <sys/socket.h>
#include <unistd.h>
#include <fcntl.h>
#include <signal.h>
#include <event2/event.h>
#include <event2/event_struct.h>
#include <event2/watch.h>
#include <event2/buffer.h>
#include "sim/sim.hpp"
#include "vk/vk.hpp"
#include "mon/mon.hpp"
#include "shim/shim.h"
#include "ref/evmodel.hpp"

using namespace sim;
using evm::usec_t;

extern "C" int __real_socketpair(int, int, int, int[2]);
extern "C" ssize_t __real_write(int, const void *, size_t);
extern "C" ssize_t __real_read(int, void *, size_t);
extern "C" int __real_close(int);

enum {
	OP_NEW, OP_ADD, OP_DEL, OP_ACTIVE, OP_ACTIVE_LATER, OP_REMOVE_TIMER, OP_PRIO, OP_FREE, OP_FINALIZE,
	OP_ONCE, OP_FD_WRITE, OP_FD_DRAIN, OP_ADVANCE, OP_LOOP, OP_BREAK, OP_EXIT, OP_CONTINUE,
	OP_WATCH_NEW, OP_WATCH_FREE, OP_PENDING, OP_COUNTS, OP_FOREACH, OP_UPDATE_CACHE, OP_DC_TRIGGER, OP_OVERSLEEP,
	OP_N
};
static const char *const opnames[OP_N] = {
	"new", "add", "del", "active", "active_later", "remove_timer", "priority_set", "free", "finalize",
	"once", "fd_write", "fd_drain", "advance", "loop", "loopbreak", "loopexit", "loopcontinue",
	"watch_new", "watch_free", "pending", "counts", "foreach", "update_cache_time", "deferred_trigger", "oversleep",
};

#define MAXSLOT 28
#define MAXFD 4
#define MAXW 6
#define MAXDC 48
#define WCTX 1000	// op.ctx >= WCTX: inside watcher slot (ctx - WCTX)

struct Slot {
	struct event *ev = nullptr;
	int midx = -1;
	bool fin_requested = false, fin_ran = false, free_fin = false;
	int fin_count = 0;
	int fin_chain = -1;	// slot whose event this slot's finalizer releases (event_free_finalize) when it runs during event_base_free
	std::deque<Op> incb;
};
struct WSlot {
	struct evwatch *w = nullptr;
	int kind = 0;
	std::deque<Op> incb;
	int runs_this_iter = 0;
};
struct DCSlot {
	struct evbuffer *buf = nullptr;
	int fired = 0;
};

struct Run {
	const Plan *plan;
	evm::Model m;
	struct event_base *base = nullptr;
	int backend = 0;	// 0 epoll 1 epoll+changelist 2 poll 3 select
	Slot slots[MAXSLOT];
	WSlot ws[MAXW];
	DCSlot dcs[MAXDC];
	int fds[MAXFD][2];
	int unread[MAXFD];
	int nfd = 0, nslot = 0, ndc = 0;
	const struct timeval *common_tv[4];
	usec_t common_dur[4];
	int ncommon = 0;
	bool in_loop = false;
	int loop_budget = 0, loop_iters = 0;
	bool teardown = false;
	int64_t oversleep_us = 0;
	std::vector<int> once_live;	// model idx of outstanding event_base_once events
	int ops_done = 0, queries = 0, transitions = 0, loopctl_effect = 0;
	bool readd_between = false;
	int watcher_iters = 0;
	usec_t last_prepare_tv = -2;
	bool have_prepare_tv = false;
};
static Run *R;
static bool abandoned() { return R && R->m.ambiguous; }
#define STOP() (stop() || abandoned())

static usec_t clock_us() { return G.now_ns / 1000; }
static int fd_ready(int k) { return (R->unread[k] > 0 ? evm::R_READ : 0) | evm::R_WRITE; }

static int to_model_res(short what) {
	int r = 0;
	if (what & EV_TIMEOUT) r |= evm::R_TIMEOUT;
	if (what & EV_READ) r |= evm::R_READ;
	if (what & EV_WRITE) r |= evm::R_WRITE;
	if (what & EV_SIGNAL) r |= evm::R_SIGNAL;
	if (what & EV_FINALIZE) r |= evm::R_FINALIZE;
	if (what & EV_CLOSED) r |= evm::R_CLOSED;
	if (what & EV_PERSIST) r |= evm::R_PERSIST;
	if (what & EV_ET) r |= evm::R_ET;
	return r;
}
static short to_real(int r) {
	short w = 0;
	if (r & evm::R_TIMEOUT) w |= EV_TIMEOUT;
	if (r & evm::R_READ) w |= EV_READ;
	if (r & evm::R_WRITE) w |= EV_WRITE;
	if (r & evm::R_SIGNAL) w |= EV_SIGNAL;
	if (r & evm::R_PERSIST) w |= EV_PERSIST;
	if (r & evm::R_FINALIZE) w |= EV_FINALIZE;
	if (r & evm::R_CLOSED) w |= EV_CLOSED;
	return w;
}

static std::string exp_str(const evm::Exp &e) {
	char b[256];
	switch (e.k) {
	case evm::Exp::NONE: return "nothing";
	case evm::Exp::PREPARE: snprintf(b, sizeof b, "prepare-watcher w%d (timeout %lld us)", e.w, (long long)e.tv); return b;
	case evm::Exp::WAIT: snprintf(b, sizeof b, "wait (timeout %lld us)", (long long)e.tv); return b;
	case evm::Exp::CHECK: snprintf(b, sizeof b, "check-watcher w%d", e.w); return b;
	case evm::Exp::RET: snprintf(b, sizeof b, "loop return %d", e.rv); return b;
	case evm::Exp::CB: {
		std::string s = "callback of one of {";
		for (auto &q : e.cands) {
			if (q.kind == 1) snprintf(b, sizeof b, " deferred%d", q.idx);
			else snprintf(b, sizeof b, " ev%d(res=0x%x,pri=%d)", q.idx, R->m.evs[q.idx].res, R->m.evs[q.idx].pri);
			s += b;
		}
		return s + " }";
	}
	}
	return "?";
}

// Decide which property a sequence mismatch belongs to.
static void mismatch(const char *observed, bool obs_timer, bool obs_watcher) {
	const evm::Exp &e = R->m.exp;
	bool exp_timer = false;
	if (e.k == evm::Exp::CB) for (auto &q : e.cands) if (q.kind == 0 && (R->m.evs[q.idx].res & evm::R_TIMEOUT)) exp_timer = true;
	const char *rule;
	if (obs_watcher || e.k == evm::Exp::PREPARE || e.k == evm::Exp::CHECK) rule = "C45.watcher-sequence";
	else if (obs_timer && e.k != evm::Exp::CB) rule = "C01.early-or-unexpected-timeout";
	else if (exp_timer && !obs_timer) rule = "C01.late-or-missing-timeout";
	else if (exp_timer || obs_timer) rule = "C01.timer-order";
	else if (e.k == evm::Exp::RET) rule = "C03.loop-end";
	else rule = "C03.callback-order";
	violation(rule, "model expects %s; library did: %s", exp_str(e).c_str(), observed);
}

// ---------------------------------------------------------------------------
static void exec_op(const Op &op, bool incb);
static void check_slot(int s, const char *after);
static void check_counts(const char *after);

static void run_incb(std::deque<Op> &q) {
	// all ops queued for this callback invocation run now
	std::deque<Op> ops;
	ops.swap(q);
	for (auto &op : ops) { if (stop()) break; exec_op(op, true); }
}

static void observe_cb(evm::QE q, short what, std::deque<Op> *incb) {
	evm::Model &m = R->m;
	char ob[128];
	snprintf(ob, sizeof ob, "callback %s%d what=0x%x", q.kind ? "deferred" : "ev", q.idx, what);
	tr("cb %s", ob);
	if (STOP()) return;
	while (m.exp.k != evm::Exp::CB && m.skip_optional_watcher()) {}
	bool ok = m.exp.k == evm::Exp::CB;
	if (ok) {
		ok = false;
		for (auto &c : m.exp.cands) if (c.kind == q.kind && c.idx == q.idx) ok = true;
	}
	if (!ok) { mismatch(ob, (what & EV_TIMEOUT) != 0, false); return; }
	if (m.exp.cands.size() > 1) probe("tie-group");
	int res = m.callback_enter(q);
	if (q.kind == 0 && to_model_res(what) != res)
		violation("C02.callback-flags", "ev%d called with what=0x%x, model says 0x%x", q.idx, what, to_real(res));
	if (incb) run_incb(*incb);
	if (STOP()) return;
	m.callback_exit();
}

static void ev_cb(evutil_socket_t fd, short what, void *arg) {
	int s = (int)(intptr_t)arg;
	(void)fd;
	Slot &sl = R->slots[s];
	if (R->teardown) { violation("C10.callback-after-release", "ev%d callback during base teardown", s); return; }
	if (sl.fin_requested) { violation("C10.callback-after-finalize", "slot %d: ordinary callback after event_finalize", s); return; }
	observe_cb(evm::QE{0, sl.midx, 0}, what, &sl.incb);
}
static void once_cb(evutil_socket_t fd, short what, void *arg) {
	int midx = (int)(intptr_t)arg;
	(void)fd;
	if (R->teardown) { violation("C10.once-after-base-free", "event_base_once callback ran during base teardown"); return; }
	auto it = std::find(R->once_live.begin(), R->once_live.end(), midx);
	if (it == R->once_live.end()) { violation("C10.once-twice", "event_base_once callback %d ran again", midx); return; }
	R->once_live.erase(it);
	observe_cb(evm::QE{0, midx, 0}, what, nullptr);
}
static void fin_cb(struct event *ev, void *arg) {
	int s = (int)(intptr_t)arg;
	Slot &sl = R->slots[s];
	(void)ev;
	sl.fin_count++;
	if (sl.fin_count > 1) { violation("C10.finalizer-twice", "slot %d finalizer ran %d times", s, sl.fin_count); return; }
	sl.fin_ran = true;
	if (R->teardown) {
		tr("cb finalizer slot %d (teardown)", s);
		if (sl.free_fin) sl.ev = nullptr;
		// a finalizer that releases another object (as a filter bufferevent's finalizer releases the one below it)
		if (sl.fin_chain >= 0 && sl.fin_chain != s) {
			Slot &t = R->slots[sl.fin_chain];
			if (t.ev && !t.fin_requested) {
				tr("api finalize ev%d free=1 from the finalizer of slot %d", sl.fin_chain, s);
				t.fin_requested = true;
				t.free_fin = true;
				probe("finalizer-registered-from-finalizer-during-base-free");
				if (event_free_finalize(0, t.ev, fin_cb) != 0) violation("C10.finalize-result", "event_free_finalize from inside a finalizer returned an error");
			}
		}
		return;
	}
	observe_cb(evm::QE{0, sl.midx, 0}, EV_FINALIZE, &sl.incb);
	if (sl.free_fin) sl.ev = nullptr;
}
static void dc_cb(struct evbuffer *buf, const struct evbuffer_cb_info *info, void *arg) {
	int d = (int)(intptr_t)arg;
	(void)buf; (void)info;
	R->dcs[d].fired++;
	observe_cb(evm::QE{1, d, 0}, 0, nullptr);
}

static void watcher_common(int w, bool prepare, usec_t tv) {
	evm::Model &m = R->m;
	char ob[96];
	snprintf(ob, sizeof ob, "%s-watcher w%d", prepare ? "prepare" : "check", w);
	tr("cb %s tv=%lld", ob, (long long)tv);
	if (STOP()) return;
	while ((m.exp.k != (prepare ? evm::Exp::PREPARE : evm::Exp::CHECK) || m.exp.w != w) && m.skip_optional_watcher()) {}
	if (m.exp.k != (prepare ? evm::Exp::PREPARE : evm::Exp::CHECK) || m.exp.w != w) { mismatch(ob, false, true); return; }
	if (prepare) {
		if (tv != m.exp.tv) { violation("C45.prepare-timeout", "prepare watcher w%d reported timeout %lld us, loop will use %lld us", w, (long long)tv, (long long)m.exp.tv); return; }
		R->last_prepare_tv = tv;
		R->have_prepare_tv = true;
	}
	R->watcher_iters++;
	run_incb(R->ws[w].incb);
	if (STOP()) return;
	m.watcher_exit();
}
static void prepare_cb(struct evwatch *w, const struct evwatch_prepare_cb_info *info, void *arg) {
	(void)w;
	struct timeval tv;
	usec_t t = -1;
	if (evwatch_prepare_get_timeout(info, &tv)) t = (usec_t)tv.tv_sec * 1000000 + tv.tv_usec;
	watcher_common((int)(intptr_t)arg, true, t);
}
static void check_cb(struct evwatch *w, const struct evwatch_check_cb_info *info, void *arg) {
	(void)w; (void)info;
	watcher_common((int)(intptr_t)arg, false, 0);
}

// ---- wait hooks -------------------------------------------------------------
static void on_wait_enter(int kind, int64_t timeout_ns, int epfd) {
	(void)epfd;
	evm::Model &m = R->m;
	if (abandoned() && R->in_loop) { event_base_loopbreak(R->base); return; }
	if (stop() || !R->in_loop) return;
	while (m.exp.k != evm::Exp::WAIT && m.skip_optional_watcher()) {}
	if (m.exp.k != evm::Exp::WAIT) { char ob[64]; snprintf(ob, sizeof ob, "wait (timeout %lld ns)", (long long)timeout_ns); mismatch(ob, false, false); return; }
	// convert the model's timeout the way this backend does
	usec_t tv = m.exp.tv;
	int64_t want_ns;
	if (tv < 0) want_ns = -1;
	else if (kind == vk::W_POLL) {
		int64_t ms = (tv / 1000000) * 1000 + ((tv % 1000000) + 999) / 1000;
		if (tv / 1000000 > (INT64_MAX / 1000 - 1000) || ms > INT_MAX) ms = INT_MAX;
		want_ns = ms * 1000000;
	} else want_ns = tv * 1000;
	if (want_ns != timeout_ns) {
		violation("C01.wait-timeout", "backend waits %lld ns, next timer is due in %lld us (expected %lld ns)", (long long)timeout_ns, (long long)tv, (long long)want_ns);
		return;
	}
	if (R->have_prepare_tv && R->last_prepare_tv != tv)
		violation("C45.prepare-timeout", "prepare watchers were told %lld us but the wait uses %lld us", (long long)R->last_prepare_tv, (long long)tv);
	R->have_prepare_tv = false;
	R->loop_iters++;
	if (R->loop_iters > R->loop_budget && !m.ev_break) {
		tr("api loopbreak (iteration budget)");
		event_base_loopbreak(R->base);
		m.loopbreak();
	}
}
static void on_wait_exit(int n) {
	evm::Model &m = R->m;
	if (STOP() || !R->in_loop) return;
	if (R->oversleep_us > 0) { vk::advance(R->oversleep_us * 1000); R->oversleep_us = 0; fault("clock.oversleep"); }
	m.wait_done();
	if (n >= 0) m.io_activate();
	m.advance();
}
static void on_stall() {
	if (!R->in_loop) return;
	tr("api loopbreak (stall)");
	probe("stall-break");
	event_base_loopbreak(R->base);
	R->m.loopbreak();
}

// ---- state checks (C02) -------------------------------------------------------
static void check_slot(int s, const char *after) {
	Slot &sl = R->slots[s];
	evm::Model &m = R->m;
	if (!sl.ev || stop()) return;
	if (sl.fin_requested && (sl.free_fin || sl.fin_ran)) return;	// storage belongs to the library / event is torn down
	const evm::Ev &e = m.evs[sl.midx];
	static const short bits[5] = {EV_TIMEOUT, EV_READ, EV_WRITE, EV_SIGNAL, EV_CLOSED};
	static const int mbits[5] = {evm::R_TIMEOUT, evm::R_READ, evm::R_WRITE, evm::R_SIGNAL, evm::R_CLOSED};
	for (int mask = 1; mask < 32; mask++) {
		short rm = 0;
		int mm = 0;
		for (int b = 0; b < 5; b++) if (mask & (1 << b)) { rm |= bits[b]; mm |= mbits[b]; }
		struct timeval tv = {-7, -7};
		int got = API(event_pending(sl.ev, rm, &tv));
		usec_t exp_dl = -1;
		int want = m.pending(sl.midx, mm, &exp_dl);
		if (to_model_res((short)got) != want) {
			violation("C02.pending", "after %s: event_pending(ev%d, 0x%x) = 0x%x, model 0x%x", after, s, rm, got, to_real(want));
			return;
		}
		if ((want & evm::R_TIMEOUT) && e.timeout) {	// the expiry is only defined while a timeout is pending
			usec_t got_us = (usec_t)tv.tv_sec * 1000000 + tv.tv_usec - G.wall_off_ns / 1000;
			if (got_us != exp_dl) {
				violation("C01.pending-expiry", "after %s: ev%d reports expiry %lld us (monotonic), model deadline %lld us", after, s, (long long)got_us, (long long)exp_dl);
				return;
			}
		}
	}
	if (!event_initialized(sl.ev)) violation("C02.initialized", "after %s: event_initialized(ev%d) = 0", after, s);
	if (event_get_priority(sl.ev) != e.pri) violation("C02.priority", "after %s: ev%d priority %d, model %d", after, s, event_get_priority(sl.ev), e.pri);
	R->queries++;
}
static void check_counts(const char *after) {
	evm::Model &m = R->m;
	if (stop()) return;
	int a = API(event_base_get_num_events(R->base, EVENT_BASE_COUNT_ACTIVE));
	int d = API(event_base_get_num_events(R->base, EVENT_BASE_COUNT_ADDED));
	int v = API(event_base_get_num_events(R->base, EVENT_BASE_COUNT_VIRTUAL));
	int all = API(event_base_get_num_events(R->base, EVENT_BASE_COUNT_ACTIVE | EVENT_BASE_COUNT_ADDED | EVENT_BASE_COUNT_VIRTUAL));
	if (a != m.count_active || d != m.event_count || v != 0 || all != a + d + v)
		violation("C02.num-events", "after %s: active=%d added=%d virtual=%d all=%d; model active=%d added=%d", after, a, d, v, all, m.count_active, m.event_count);
}
static int foreach_cb(const struct event_base *, const struct event *ev, void *arg) {
	((std::vector<const struct event *> *)arg)->push_back(ev);
	return 0;
}
static void check_foreach() {
	evm::Model &m = R->m;
	std::vector<const struct event *> seen;
	API(event_base_foreach_event(R->base, foreach_cb, &seen));
	// every pool event that the model has inserted / timeout / active must be visited exactly once
	for (int s = 0; s < R->nslot; s++) {
		Slot &sl = R->slots[s];
		if (!sl.ev) continue;
		const evm::Ev &e = m.evs[sl.midx];
		if (sl.fin_ran) continue;
		bool want = e.inserted || e.timeout || e.act != evm::A_NONE;
		int n = (int)std::count(seen.begin(), seen.end(), (const struct event *)sl.ev);
		// events parked in the active-later queue (internal API only) are not promised to be visited
		if (e.act == evm::A_LATER && !e.inserted && !e.timeout && n <= 1) continue;
		if (n != (want ? 1 : 0)) { violation("C02.foreach", "event_base_foreach_event visited ev%d %d time(s), model says %d", s, n, want ? 1 : 0); return; }
	}
}
static void check_all(const char *after) {
	for (int s = 0; s < R->nslot && !stop(); s++) check_slot(s, after);
	check_counts(after);
	if (!stop()) check_foreach();
	if (!stop()) shim_base_assert_ok(R->base);
}

// ---- ops ----------------------------------------------------------------------
static struct timeval mk_tv(usec_t us) {
	struct timeval tv;
	tv.tv_sec = us / 1000000;
	tv.tv_usec = us % 1000000;
	return tv;
}
static int live_slot(int want, bool for_free = false) {	// interpret modulo the events that exist
	int n = 0, idx[MAXSLOT];
	for (int s = 0; s < R->nslot; s++) {
		Slot &sl = R->slots[s];
		if (!sl.ev) continue;
		if (sl.fin_ran && !(for_free && !sl.free_fin)) continue;	// after its finalizer an event may only be freed
		idx[n++] = s;
	}
	if (!n) return -1;
	return idx[((want % n) + n) % n];
}

static void exec_op(const Op &op, bool incb) {
	evm::Model &m = R->m;
	struct event_base *base = R->base;
	if (!incb && op.ctx >= 0) {	// queue for the next callback of that object
		if (op.ctx >= WCTX) { int w = (op.ctx - WCTX) % MAXW; if (R->ws[w].w) { Op o = op; o.ctx = -1; R->ws[w].incb.push_back(o); } }
		else { int s = live_slot(op.ctx); if (s >= 0) { Op o = op; o.ctx = -1; R->slots[s].incb.push_back(o); } }
		return;
	}
	R->ops_done++;
	switch (op.code) {
	case OP_NEW: {
		int s = (int)(op.a[0] % R->nslot);
		Slot &sl = R->slots[s];
		if (sl.ev || sl.fin_requested) break;
		int kind = (int)(op.a[1] % 3);
		int flags = (int)op.a[2];
		short events = 0;
		int mev = 0;
		int fdidx = -1;
		evutil_socket_t fd = -1;
		if (kind == evm::K_IO && R->nfd == 0) kind = evm::K_TIMER;
		if (kind == evm::K_IO) {
			fdidx = (int)(op.a[3] % R->nfd);
			fd = R->fds[fdidx][0];
			int rw = (int)(flags & 3);
			if (rw == 0) rw = 1;
			if (rw & 1) { events |= EV_READ; mev |= evm::R_READ; }
			if (rw & 2) { events |= EV_WRITE; mev |= evm::R_WRITE; }
		} else if (kind == evm::K_SIGNAL) {
			fdidx = (op.a[3] & 1) ? SIGUSR2 : SIGUSR1;
			fd = fdidx;
			events |= EV_SIGNAL;
			mev |= evm::R_SIGNAL;
		}
		if (flags & 4) { events |= EV_PERSIST; mev |= evm::R_PERSIST; }
		if (flags & 8) { events |= EV_FINALIZE; }
		struct event *ev = API(event_new(base, fd, events, ev_cb, (void *)(intptr_t)s));
		if (!ev) { violation("C02.new", "event_new failed"); break; }
		sl = Slot();
		sl.ev = ev;
		sl.midx = s;
		m.assign(s, kind, mev, fdidx);
		tr("api new ev%d kind=%d events=0x%x", s, kind, events);
		check_slot(s, "event_new");
		break;
	}
	case OP_ADD: {
		int s = live_slot((int)op.a[0]);
		if (s < 0) break;
		Slot &sl = R->slots[s];
		int tvkind = (int)(op.a[1] % 3);
		usec_t us = op.a[2];
		int r, mr;
		const evm::Ev &e = m.evs[sl.midx];
		if (e.timeout || (e.act == evm::A_ACTIVE)) R->readd_between = true;
		if (tvkind == 2 && R->ncommon == 0) tvkind = 1;
		if (tvkind == 0) {
			r = API(event_add(sl.ev, nullptr));
			mr = m.add(sl.midx, false, 0, -1);
		} else if (tvkind == 1) {
			struct timeval tv = mk_tv(us);
			r = API(event_add(sl.ev, &tv));
			mr = m.add(sl.midx, true, us, -1);
		} else {
			int c = (int)(us % R->ncommon);
			if (R->common_dur[c] == 0 && (e.events & evm::R_PERSIST) && !e.signal_closure) { c = -1; for (int k = 0; k < R->ncommon; k++) if (R->common_dur[k]) c = k; if (c < 0) break; }
			r = API(event_add(sl.ev, R->common_tv[c]));
			mr = m.add(sl.midx, true, R->common_dur[c], c);
			probe("common-timeout-add");
		}
		tr("api add ev%d kind=%d us=%lld -> %d", s, tvkind, (long long)us, r);
		if (r != mr) violation("C02.add-result", "event_add(ev%d) returned %d, model %d", s, r, mr);
		R->transitions++;
		check_slot(s, "event_add");
		break;
	}
	case OP_DEL: {
		int s = live_slot((int)op.a[0]);
		if (s < 0) break;
		Slot &sl = R->slots[s];
		if (m.evs[sl.midx].timeout) R->readd_between = true;
		int r;
		switch (op.a[1] % 3) {
		case 0: r = API(event_del(sl.ev)); break;
		case 1: r = API(event_del_noblock(sl.ev)); break;
		default: r = API(event_del_block(sl.ev)); break;
		}
		int mr = m.del(sl.midx);
		tr("api del ev%d -> %d", s, r);
		if (r != mr) violation("C02.del-result", "event_del(ev%d) returned %d, model %d", s, r, mr);
		R->transitions++;
		check_slot(s, "event_del");
		break;
	}
	case OP_ACTIVE: {
		int s = live_slot((int)op.a[0]);
		if (s < 0) break;
		Slot &sl = R->slots[s];
		int res = (int)(op.a[1] & 0x0f);
		if (!res) res = evm::R_READ;
		int ncalls = (int)(op.a[2] % 4);
		if (!(m.evs[sl.midx].events & evm::R_SIGNAL)) ncalls = 1;
		APIV(event_active(sl.ev, to_real(res), (short)ncalls));
		m.active(sl.midx, res, ncalls);
		tr("api active ev%d res=0x%x ncalls=%d", s, res, ncalls);
		R->transitions++;
		check_slot(s, "event_active");
		break;
	}
	case OP_ACTIVE_LATER: {
		int s = live_slot((int)op.a[0]);
		if (s < 0) break;
		Slot &sl = R->slots[s];
		if (m.evs[sl.midx].finalizing) break;	// event_active_later_ has no finalizing guard; internal callers never do this
		int res = (int)(op.a[1] & 0x07);
		if (!res) res = evm::R_WRITE;
		APIV(shim_event_active_later(sl.ev, to_real(res)));
		m.active_later(sl.midx, res);
		tr("api active_later ev%d res=0x%x", s, res);
		probe("active-later");
		check_slot(s, "event_active_later_");
		break;
	}
	case OP_REMOVE_TIMER: {
		int s = live_slot((int)op.a[0]);
		if (s < 0) break;
		Slot &sl = R->slots[s];
		if (m.evs[sl.midx].timeout) R->readd_between = true;
		int r = API(event_remove_timer(sl.ev));
		m.remove_timer(sl.midx);
		tr("api remove_timer ev%d -> %d", s, r);
		if (r != 0) violation("C02.remove-timer-result", "event_remove_timer returned %d", r);
		check_slot(s, "event_remove_timer");
		break;
	}
	case OP_PRIO: {
		int s = live_slot((int)op.a[0]);
		if (s < 0) break;
		Slot &sl = R->slots[s];
		int pri = (int)(op.a[1] % (m.npri + 2)) - 1;
		int r = API(event_priority_set(sl.ev, pri));
		int mr = m.priority_set(sl.midx, pri);
		tr("api priority_set ev%d %d -> %d", s, pri, r);
		if (r != mr) violation("C02.priority-set-result", "event_priority_set(ev%d,%d) returned %d, model %d", s, pri, r, mr);
		if (r == -1) probe("priority-set-refused");
		check_slot(s, "event_priority_set");
		break;
	}
	case OP_FREE: {
		int s = live_slot((int)op.a[0], true);
		if (s < 0) break;
		Slot &sl = R->slots[s];
		if (sl.fin_requested && !sl.fin_ran) break;	// must wait for the finalizer
		tr("api free ev%d", s);
		if (m.ph == evm::Model::INCB && m.cur.kind == 0 && m.cur.idx == sl.midx) probe("free-inside-own-callback");
		if (m.pending(sl.midx, ~0, nullptr)) probe("free-pending-or-active");
		APIV(event_free(sl.ev));
		m.free_ev(sl.midx);
		sl.ev = nullptr;
		sl.incb.clear();
		sl.fin_requested = false;
		check_counts("event_free");
		break;
	}
	case OP_FINALIZE: {
		int s = live_slot((int)op.a[0]);
		if (s < 0) break;
		Slot &sl = R->slots[s];
		if (sl.fin_requested) break;
		bool fr = op.a[1] & 1;
		tr("api finalize ev%d free=%d", s, fr);
		int r = fr ? API(event_free_finalize(0, sl.ev, fin_cb)) : API(event_finalize(0, sl.ev, fin_cb));
		if (r != 0) violation("C10.finalize-result", "event_finalize returned %d", r);
		// the finalizer callback gets the event's own arg
		m.finalize(sl.midx, fr);
		sl.fin_requested = true;
		sl.free_fin = fr;
		sl.fin_chain = op.a[2] > 0 ? (int)((op.a[2] - 1) % R->nslot) : -1;
		probe("finalize");
		if (!fr) check_slot(s, "event_finalize");
		break;
	}
	case OP_ONCE: {
		bool io = (op.a[0] & 1) && R->nfd > 0;
		usec_t us = op.a[2];
		bool has_tv = op.a[3] & 1;
		int r;
		int midx = m.new_slot();
		m.evs.pop_back();	// allocate index lazily below (keep numbering deterministic)
		midx = (int)m.evs.size();
		struct timeval tv = mk_tv(us);
		if (io) {
			int k = (int)(op.a[1] % R->nfd);
			short events = (op.a[3] & 2) ? EV_WRITE : EV_READ;
			r = API(event_base_once(base, R->fds[k][0], events, once_cb, (void *)(intptr_t)midx, has_tv ? &tv : nullptr));
			if (r == 0) { int i = m.once(evm::K_IO, events == EV_READ ? evm::R_READ : evm::R_WRITE, k, has_tv, us, 1); (void)i; }
		} else {
			r = API(event_base_once(base, -1, EV_TIMEOUT, once_cb, (void *)(intptr_t)midx, has_tv ? &tv : nullptr));
			if (r == 0) m.once(evm::K_TIMER, 0, -1, has_tv, us, 1);
		}
		tr("api once io=%d us=%lld -> %d", io, (long long)us, r);
		if (r != 0) violation("C02.once-result", "event_base_once returned %d", r);
		else R->once_live.push_back(midx);
		check_counts("event_base_once");
		break;
	}
	case OP_FD_WRITE: {
		if (!R->nfd) break;
		int k = (int)(op.a[0] % R->nfd);
		int n = 1 + (int)(op.a[1] % 8);
		char b[8] = {1, 2, 3, 4, 5, 6, 7, 8};
		if (__real_write(R->fds[k][1], b, n) == n) R->unread[k] += n;
		tr("api fd_write k=%d n=%d", k, n);
		break;
	}
	case OP_FD_DRAIN: {
		if (!R->nfd) break;
		int k = (int)(op.a[0] % R->nfd);
		char b[256];
		while (R->unread[k] > 0) {
			ssize_t n = __real_read(R->fds[k][0], b, sizeof b);
			if (n <= 0) break;
			R->unread[k] -= (int)n;
		}
		tr("api fd_drain k=%d", k);
		break;
	}
	case OP_ADVANCE: {
		usec_t us = op.a[0];
		if (us <= 0 || G.now_ns > 3000000000000000000LL) break;
		vk::advance(us * 1000);
		if (incb) fault("clock.slow-callback"); else fault("clock.idle-advance");
		break;
	}
	case OP_OVERSLEEP:
		if (G.now_ns < 3000000000000000000LL) R->oversleep_us = op.a[0];
		break;
	case OP_LOOP: {
		if (R->in_loop) break;
		int flags = 0, mf = 0;
		if (op.a[0] & 1) { flags |= EVLOOP_ONCE; mf |= evm::LF_ONCE; }
		if (op.a[0] & 2) { flags |= EVLOOP_NONBLOCK; mf |= evm::LF_NONBLOCK; }
		if (op.a[0] & 4) { flags |= EVLOOP_NO_EXIT_ON_EMPTY; mf |= evm::LF_NO_EXIT_ON_EMPTY; }
		R->loop_budget = 1 + (int)(op.a[1] % 40);
		R->loop_iters = 0;
		R->in_loop = true;
		R->have_prepare_tv = false;
		tr("api loop flags=%d budget=%d", flags, R->loop_budget);
		m.loop_enter(mf);
		int rv = API(event_base_loop(base, flags));
		R->in_loop = false;
		tr("api loop -> %d", rv);
		if (STOP()) break;
		while (m.exp.k != evm::Exp::RET && m.skip_optional_watcher()) {}
		if (m.exp.k != evm::Exp::RET) { char ob[48]; snprintf(ob, sizeof ob, "loop return %d", rv); mismatch(ob, false, false); break; }
		if (rv != m.exp.rv) { violation("C03.loop-return", "event_base_loop(flags=%d) returned %d, model %d", flags, rv, m.exp.rv); break; }
		{
			int gb = API(event_base_got_break(base)), ge = API(event_base_got_exit(base));
			if (gb != (int)m.ev_break || ge != (int)m.gotterm)
				violation("C03.got-flags", "got_break=%d got_exit=%d, model %d %d", gb, ge, (int)m.ev_break, (int)m.gotterm);
			if (gb || ge) R->loopctl_effect++;
		}
		m.ph = evm::Model::IDLE;
		// callbacks of once-events that ran were consumed; finalized+freed slots are gone
		check_all("event_base_loop");
		break;
	}
	case OP_BREAK: {
		int r = API(event_base_loopbreak(base));
		m.loopbreak();
		tr("api loopbreak -> %d", r);
		if (incb) { R->loopctl_effect++; probe("loopbreak-in-callback"); if (m.in_sigloop && m.sig_remaining > 0) probe("loopbreak-inside-ncalls-loop"); }
		break;
	}
	case OP_EXIT: {
		usec_t us = op.a[0];
		bool has_tv = op.a[1] & 1;
		struct timeval tv = mk_tv(us);
		int r = API(event_base_loopexit(base, has_tv ? &tv : nullptr));
		if (r == 0) m.once(evm::K_TIMER, 0, -1, has_tv, us, 2);
		tr("api loopexit us=%lld has=%d -> %d", (long long)us, has_tv, r);
		if (r != 0) violation("C03.loopexit-result", "event_base_loopexit returned %d", r);
		if (incb) R->loopctl_effect++;
		break;
	}
	case OP_CONTINUE: {
		int r = API(event_base_loopcontinue(base));
		m.loopcontinue();
		tr("api loopcontinue -> %d", r);
		if (incb) { R->loopctl_effect++; probe("loopcontinue-in-callback"); }
		break;
	}
	case OP_WATCH_NEW: {
		int w = (int)(op.a[0] % MAXW);
		if (R->ws[w].w) break;
		int kind = (int)(op.a[1] & 1);
		struct evwatch *wp = kind == 0 ? API(evwatch_prepare_new(base, prepare_cb, (void *)(intptr_t)w))
					       : API(evwatch_check_new(base, check_cb, (void *)(intptr_t)w));
		if (!wp) { violation("C45.new", "evwatch_*_new failed"); break; }
		R->ws[w] = WSlot();
		R->ws[w].w = wp;
		R->ws[w].kind = kind;
		m.watch_new(w, kind);
		tr("api watch_new w%d kind=%d", w, kind);
		if (incb) probe("watcher-created-in-callback");
		break;
	}
	case OP_WATCH_FREE: {
		int w = (int)(op.a[0] % MAXW);
		if (!R->ws[w].w) break;
		bool in_watcher = m.ph == evm::Model::PREPARE || m.ph == evm::Model::CHECK;
		if (in_watcher && incb) {
			if (suppressed("watcher-free-in-watcher")) break;
			probe("watcher-freed-inside-watcher");
		}
		tr("api watch_free w%d", w);
		APIV(evwatch_free(R->ws[w].w));
		m.watch_free(w);
		R->ws[w].w = nullptr;
		R->ws[w].incb.clear();
		break;
	}
	case OP_PENDING: {
		int s = live_slot((int)op.a[0]);
		if (s >= 0) check_slot(s, "query");
		break;
	}
	case OP_COUNTS: {
		check_counts("query");
		if (stop()) break;
		bool clear = op.a[0] & 1;
		unsigned type = (op.a[1] % 3 == 0) ? EVENT_BASE_COUNT_ACTIVE : (op.a[1] % 3 == 1) ? EVENT_BASE_COUNT_ADDED : (EVENT_BASE_COUNT_ACTIVE | EVENT_BASE_COUNT_ADDED);
		int got = API(event_base_get_max_events(base, type, clear));
		int want = 0;
		bool uncertain = false;
		if (type & EVENT_BASE_COUNT_ACTIVE) { want += m.count_active_max; uncertain |= m.max_uncertain_active; if (clear) { m.count_active_max = 0; m.max_uncertain_active = false; } }
		if (type & EVENT_BASE_COUNT_ADDED) { want += m.event_count_max; uncertain |= m.max_uncertain_added; if (clear) { m.event_count_max = 0; m.max_uncertain_added = false; } }
		if (uncertain) { probe("max-events-after-a-timer-tie"); break; }
		if (got != want) violation("C02.max-events", "event_base_get_max_events(type=%u) = %d, model %d", type, got, want);
		break;
	}
	case OP_FOREACH:
		check_foreach();
		break;
	case OP_UPDATE_CACHE: {
		int r = API(event_base_update_cache_time(base));
		if (m.running_loop) m.update_cache();
		tr("api update_cache_time -> %d", r);
		break;
	}
	case OP_DC_TRIGGER: {
		if (!R->ndc) break;
		int first = (int)(op.a[0] % R->ndc);
		int n = 1 + (int)(op.a[1] % R->ndc);
		for (int k = 0; k < n; k++) {
			int d = (first + k) % R->ndc;
			// a change on a deferred-callback buffer schedules its deferred callback
			API(evbuffer_add(R->dcs[d].buf, "x", 1));
			m.dc_schedule(d);
		}
		tr("api deferred_trigger first=%d n=%d", first, n);
		if (n > 33) probe("more-than-32-deferred");
		check_counts("deferred trigger");
		break;
	}
	}
}

// ---------------------------------------------------------------------------
static void execute(const Plan &p) {
	Run run;
	R = &run;
	run.plan = &p;
	evm::Model &m = run.m;
	m.clock = clock_us;
	m.fd_ready = fd_ready;
	int backend = (int)p.c("backend");
	run.backend = backend;
	int npri = (int)std::max<int64_t>(1, p.c("npri", 1));
	run.nslot = (int)std::min<int64_t>(MAXSLOT, std::max<int64_t>(1, p.c("nslot", 4)));
	run.nfd = (int)std::min<int64_t>(MAXFD, p.c("nfd", 1));
	run.ndc = (int)std::min<int64_t>(MAXDC, p.c("ndc", 0));

	if (p.c("heap_shape")) probe("heap-shape-plan");
	vk::hooks.wait_enter = on_wait_enter;
	vk::hooks.wait_exit = on_wait_exit;
	vk::hooks.stall = on_stall;
	vk::wait_cap = 5000;
	vk::hooks.capped = []() { if (R->in_loop) { event_base_loopbreak(R->base); R->m.loopbreak(); } };
	if (p.c("wait_eintr_pm")) vk::set_fault(vk::S_WAIT_EINTR, (int)p.c("wait_eintr_pm"));

	{
		vk::HarnessScope hs;
		for (int k = 0; k < run.nfd; k++) {
			if (socketpair(AF_UNIX, SOCK_STREAM | SOCK_NONBLOCK, 0, run.fds[k]) < 0) { run.nfd = k; break; }
			run.unread[k] = 0;
		}
	}
	struct event_config *cfg = event_config_new();
	static const char *const methods[] = {"epoll", "poll", "select"};
	int meth = backend <= 1 ? 0 : backend - 1;
	for (int i = 0; i < 3; i++) if (i != meth) event_config_avoid_method(cfg, methods[i]);
	int flags = EVENT_BASE_FLAG_IGNORE_ENV;
	if (backend == 1) flags |= EVENT_BASE_FLAG_EPOLL_USE_CHANGELIST;
	if (p.c("signalfd")) flags |= EVENT_BASE_FLAG_USE_SIGNALFD;
	if (p.c("no_cache")) { flags |= EVENT_BASE_FLAG_NO_CACHE_TIME; m.no_cache = true; }
	if (p.c("precise")) flags |= EVENT_BASE_FLAG_PRECISE_TIMER;
	event_config_set_flag(cfg, flags);
	if (p.c("md_set")) {
		struct timeval tv = mk_tv(p.c("md_time_us"));
		bool has_time = p.c("md_has_time");
		int maxcb = (int)p.c("md_maxcb", -1);
		int minpri = (int)p.c("md_minpri");
		event_config_set_max_dispatch_interval(cfg, has_time ? &tv : nullptr, maxcb, minpri);
		m.max_time = has_time ? p.c("md_time_us") : -1;
		m.max_cb = maxcb >= 0 ? maxcb : INT_MAX;
		if (minpri < 0) minpri = 0;
		m.limit_after_prio = minpri;
	} else {
		m.max_time = -1;
		m.max_cb = INT_MAX;
		m.limit_after_prio = 1;
	}
	run.base = event_base_new_with_config(cfg);
	event_config_free(cfg);
	if (!run.base) {
		violation("C02.base-new", "event_base_new_with_config failed for backend %d", backend);
		vk::HarnessScope hs;
		for (int k = 0; k < run.nfd; k++) { close(run.fds[k][0]); close(run.fds[k][1]); }
		R = nullptr;
		return;
	}
	if (npri > 1) event_base_priority_init(run.base, npri);
	m.init(npri);
	m.evs.resize(run.nslot);
	tr("cfg backend=%s npri=%d flags=0x%x", event_base_get_method(run.base), npri, flags);
	// common timeouts
	run.ncommon = (int)std::min<int64_t>(4, p.c("ncommon", 0));
	for (int c = 0; c < run.ncommon; c++) {
		char key[16];
		snprintf(key, sizeof key, "common%d_us", c);
		usec_t d = p.c(key, 1000);
		struct timeval tv = mk_tv(d);
		run.common_tv[c] = API(event_base_init_common_timeout(run.base, &tv));
		int mc = m.init_common(d);
		run.common_dur[c] = d;
		if (!run.common_tv[c] || mc < 0) { run.ncommon = c; break; }
		if (mc != c) {	// duplicate duration: alias
			run.common_dur[c] = d;
			// model index differs from slot index: keep a direct mapping by re-pointing
			run.ncommon = c;
			break;
		}
	}
	for (int d = 0; d < run.ndc; d++) {
		run.dcs[d].buf = evbuffer_new();
		evbuffer_defer_callbacks(run.dcs[d].buf, run.base);
		evbuffer_add_cb(run.dcs[d].buf, dc_cb, (void *)(intptr_t)d);
		evm::DC dc;
		dc.exists = true;
		dc.pri = npri / 2;
		m.dcs.push_back(dc);
	}

	for (auto &op : p.ops) {
		if (STOP()) break;
		exec_op(op, false);
	}
	if (abandoned()) probe("abandoned-ambiguous-tie");

	// non-triviality rules (DESIGN §2.9)
	if (!STOP()) {
		int pr = 0;
		for (int b = 0; b < 31; b++) if (m.prios_ran_mask & (1 << b)) pr++;
		if (p.prop == "C01") G.nontrivial = m.timers_fired >= 2 && run.readd_between;
		else if (p.prop == "C02") G.nontrivial = run.ops_done >= 5 && run.queries >= 2 && run.transitions >= 1;
		else if (p.prop == "C03") G.nontrivial = pr >= 2 || run.loopctl_effect > 0;
		else if (p.prop == "C45") G.nontrivial = run.watcher_iters >= 1;
		else G.nontrivial = run.ops_done >= 5;
	}

	// teardown: free events, then the base; pending finalizers run inside event_base_free
	run.teardown = false;
	int fin_pending = 0;
	for (int s = 0; s < run.nslot; s++) {
		Slot &sl = run.slots[s];
		if (!sl.ev) continue;
		if (sl.fin_requested && !sl.fin_ran) { fin_pending++; continue; }
		bool chained = false;	// left alive for the pending finalizer that will release it from inside event_base_free
		for (int q = 0; q < run.nslot; q++) if (q != s && run.slots[q].ev && run.slots[q].fin_requested && !run.slots[q].fin_ran && run.slots[q].fin_chain == s) chained = true;
		if (chained && !sl.fin_requested) continue;
		APIV(event_free(sl.ev));
		sl.ev = nullptr;
	}
	if (fin_pending) probe("base-free-with-finalizer-pending");
	if (!run.once_live.empty()) probe("base-free-with-once-pending");
	for (int d = 0; d < run.ndc; d++) { evbuffer_free(run.dcs[d].buf); }
	run.teardown = true;
	APIV(event_base_free(run.base));
	run.base = nullptr;
	if (!stop()) {
		for (int s = 0; s < run.nslot; s++) {
			Slot &sl = run.slots[s];
			if (sl.fin_requested && sl.fin_count != 1)
				violation("C10.finalizer-count", "slot %d: finalizer ran %d time(s) by the end of event_base_free", s, sl.fin_count);
			if (sl.ev && sl.fin_requested && !sl.free_fin) { event_debug_unassign(sl.ev); free(nullptr); }
		}
	}
	// event_finalize (without free) leaves the storage to us
	for (int s = 0; s < run.nslot; s++) {
		Slot &sl = run.slots[s];
		if (sl.ev && sl.fin_requested && !sl.free_fin) { extern void h_core_free_event_storage(struct event *); h_core_free_event_storage(sl.ev); sl.ev = nullptr; }
	}
	{
		vk::HarnessScope hs;
		for (int k = 0; k < run.nfd; k++) { close(run.fds[k][0]); close(run.fds[k][1]); }
	}
	if (!stop()) {
		if (mon::live_blocks_run() != 0)
			violation("C10.leak", "%lld block(s) allocated by the library still live after event_base_free: %s", (long long)mon::live_blocks_run(), mon::live_blocks_desc(6).c_str());
		else if (vk::open_fd_count_lib() != 0)
			violation("C10.fd-leak", "library-owned fds still open after event_base_free: %s", vk::open_fd_list_lib().c_str());
		else if (mon::locks_enabled && mon::held() != 0)
			violation("C08.lock-held-at-end", "%d lock acquisition(s) still held at the end of the run", mon::held());
	}
	if (!stop() && p.prop == "C10")
		G.nontrivial = G.cnt.count("probe.finalize") || G.cnt.count("probe.free-inside-own-callback") || G.cnt.count("probe.base-free-with-once-pending") || G.cnt.count("probe.base-free-with-finalizer-pending") || G.cnt.count("probe.free-pending-or-active");
	R = nullptr;
}

// the event was allocated with event_new (library allocator): give it back the same way
void h_core_free_event_storage(struct event *ev) {
	// event_free() on a finalized event: event_del is a no-op for FINALIZING events; but the base is gone.
	// Clear the base pointer so event_del_ returns early, as a user would do by freeing before the base.
	ev->ev_base = nullptr;
	event_free(ev);
}

// ---------------------------------------------------------------------------
static usec_t gen_dur(Rng &r) {
	static const usec_t fixed[] = {0, 1, 999, 1000, 1001, 1000, 5000, 5000, 1000000, 2147483648LL * 1000000LL, 1500000000LL * 1000000LL};
	switch (r.below(4)) {
	case 0: return fixed[r.below(sizeof fixed / sizeof fixed[0])];
	case 1: return r.range(0, 3000);
	case 2: return r.range(0, 20) * 1000;
	default: return r.range(0, 5000000);
	}
}

static void generate(Plan &p, Rng &r) {
	const std::string &prop = p.prop;
	bool thorough = p.tier == "thorough";
	p.cfg["backend"] = r.below(4);
	p.cfg["signalfd"] = r.below(2);
	p.cfg["npri"] = prop == "C03" ? r.range(1, 6) : (r.chance(0.5) ? 1 : r.range(2, 8));
	p.cfg["nslot"] = r.chance(0.3) ? 2 : r.range(2, MAXSLOT);
	p.cfg["nfd"] = r.range(0, MAXFD);
	p.cfg["no_cache"] = r.chance(0.2);
	p.cfg["precise"] = r.chance(0.2);
	p.cfg["ncommon"] = r.chance(prop == "C01" ? 0.6 : 0.3) ? r.range(1, 3) : 0;
	for (int c = 0; c < 3; c++) {
		char key[16];
		snprintf(key, sizeof key, "common%d_us", c);
		p.cfg[key] = r.chance(0.5) ? (int64_t)(1000 * (1 + c)) : 1 + (int64_t)r.below(3000000) + c;
	}
	if (r.chance(prop == "C03" ? 0.5 : 0.15)) {
		p.cfg["md_set"] = 1;
		p.cfg["md_has_time"] = r.coin();
		p.cfg["md_time_us"] = r.pick(std::vector<int64_t>{0, 1, 1000, 50000});
		p.cfg["md_maxcb"] = r.chance(0.3) ? -1 : r.range(0, 4);
		p.cfg["md_minpri"] = r.range(0, 3);
	}
	p.cfg["ndc"] = (prop == "C03" && r.chance(0.3)) ? (r.chance(0.5) ? r.range(34, MAXDC) : r.range(1, 8)) : 0;
	if (r.chance(0.15)) p.cfg["wait_eintr_pm"] = r.pick(std::vector<int64_t>{10, 50, 200});

	int nops = thorough ? (int)r.range(10, 200) : (r.chance(0.3) ? (int)r.range(3, 8) : (int)r.range(8, 60));
	// weights per property emphasis
	struct W { int code; int w; };
	std::vector<W> ws = {
		{OP_NEW, 10}, {OP_ADD, 16}, {OP_DEL, 6}, {OP_ACTIVE, 6}, {OP_ACTIVE_LATER, 2}, {OP_REMOVE_TIMER, 3}, {OP_PRIO, 3},
		{OP_FREE, 3}, {OP_FINALIZE, 1}, {OP_ONCE, 2}, {OP_FD_WRITE, 4}, {OP_FD_DRAIN, 3}, {OP_ADVANCE, 4}, {OP_LOOP, 12},
		{OP_BREAK, 1}, {OP_EXIT, 1}, {OP_CONTINUE, 1}, {OP_WATCH_NEW, 1}, {OP_WATCH_FREE, 1}, {OP_PENDING, 3}, {OP_COUNTS, 2},
		{OP_FOREACH, 1}, {OP_UPDATE_CACHE, 1}, {OP_DC_TRIGGER, 0}, {OP_OVERSLEEP, 1},
	};
	auto bump = [&](int code, int w) { for (auto &x : ws) if (x.code == code) x.w = w; };
	if (prop == "C01") { bump(OP_ADD, 24); bump(OP_REMOVE_TIMER, 6); bump(OP_ADVANCE, 8); bump(OP_OVERSLEEP, 4); bump(OP_DEL, 8); }
	if (prop == "C02") { bump(OP_PENDING, 8); bump(OP_COUNTS, 5); bump(OP_FOREACH, 3); bump(OP_ACTIVE, 10); bump(OP_PRIO, 6); bump(OP_FINALIZE, 2); }
	if (prop == "C03") { bump(OP_ACTIVE, 14); bump(OP_ACTIVE_LATER, 5); bump(OP_BREAK, 4); bump(OP_EXIT, 4); bump(OP_CONTINUE, 4); bump(OP_PRIO, 8); bump(OP_DC_TRIGGER, p.cfg["ndc"] ? 8 : 0); bump(OP_ADVANCE, 6); }
	if (prop == "C45") { bump(OP_WATCH_NEW, 10); bump(OP_WATCH_FREE, 6); bump(OP_LOOP, 16); }
	if (prop == "C10") { bump(OP_FINALIZE, 6); bump(OP_FREE, 8); bump(OP_ONCE, 6); }
	int total = 0;
	for (auto &x : ws) total += x.w;
	int nslot = (int)p.cfg["nslot"];
	// heap-shape emphasis: many pure timers with distinct deadlines, then deletions / re-adds of non-top elements
	if ((prop == "C01" && r.chance(0.35)) || (prop != "C01" && r.chance(0.03))) {
		nslot = (int)r.range(9, MAXSLOT);
		p.cfg["nslot"] = nslot;
		std::vector<int64_t> durs;
		for (int i = 0; i < nslot; i++) durs.push_back((int64_t)(1 + r.below(60)) * 1000 + (r.chance(0.2) ? 0 : (int64_t)r.below(1000)));
		for (int i = 0; i < nslot; i++) {
			Op o; o.code = OP_NEW; o.a[0] = i; o.a[1] = 0; o.a[2] = r.chance(0.2) ? 4 : 0; p.ops.push_back(o);
			Op a; a.code = OP_ADD; a.a[0] = i; a.a[1] = 1; a.a[2] = durs[i]; p.ops.push_back(a);
		}
		int nmut = (int)r.range(1, 10);
		for (int k = 0; k < nmut; k++) {
			Op o;
			switch (r.below(4)) {
			case 0: o.code = OP_DEL; o.a[0] = r.below(nslot); break;
			case 1: o.code = OP_REMOVE_TIMER; o.a[0] = r.below(nslot); break;
			case 2: o.code = OP_ADD; o.a[0] = r.below(nslot); o.a[1] = 1; o.a[2] = (int64_t)(1 + r.below(60)) * 1000; break;
			default: o.code = OP_FREE; o.a[0] = r.below(nslot); break;
			}
			if (r.chance(0.2)) o.ctx = (int)r.below(nslot);
			p.ops.push_back(o);
			if (r.chance(0.3)) { Op l; l.code = OP_LOOP; l.a[0] = 1; l.a[1] = r.below(4); p.ops.push_back(l); }
		}
		Op l; l.code = OP_LOOP; l.a[0] = 0; l.a[1] = 39; p.ops.push_back(l);
		p.cfg["heap_shape"] = 1;
		nops = (int)r.range(0, 10);
	}
	// start with a few events so that short plans do something
	int pre = p.ops.empty() ? (int)r.range(1, std::min(nslot, 4)) : 0;
	for (int i = 0; i < pre; i++) {
		Op o;
		o.code = OP_NEW;
		o.a[0] = i;
		o.a[1] = r.below(3);
		o.a[2] = r.below(16);
		o.a[3] = r.below(8);
		p.ops.push_back(o);
	}
	for (int k = 0; k < nops; k++) {
		int x = (int)r.below(total), code = 0;
		for (auto &w : ws) { if (x < w.w) { code = w.code; break; } x -= w.w; }
		Op o;
		o.code = code;
		switch (code) {
		case OP_NEW: o.a[0] = r.below(nslot); o.a[1] = r.below(3); o.a[2] = r.below(16); o.a[3] = r.below(8); break;
		case OP_ADD: o.a[0] = r.below(nslot); o.a[1] = r.chance(0.15) ? 0 : (r.chance(0.3) ? 2 : 1); o.a[2] = gen_dur(r); break;
		case OP_DEL: o.a[0] = r.below(nslot); o.a[1] = r.below(3); break;
		case OP_ACTIVE: o.a[0] = r.below(nslot); o.a[1] = r.range(1, 15); o.a[2] = r.below(4); break;
		case OP_ACTIVE_LATER: o.a[0] = r.below(nslot); o.a[1] = r.range(1, 7); break;
		case OP_REMOVE_TIMER: case OP_FREE: case OP_PENDING: o.a[0] = r.below(nslot); break;
		case OP_PRIO: o.a[0] = r.below(nslot); o.a[1] = r.below(10); break;
		case OP_FINALIZE: o.a[0] = r.below(nslot); o.a[1] = r.below(2); o.a[2] = (prop == "C10" && r.chance(0.5)) ? 1 + r.below(nslot) : 0; break;
		case OP_ONCE: o.a[0] = r.below(2); o.a[1] = r.below(MAXFD); o.a[2] = gen_dur(r) % 10000000; o.a[3] = r.below(4); break;
		case OP_FD_WRITE: o.a[0] = r.below(MAXFD); o.a[1] = r.below(8); break;
		case OP_FD_DRAIN: o.a[0] = r.below(MAXFD); break;
		case OP_ADVANCE: o.a[0] = r.chance(0.1) ? (int64_t)r.below(100000000000000LL) : (int64_t)r.below(20000); break;
		case OP_OVERSLEEP: o.a[0] = r.chance(0.2) ? (int64_t)r.below(1000000000000000LL) : (int64_t)r.below(5000); break;
		case OP_LOOP: o.a[0] = r.pick(std::vector<int64_t>{0, 0, 1, 1, 2, 3, 4, 5}); o.a[1] = r.below(thorough ? 40 : 12); break;
		case OP_EXIT: o.a[0] = gen_dur(r) % 3000000; o.a[1] = r.below(2); break;
		case OP_WATCH_NEW: o.a[0] = r.below(MAXW); o.a[1] = r.below(2); break;
		case OP_WATCH_FREE: o.a[0] = r.below(MAXW); break;
		case OP_COUNTS: o.a[0] = r.below(2); o.a[1] = r.below(3); break;
		case OP_DC_TRIGGER: o.a[0] = r.below(MAXDC); o.a[1] = r.chance(0.4) ? r.range(33, MAXDC) : r.below(6); break;
		default: break;
		}
		// a share of the state-changing ops run from inside callbacks
		if (code != OP_LOOP && code != OP_NEW && r.chance(0.3)) {
			if (r.chance(prop == "C45" ? 0.5 : 0.1)) o.ctx = WCTX + (int)r.below(MAXW);
			else o.ctx = (int)r.below(nslot);
		}
		p.ops.push_back(o);
	}
	// always end with a loop so queued work runs
	Op l;
	l.code = OP_LOOP;
	l.a[0] = r.pick(std::vector<int64_t>{0, 1, 2});
	l.a[1] = r.below(12);
	p.ops.push_back(l);
}

static std::vector<int64_t> cfg_simpler(const std::string &key, int64_t cur) {
	if (key == "npri" || key == "nslot") return cur > 2 ? std::vector<int64_t>{1, 2} : std::vector<int64_t>{1};
	if (key == "backend") return {0};
	if (cur != 0) return {0};
	return {};
}

static void process_init(int cls) {
	(void)cls;
	// warm-up: process-lifetime allocations (debug map growth, signal globals) happen here, not inside run 1
	struct event_base *b = event_base_new();
	std::vector<struct event *> evs;
	for (int i = 0; i < 600; i++) { struct event *e = event_new(b, -1, 0, ev_cb, nullptr); struct timeval tv = {1, 0}; event_add(e, &tv); evs.push_back(e); }
	for (auto e : evs) event_free(e);
	struct event *s = event_new(b, SIGUSR1, EV_SIGNAL | EV_PERSIST, ev_cb, nullptr);
	event_add(s, nullptr);
	event_free(s);
	event_base_free(b);
}

int main(int argc, char **argv) {
	static Harness h = {"h_core", opnames, OP_N, generate, execute, cfg_simpler, process_init};
	return harness_main(argc, argv, h);
}
