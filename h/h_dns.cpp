// H6: DNS resolver harness — C33 (reply parsing), C34 (exactly-once outcome), C36 (queries on the wire), C38 (getaddrinfo).
// World S: the resolver's UDP sockets and TCP connections are simulated; the nameservers are scripted endpoints of the
// simulated network whose behaviour per query comes from the plan; time is virtual.
#include <algorithm>
#include <cerrno>
#include <cstring>
#include <deque>
#include <map>
#include <set>
#include <sys/socket.h>
#include <netinet/in.h>
#include <arpa/inet.h>
#include <sys/mman.h>
#include <unistd.h>
#include <event2/event.h>
#include <event2/dns.h>
#include <event2/util.h>
#include "sim/sim.hpp"
#include "vk/vk.hpp"
#include "mon/mon.hpp"
#include "ref/dnswire.hpp"

using namespace sim;

enum {
	OP_RESOLVE, OP_GAI, OP_CANCEL, OP_NS_SCRIPT, OP_LOOP, OP_ADVANCE, OP_OPTION, OP_NS_CTL, OP_SEARCH, OP_BASE_FREE, OP_NS_POWER, OP_HOSTS, OP_N
};
static const char *const opnames[OP_N] = {
	"resolve", "getaddrinfo", "cancel", "ns_script", "loop", "advance", "set_option", "ns_ctl", "search", "base_free", "ns_power", "load_hosts",
};

enum { B_ANSWER, B_DROP, B_DELAY, B_RCODE, B_TC, B_MUTATE, B_DUP, B_NODATA, B_TCP_CLOSE_AT, B_TCP_RST, B_OTHER_TYPE, B_BIG, B_CNAME, B_N };
enum { K_A, K_AAAA, K_PTR4, K_PTR6, K_GAI };
#define MAXNS 3

struct Behav { int kind = B_ANSWER; int64_t a = 0, b = 0; };

struct SentReply {
	std::string bytes;
	bool from_ok = true, tcp = false;
	int ns = 0;
	uint16_t q_id = 0;
	dw::Name q_name;	// as it was on the wire (case preserved)
	uint16_t q_type = 0;
	bool complete = true;	// TCP: the whole length-prefixed message was sent before any close
	size_t udp_limit = 0;	// UDP: the resolver's receive buffer (edns-udp-size) when the datagram was sent; a larger datagram arrives cut
	int64_t t_sent = 0;
};

struct Req {
	int kind = K_A;
	std::string name;		// as handed to the API (textual)
	std::vector<std::string> expect;	// names that may appear on the wire, in search order (lower case)
	int search_pos = -1;
	int qtype = dw::T_A;
	int flags = 0;
	struct evdns_request *h = nullptr;
	struct evdns_getaddrinfo_request *gh = nullptr;
	bool submitted = false;		// the API returned a handle
	bool encodable = true;		// the name can be written as valid labels within 255 octets
	int ncb = 0, ncname_cb = 0;
	int result = -1;
	bool cancelled = false, cancelled_effective = false, dropped_by_free = false, failed_by_free = false;
	int64_t t_submit = 0, t_last_query = -1;
	int nqueries = 0;
	bool has_id = false;
	uint16_t cur_id = 0;
	int id_epoch = 0;
	int64_t t_id_first = 0;	// when the current id was first seen on a query of this request
	std::vector<int> replies;	// indices into Run::sent
	// getaddrinfo
	int fam = 0, gai_flags = 0, socktype = 0, port = 0;
	int sub[2] = {-1, -1};		// K_GAI: indices of the model's view of the A / AAAA sub-questions (reply lists are shared via name)
	std::vector<int> ctx_ops;	// plan ops to run inside this request's callback
	int parent = -1;		// sub-question of a getaddrinfo request (its callbacks are internal to the library)
	bool numeric = false, from_hosts_expected = false;
	bool rc = true;			// randomize-case as it was when the request was made
	int edns = 512;			// edns-udp-size as it was when the request was made
};

struct Ns {
	vk::Endpoint *udp = nullptr, *tcp_l = nullptr, *aux = nullptr;
	sockaddr_in addr{};
	bool added = false, up = true;
	std::deque<Behav> script;
	struct Conn { vk::Endpoint *ep; std::string in; bool open = true; };
	std::vector<Conn *> conns;
};

struct Run {
	const Plan *plan = nullptr;
	struct event_base *base = nullptr;
	struct evdns_base *dns = nullptr;
	bool dns_freed = false;
	int freed_fail_requests = -1;
	Ns ns[MAXNS];
	int nns = 1;
	std::vector<Req> reqs;
	std::vector<SentReply> sent;
	bool randomize_case = true;
	int edns = 512;
	std::vector<std::pair<int64_t, int>> edns_hist;	// (virtual time, edns-udp-size) every time it was set
	int attempts = 3;
	int64_t timeout_ms = 5000, min_timeout_ms = 5000;
	int max_inflight = 64;
	std::vector<std::string> search;	// configured search domains, in order
	int ndots = 1;
	bool tcp_global_usevc = false, igntc_global = false;
	bool stalled = false;
	int in_cb = 0;
	bool settling = false;
	int queries_seen = 0, non_first_try = 0, parsed_beyond_header = 0, gai_compared = 0;
	std::map<std::string, std::vector<std::string>> hosts;	// lower-case name -> textual addresses, in file order
	int hosts_fd = -1, resolv_fd = -1;
	int ns_failed = 0;	// nameservers the library currently considers failed (from its log): probes are in flight for them
	int epoch = 0;	// bumped when the library hands every request in flight a new id (nameservers cleared)
	// wire-level bookkeeping for C34 id uniqueness: id -> request index currently using it
	// model of the getaddrinfo cache: lower-case node -> (expiry ns, addresses as text, canonname flag)
	struct CacheEnt { int64_t expiry_ns; std::vector<std::string> v4, v6; bool has_cname; std::string cname; };
	std::map<std::string, std::vector<CacheEnt>> cache;	// alternatives: which of several network answers the library kept is not always visible
	bool no_cache = false;
};
static Run *R;

static bool fam(const char *id) { const std::string &p = R->plan->prop; return p == id || (p != "C33" && p != "C34" && p != "C36" && p != "C38"); }
#define V(idstr, ...) do { if (fam(idstr)) violation(__VA_ARGS__); } while (0)

static std::string hexs(const std::string &s, size_t max = 24) {
	static const char *d = "0123456789abcdef";
	std::string o;
	for (size_t i = 0; i < s.size() && i < max; i++) { o += d[(unsigned char)s[i] >> 4]; o += d[s[i] & 15]; }
	if (s.size() > max) o += "..";
	return o;
}

// ---------------------------------------------------------------------------
// reference reading of a reply, as far as the resolver is entitled to use it
struct RefReply {
	bool header = false;		// >= 12 bytes
	uint16_t id = 0, flags = 0;
	unsigned qd = 0;
	bool question_present = false, question_match = false;
	bool bounds_error = false;	// something in questions/answers reaches outside the message: must not be accepted
	bool odd = false;		// syntactically unusual (reserved label bits, > 255 octets, long pointer chains): either outcome
	std::vector<std::string> addrs;	// rdata of type-matching class-IN records of the answer section, in order (4 or 16 bytes each)
	bool have_ptr = false;
	dw::Name ptr;
	std::vector<dw::Name> cnames;
	uint32_t min_ttl = 0xffffffffu;
	bool bad_rdlen = false;
};
static bool bounds_reason(const std::string &w) { return w == "truncated" || w == "label beyond message" || w == "rdata beyond message" || w == "pointer out of bounds"; }

static RefReply ref_read(const std::string &b, int qtype, const dw::Name &wire_q, bool nocase) {
	RefReply r;
	dw::Dec d(b);
	size_t j = 0;
	unsigned id, fl, qd, an, ns, ar;
	if (!d.u16(j, id) || !d.u16(j, fl) || !d.u16(j, qd) || !d.u16(j, an) || !d.u16(j, ns) || !d.u16(j, ar)) return r;
	r.header = true;
	r.id = id; r.flags = fl; r.qd = qd;
	auto bad = [&]() { if (bounds_reason(d.why)) r.bounds_error = true; else r.odd = true; };
	auto nul = [&](const dw::Name &n) { for (auto &l : n) if (l.find('\0') != std::string::npos) r.odd = true; };	// the resolver refuses NUL inside a label
	for (unsigned i = 0; i < qd; i++) {
		dw::Name n; unsigned t, c;
		if (!d.name(j, n) || !d.u16(j, t) || !d.u16(j, c)) { bad(); return r; }
		r.question_present = true;
		nul(n);
		// compared as the dotted strings the API deals in (a dot inside a label is not told apart from a label boundary)
		if (nocase ? dw::lower(dw::dotted(n)) == dw::lower(dw::dotted(wire_q)) : dw::dotted(n) == dw::dotted(wire_q)) r.question_match = true;
	}
	for (unsigned i = 0; i < an; i++) {
		dw::RR rr;
		unsigned t, c, l;
		if (!d.name(j, rr.name) || !d.u16(j, t) || !d.u16(j, c) || !d.u32(j, rr.ttl) || !d.u16(j, l)) { bad(); return r; }
		rr.type = t; rr.cls = c;
		nul(rr.name);
		if (t == dw::T_CNAME || (t == dw::T_PTR && c == dw::C_IN && qtype == dw::T_PTR)) {
			// the resolver reads the name where the rdata starts; an RDLENGTH that disagrees with the name's extent (or runs
			// past the message) makes the record odd, not unreadable
			size_t k = j;
			if (!d.name(k, rr.rname)) { bad(); return r; }
			if (j + l > b.size() || k != j + l) r.odd = true;
			nul(rr.rname);
			rr.has_rname = true;
			j = (j + l <= b.size() && k == j + l) ? j + l : k;
		} else {
			if (j + l > b.size()) { r.bounds_error = true; return r; }
			rr.rdata = b.substr(j, l);
			j += l;
		}
		if (rr.type == dw::T_CNAME) { r.cnames.push_back(rr.rname); continue; }
		if (rr.cls != dw::C_IN || rr.type != qtype) continue;
		if (qtype == dw::T_A || qtype == dw::T_AAAA) {
			size_t w = qtype == dw::T_A ? 4 : 16;
			if (rr.rdata.size() % w) { r.bad_rdlen = true; return r; }
			if (rr.rdata.size() != w) r.odd = true;	// several addresses in one record: not RFC, tolerated
			for (size_t k = 0; k + w <= rr.rdata.size(); k += w) r.addrs.push_back(rr.rdata.substr(k, w));
			r.min_ttl = std::min(r.min_ttl, rr.ttl);
		} else if (qtype == dw::T_PTR) {
			r.have_ptr = true;
			r.ptr = rr.rname;
			r.min_ttl = std::min(r.min_ttl, rr.ttl);
			break;
		}
	}
	return r;
}

// ---------------------------------------------------------------------------
// fake nameservers
static std::string lc(const std::string &s) { return dw::lower(s); }

// deterministic content of the zone: addresses for a name, derived from the name itself
static uint32_t addr_of(const std::string &lname, int k) { return 0x0a000000u | (uint32_t)(mix(hash_str(lname.c_str()), (uint64_t)k) & 0x00ffffffu); }
static std::string addr6_of(const std::string &lname, int k) {
	std::string s(16, 0);
	s[0] = 0x20; s[1] = 0x01; s[2] = 0x0d; s[3] = (char)0xb8;
	uint64_t h = mix(hash_str(lname.c_str()), 1000 + (uint64_t)k);
	for (int i = 0; i < 8; i++) s[8 + i] = (char)(h >> (8 * i));
	return s;
}

static int match_request(const dw::Name &qn, int qtype, int id = -1) {
	// among the requests whose expected names contain this one: the open request that already uses this transaction id
	// (a retransmission), else the oldest open request that has not been sent yet, else the oldest open one, else any
	std::string l = lc(dw::dotted(qn));
	int same_id = -1, unsent = -1, open = -1, any = -1;
	for (size_t i = 0; i < R->reqs.size(); i++) {
		Req &q = R->reqs[i];
		if (q.kind == K_GAI || q.qtype != qtype) continue;
		if (std::find(q.expect.begin(), q.expect.end(), l) == q.expect.end()) continue;
		if (any < 0) any = (int)i;
		if (q.ncb || q.dropped_by_free) continue;
		if (open < 0) open = (int)i;
		if (id >= 0 && q.has_id && q.cur_id == id && same_id < 0) same_id = (int)i;
		if (!q.has_id && unsent < 0) unsent = (int)i;
	}
	return same_id >= 0 ? same_id : unsent >= 0 ? unsent : open >= 0 ? open : any;
}

static void c36_check_query(const std::string &pkt, bool tcp, int nsidx, dw::Msg &m, bool &ok) {
	std::string why;
	bool prule = true;
	size_t used = 0;
	ok = dw::decode(pkt, m, &why, &prule, nullptr, &used);
	if (!ok) { V("C36", "C36.malformed-query", "nameserver %d received %zu bytes that do not decode as a DNS message (%s): %s", nsidx, pkt.size(), why.c_str(), hexs(pkt, 40).c_str()); return; }
	if (used != pkt.size()) V("C36", "C36.trailing-bytes", "query has %zu bytes after the last record", pkt.size() - used);
	if (m.flags & dw::F_QR) V("C36", "C36.query-flags", "query has QR set (flags 0x%04x)", m.flags);
	else if (m.flags & dw::F_OPMASK) V("C36", "C36.query-flags", "query opcode is not QUERY (flags 0x%04x)", m.flags);
	else if (!(m.flags & dw::F_RD)) V("C36", "C36.query-flags", "query without recursion desired (flags 0x%04x)", m.flags);
	if (m.q.size() != 1) { V("C36", "C36.question-count", "query carries %zu questions", m.q.size()); ok = false; return; }
	if (!m.an.empty() || !m.ns.empty()) V("C36", "C36.query-sections", "query carries answer/authority records");
	// the packet of a request is built when the request (or its search / TCP successor) is made: the size in force then or now
	// the packet of a request is built when the request (or its search / TCP successor) is made: any size that was in force
	// between the moment the request was made and now
	std::set<int> sizes = {R->edns};
	bool internal_probe = false;	// the library's own "is the nameserver back" query: made at a time the harness does not see
	if (m.q.size() == 1) {
		int ri = match_request(m.q[0].name, m.q[0].type, m.id);
		if (ri >= 0) { sizes.insert(R->reqs[ri].edns); for (auto &h : R->edns_hist) if (h.first >= R->reqs[ri].t_submit) sizes.insert(h.second); }
		else internal_probe = lc(dw::dotted(m.q[0].name)) == "google.com";
	}
	int nopt = 0;
	for (auto &r : m.ar) if (r.type == dw::T_OPT) {
		nopt++;
		if (!r.name.empty()) V("C36", "C36.opt-record", "OPT record owner name is not the root");
		if (!sizes.count((int)r.cls) && !internal_probe) V("C36", "C36.opt-record", "OPT record advertises %u bytes, configured edns-udp-size is %d", r.cls, R->edns);
	}
	if ((size_t)nopt != m.ar.size()) V("C36", "C36.query-sections", "query carries additional records other than OPT");
	bool okp = false;
	for (int e : sizes) if ((e > 512) ? nopt == 1 : nopt == 0) okp = true;
	if (!okp && !internal_probe) V("C36", "C36.opt-presence", "query has %d OPT record(s), edns-udp-size is %d", nopt, R->edns);
	const dw::Name &qn = m.q[0].name;
	for (auto &lab : qn) if (lab.empty()) V("C36", "C36.empty-label", "question name has an empty label");
	if (dw::wire_len(qn) > 255) V("C36", "C36.name-too-long", "question name takes %zu octets on the wire", dw::wire_len(qn));
	if (m.q[0].cls != dw::C_IN) V("C36", "C36.question-class", "question class %u", m.q[0].cls);
	(void)tcp;
}

static std::string build_reply(const dw::Msg &q, const Behav &bh, int qtype, bool over_tcp) {
	dw::Msg r;
	r.id = q.id;
	r.flags = dw::F_QR | dw::F_RA | (q.flags & dw::F_RD);
	r.q = q.q;
	const dw::Name &qn = q.q[0].name;
	std::string l = lc(dw::dotted(qn));
	int n = 1;
	uint32_t ttl = 300;
	dw::Name owner = qn;
	auto add_answers = [&](int count, uint32_t t) {
		for (int k = 0; k < count; k++) {
			dw::RR rr;
			rr.name = owner;
			rr.type = qtype;
			rr.ttl = t + (uint32_t)k;	// the first record has the smallest TTL
			if (qtype == dw::T_A) rr.rdata = dw::a_rdata(addr_of(l, k));
			else if (qtype == dw::T_AAAA) rr.rdata = addr6_of(l, k);
			else { rr.has_rname = true; rr.rname = dw::name_from_dotted("host" + std::to_string(k) + "." + (l.size() > 40 ? l.substr(l.size() - 40) : l)); if (k > 0) break; }
			r.an.push_back(rr);
		}
	};
	switch (bh.kind) {
	case B_RCODE: r.flags |= (uint16_t)(bh.a & 15); if ((bh.a & 15) == 0) add_answers(1, 60); break;
	case B_TC: if (!over_tcp) { r.flags |= dw::F_TC; break; } add_answers(2, 120); break;
	case B_NODATA: {
		dw::RR soa;
		soa.name = dw::Name(qn.size() > 1 ? qn.begin() + 1 : qn.begin(), qn.end());
		soa.type = dw::T_SOA;
		soa.ttl = 900;
		dw::Enc e; e.compress = false;
		e.name(dw::name_from_dotted("ns.invalid")); e.name(dw::name_from_dotted("root.invalid"));
		e.u32(1); e.u32(2); e.u32(3); e.u32(4); e.u32((uint32_t)(bh.a > 0 ? bh.a : 77));
		soa.rdata = e.out;
		r.ns.push_back(soa);
		break;
	}
	case B_OTHER_TYPE: {
		dw::RR rr; rr.name = qn; rr.type = qtype == dw::T_A ? dw::T_AAAA : dw::T_A; rr.ttl = 50;
		rr.rdata = rr.type == dw::T_A ? dw::a_rdata(addr_of(l, 0)) : addr6_of(l, 0);
		r.an.push_back(rr);
		dw::RR tx; tx.name = qn; tx.type = dw::T_TXT; tx.ttl = 5; tx.rdata = std::string("\x03" "abc", 4); r.an.push_back(tx);
		break;
	}
	case B_BIG: n = (int)std::max<int64_t>(2, std::min<int64_t>(bh.a, 60)); add_answers(n, 1000); break;
	case B_CNAME: {
		int chain = (int)std::max<int64_t>(1, std::min<int64_t>(bh.a, 3));
		dw::Name cur = qn;
		for (int c = 0; c < chain; c++) {
			dw::RR cn; cn.name = cur; cn.type = dw::T_CNAME; cn.ttl = 30 + (uint32_t)c; cn.has_rname = true;
			cn.rname = dw::name_from_dotted("alias" + std::to_string(c) + ".cname.test");
			r.an.push_back(cn);
			cur = cn.rname;
		}
		owner = cur;
		add_answers((int)std::max<int64_t>(1, bh.b % 4), 200);
		break;
	}
	default:
		n = bh.kind == B_ANSWER ? (int)std::max<int64_t>(1, std::min<int64_t>(bh.a ? bh.a : 1, 8)) : 1;
		ttl = bh.kind == B_ANSWER && bh.b > 0 ? (uint32_t)bh.b : 300;
		add_answers(n, ttl);
		break;
	}
	return dw::encode(r, true);
}

// adversarial edits of an otherwise valid reply; the reference reader decides afterwards what the result may be
static std::string mutate(std::string b, int kind, int64_t param, const dw::Msg &q) {
	auto put16 = [&](size_t off, unsigned v) { if (off + 2 <= b.size()) { b[off] = (char)(v >> 8); b[off + 1] = (char)v; } };
	auto get16 = [&](size_t off) -> unsigned { return off + 2 <= b.size() ? (((unsigned char)b[off] << 8) | (unsigned char)b[off + 1]) : 0; };
	size_t qend = 12 + dw::wire_len(q.q[0].name) + 4;	// first byte after the (uncompressed) question
	switch (kind % 14) {
	case 0: if (!b.empty()) { size_t o = (size_t)param % b.size(); b[o] = (char)(b[o] ^ (1 << (param / 7 % 8))); } break;
	case 1: b.resize((size_t)param % (b.size() + 1)); break;
	case 2: put16(0, get16(0) ^ (1 + (unsigned)(param % 0xfffe))); break;	// wrong id
	case 3: if (b.size() > 13) { b[13] = (char)(b[13] == 'z' ? 'y' : b[13] + 1); } break;	// first letter of the question name changed
	case 4: put16(2, get16(2) & ~dw::F_QR); break;	// not a response
	case 5: put16(6, get16(6) + 1 + (unsigned)(param % 3)); break;	// ANCOUNT claims more records than present
	case 6: if (qend + 2 <= b.size()) { b[qend] = (char)0xc0; b[qend + 1] = (char)qend; } break;	// owner name of the first answer points at itself
	case 7: {	// RDLENGTH of the first answer lies
		size_t rdl = qend + 2 + 8;
		if (rdl + 2 <= b.size()) put16(rdl, get16(rdl) + (unsigned)(param % 5 == 0 ? 0x7000 : 1 + param % 9));
		break;
	}
	case 8: {	// two CNAME records in front of the answers
		dw::Msg m;
		if (dw::decode(b, m)) {
			for (int c = 0; c < 2; c++) { dw::RR cn; cn.name = m.q[0].name; cn.type = dw::T_CNAME; cn.ttl = 7; cn.has_rname = true; cn.rname = dw::name_from_dotted(c ? "second.cname.test" : "first.cname.test"); m.an.insert(m.an.begin(), cn); }
			b = dw::encode(m, true);
		}
		break;
	}
	case 9: if (qend + 2 <= b.size()) { b[qend] = (char)0xff; b[qend + 1] = (char)0xff; } break;	// pointer far outside the message
	case 10: put16(4, 0); b.erase(12, std::min(b.size() - 12, qend - 12)); break;	// question section removed
	case 11: if (qend < b.size()) b[qend] = (char)(0x40 | (param & 0x3f)); break;	// reserved label type
	case 12: b.append(std::string((size_t)(param % 40), (char)(param & 0xff))); break;	// trailing bytes
	case 13: {	// a label length that runs past the end
		if (qend < b.size()) b[qend] = (char)63;
		break;
	}
	}
	return b;
}

static void send_reply(int nsidx, Ns::Conn *conn, const sockaddr_storage &from, socklen_t fromlen, const std::string &bytes, bool from_aux, int64_t delay_ns,
    int close_at /* tcp: close after this many bytes of the framed reply, -1 none */, bool rst) {
	Ns &ns = R->ns[nsidx];
	if (conn) {
		std::string framed;
		framed += (char)(bytes.size() >> 8);
		framed += (char)bytes.size();
		framed += bytes;
		vk::Endpoint *ep = conn->ep;
		auto doit = [ep, conn, framed, close_at, rst]() {
			if (!conn->open || !vk::ep_open(ep)) return;
			if (rst) { conn->open = false; vk::ep_reset(ep); return; }
			std::string part = close_at >= 0 ? framed.substr(0, std::min<size_t>((size_t)close_at, framed.size())) : framed;
			// arbitrary segmentation of the stream
			std::vector<size_t> cuts;
			for (size_t c = 1; c < part.size(); c++) if (G.net.chance(0.15)) cuts.push_back(c);
			if (!part.empty()) vk::ep_send_cut(ep, part, cuts, 1000);
			if (close_at >= 0) { conn->open = false; vk::ep_shutdown(ep); vk::ep_close(ep); }
		};
		if (delay_ns > 0) vk::after(delay_ns, doit); else doit();
		return;
	}
	vk::Endpoint *src = from_aux ? ns.aux : ns.udp;
	sockaddr_storage to = from;
	auto doit = [src, bytes, to, fromlen]() { vk::ep_sendto(src, bytes, (const sockaddr *)&to, fromlen); };
	if (delay_ns > 0) vk::after(delay_ns, doit); else doit();
}

static void ns_on_query(int nsidx, const std::string &pkt, Ns::Conn *conn, const sockaddr_storage &from, socklen_t fromlen) {
	Ns &ns = R->ns[nsidx];
	if (stop()) return;
	dw::Msg q;
	bool ok = false;
	c36_check_query(pkt, conn != nullptr, nsidx, q, ok);
	tr("ns%d query %s id=%u n=%zu ok=%d name=%s type=%u", nsidx, conn ? "tcp" : "udp", q.id, pkt.size(), ok, ok ? dw::dotted(q.q[0].name).c_str() : "?", ok ? q.q[0].type : 0);
	if (!ok || stop()) return;
	R->queries_seen++;
	int qtype = q.q[0].type;
	int ri = match_request(q.q[0].name, qtype, q.id);
	std::string lname = lc(dw::dotted(q.q[0].name));
	bool probe_query = lname == "google.com" && ri < 0;
	if (ri < 0 && !probe_query) {
		V("C36", "C36.unrequested-name", "nameserver %d was asked for %s type %d, which no request made through the API explains", nsidx, lname.c_str(), qtype);
		return;
	}
	if (ri >= 0) {
		Req &rq = R->reqs[ri];
		rq.nqueries++;
		rq.t_last_query = G.now_ns;
		// case: with randomize-case off the name must be written exactly as requested
		size_t pos = std::find(rq.expect.begin(), rq.expect.end(), lname) - rq.expect.begin();
		bool other_rc = false;	// another request for the same name made while randomize-case was on: the query may be its
		for (auto &o : R->reqs) if (o.qtype == qtype && o.rc && std::find(o.expect.begin(), o.expect.end(), lname) != o.expect.end()) other_rc = true;
		if (!R->randomize_case && !rq.rc && !other_rc && pos == 0 && rq.search_pos <= 0 && rq.kind <= K_AAAA) {
			std::string want = rq.name;
			while (!want.empty() && want.back() == '.') want.pop_back();
			if (rq.expect.size() == 1 && dw::dotted(q.q[0].name) != want && lc(want) == lname)
				V("C36", "C36.case-changed", "randomize-case is off, requested '%s', the query says '%s'", want.c_str(), dw::dotted(q.q[0].name).c_str());
		}
		if (rq.nqueries > 1) R->non_first_try++;
		if (!rq.encodable) V("C36", "C36.invalid-name-transmitted", "request %d: the name '%s' cannot be written as valid labels, yet a query for it was transmitted", ri, rq.name.size() > 80 ? (rq.name.substr(0, 80) + "...").c_str() : rq.name.c_str());
		if (conn) probe("query-over-tcp");
	}
	if (!ns.up) { tr("ns%d down: dropped", nsidx); fault("ns.down"); return; }
	Behav bh;
	if (!ns.script.empty() && !R->settling) { bh = ns.script.front(); ns.script.pop_front(); }
	if (probe_query && bh.kind == B_MUTATE) bh.kind = B_ANSWER;
	static const char *const bn[B_N] = {"answer", "drop", "delay", "rcode", "tc", "mutate", "dup", "nodata", "tcp-close-at", "tcp-rst", "other-type", "big", "cname"};
	fault((std::string("ns.") + bn[bh.kind]).c_str());
	tr("ns%d behaviour %s a=%lld b=%lld", nsidx, bn[bh.kind], (long long)bh.a, (long long)bh.b);
	if (bh.kind == B_DROP) return;
	std::string bytes = build_reply(q, bh, qtype, conn != nullptr);
	bool from_aux = false;
	int64_t delay = 0;
	int close_at = -1;
	bool rst = false;
	if (bh.kind == B_DELAY) delay = std::max<int64_t>(0, bh.a) * 1000000;
	if (bh.kind == B_MUTATE) {
		if (bh.a % 15 == 14) from_aux = !conn;	// a reply from an address that is not the nameserver's
		else bytes = mutate(bytes, (int)(bh.a % 15), bh.b, q);
	}
	if (bh.kind == B_TCP_CLOSE_AT && conn) close_at = (int)(bh.a % (bytes.size() + 3));
	if (bh.kind == B_TCP_RST && conn) rst = true;
	SentReply sr;
	// a datagram larger than the resolver's receive buffer (edns-udp-size, 512 by default) arrives cut to that size
	sr.bytes = bytes;
	sr.udp_limit = conn ? 0 : (size_t)R->edns;
	sr.from_ok = !from_aux;
	sr.tcp = conn != nullptr;
	sr.ns = nsidx;
	sr.q_id = q.id;
	sr.q_name = q.q[0].name;
	sr.q_type = (uint16_t)qtype;
	sr.complete = !rst && (close_at < 0 || (size_t)close_at >= bytes.size() + 2);
	sr.t_sent = G.now_ns;
	R->sent.push_back(sr);
	if (ri >= 0) R->reqs[ri].replies.push_back((int)R->sent.size() - 1);
	send_reply(nsidx, conn, from, fromlen, bytes, from_aux, delay, close_at, rst);
	if (bh.kind == B_DUP) send_reply(nsidx, conn, from, fromlen, bytes, false, std::max<int64_t>(1, bh.a) * 1000000, -1, false);
}

// C34: transaction ids, judged at the moment a query leaves the resolver (what arrives later may be a stale datagram)
static void on_query_sent(const std::string &pkt) {
	dw::Msg m;
	if (stop() || !dw::decode(pkt, m) || m.q.size() != 1 || (m.flags & dw::F_QR)) return;
	int ri = match_request(m.q[0].name, m.q[0].type, m.id);
	if (ri < 0) return;
	Req &rq = R->reqs[ri];
	if (rq.ncb || rq.dropped_by_free) return;
	{
		// search order, judged when the query leaves the resolver: positions never go back and never skip a candidate
		std::string lname = lc(dw::dotted(m.q[0].name));
		size_t pos = std::find(rq.expect.begin(), rq.expect.end(), lname) - rq.expect.begin();
		if ((int)pos < rq.search_pos) V("C36", "C36.search-order", "request %d: query for candidate %zu ('%s') after candidate %d had been tried", ri, pos, lname.c_str(), rq.search_pos);
		else if ((int)pos > rq.search_pos + 1) V("C36", "C36.search-order", "request %d: query for candidate %zu ('%s') skips candidate %d", ri, pos, lname.c_str(), rq.search_pos + 1);
		if ((int)pos > rq.search_pos) { if (rq.search_pos >= 0) { probe("search-list-step"); R->non_first_try++; } rq.search_pos = (int)pos; }
	}
	if (rq.has_id && rq.cur_id != m.id) probe("transaction-id-changed");
	if (!rq.has_id || rq.cur_id != m.id || rq.id_epoch != R->epoch) rq.t_id_first = G.now_ns;
	rq.has_id = true;
	rq.cur_id = m.id;
	rq.id_epoch = R->epoch;
}
// evaluated before every wait of the loop: all deferred result callbacks have run by then, so a request without a callback
// (and not cancelled, not failed by evdns_base_free) is in flight inside the library
static void check_ids_unique() {
	if (stop() || !R->dns || R->dns_freed) return;
	std::map<uint16_t, int> owner;
	int open = 0;
	for (size_t i = 0; i < R->reqs.size(); i++) {
		Req &q = R->reqs[i];
		if (q.kind == K_GAI || q.ncb || q.dropped_by_free || q.failed_by_free || !q.has_id || q.id_epoch != R->epoch) continue;
		if (q.parent >= 0 ? (R->reqs[q.parent].cancelled || R->reqs[q.parent].ncb) : q.cancelled) continue;
		// the sub-questions of a getaddrinfo finish inside the library: one counts as in flight only while no reply has been
		// sent for it and its first timeout cannot have passed
		// (the same holds for a request with search candidates or a TCP fallback ahead of it: an answer may have moved it on to
		// a successor that is still waiting for a free slot and has no id yet)
		bool answered = false;	// (a retransmission keeps the id: an older reply, maybe still unread in the socket, can complete it)
		for (int x : q.replies) if (R->sent[x].q_id == q.cur_id) answered = true;
		// (1 ms of slack: the library's timers count in microseconds from a cached clock)
		if (answered || G.now_ns - q.t_id_first >= std::min<int64_t>(R->timeout_ms, R->min_timeout_ms) * 1000000 - 1000000) continue;
		open++;
		auto ins = owner.emplace(q.cur_id, (int)i);
		if (!ins.second) {
			Req &o = R->reqs[ins.first->second];
			V("C34", "C34.transaction-id-shared", "requests %d ('%s' type %d) and %zu ('%s' type %d) are both in flight with transaction id %u", ins.first->second, o.name.substr(0, 40).c_str(), o.qtype, i, q.name.substr(0, 40).c_str(), q.qtype, q.cur_id);
			return;
		}
	}
	if (open >= 3 && vk::rng_byte_mask != 0xff) probe("three-in-flight-with-few-ids");
}
static std::map<int, std::string> g_tcp_out;	// per fd: bytes written by the resolver, cut into length-prefixed queries
static void on_stream_tap(int fd, bool out, const char *p, size_t n) {
	if (!out || !R) return;
	std::string &b = g_tcp_out[fd];
	b.append(p, n);
	while (b.size() >= 2) {
		size_t l = ((unsigned char)b[0] << 8) | (unsigned char)b[1];
		if (b.size() < 2 + l) break;
		on_query_sent(b.substr(2, l));
		b.erase(0, 2 + l);
	}
}

static void ns_tcp_data(int nsidx, Ns::Conn *c, const std::string &d) {
	c->in += d;
	while (c->in.size() >= 2) {
		size_t l = ((unsigned char)c->in[0] << 8) | (unsigned char)c->in[1];
		if (c->in.size() < 2 + l) break;
		std::string pkt = c->in.substr(2, l);
		c->in.erase(0, 2 + l);
		sockaddr_storage none{};
		ns_on_query(nsidx, pkt, c, none, 0);
		if (!c->open) break;
	}
}

static void ns_start(int i) {
	Ns &ns = R->ns[i];
	ns.addr = vk::addr4(0x7f000001, (uint16_t)(5300 + i));
	vk::EndpointCbs cbs;
	cbs.on_dgram = [i](vk::Endpoint *, const std::string &d, const sockaddr_storage &from, socklen_t fl) { ns_on_query(i, d, nullptr, from, fl); };
	ns.udp = vk::ep_dgram((sockaddr *)&ns.addr, sizeof ns.addr, cbs);
	sockaddr_in aux = vk::addr4(0x7f000002, (uint16_t)(5390 + i));	// another host (the resolver compares addresses, not ports)
	ns.aux = vk::ep_dgram((sockaddr *)&aux, sizeof aux, vk::EndpointCbs());
	ns.tcp_l = vk::ep_listen((sockaddr *)&ns.addr, sizeof ns.addr, [i](vk::Endpoint *conn) {
		Ns::Conn *c = new Ns::Conn{conn, "", true};
		R->ns[i].conns.push_back(c);
		vk::EndpointCbs cb;
		cb.on_data = [i, c](vk::Endpoint *, const std::string &d) { if (c->open) ns_tcp_data(i, c, d); };
		cb.on_eof = [c](vk::Endpoint *e) { if (c->open) { c->open = false; vk::ep_close(e); } };
		cb.on_reset = [c](vk::Endpoint *) { c->open = false; };
		vk::ep_set_cbs(conn, cb);
		probe("tcp-connection-accepted");
	});
}

// ---------------------------------------------------------------------------
// resolver-side callbacks and oracles
static void exec_op(const Op &op, int idx);

static bool addressed(const SentReply &s, const RefReply &rr) {
	return s.from_ok && s.complete && rr.header && rr.id == s.q_id && (rr.flags & dw::F_QR);
}

static void check_result(int ri, int result, char type, int count, int ttl, const void *addresses) {
	Req &q = R->reqs[ri];
	static const char want_type[4] = {DNS_IPv4_A, DNS_IPv6_AAAA, DNS_PTR, DNS_PTR};
	if (type != want_type[q.kind]) { V("C33", "C33.result-type", "request %d (kind %d) reported with type %d", ri, q.kind, type); return; }
	if (result == DNS_ERR_TIMEOUT || result == DNS_ERR_CANCEL || result == DNS_ERR_SHUTDOWN) {
		if (count != 0 || addresses) V("C33", "C33.data-with-error", "request %d: error %d reported together with %d address(es)", ri, result, count);
		return;
	}
	bool any_addressed = false, explained = false;
	std::string why_not;
	// a datagram is cut to the receive buffer in force when it is read: the size at send time, or any size set since
	std::vector<std::pair<int, size_t>> cands;
	for (int si : q.replies) {
		const SentReply &s = R->sent[si];
		std::set<size_t> lims = {s.udp_limit};
		if (s.udp_limit) { lims.insert((size_t)R->edns); for (auto &h : R->edns_hist) if (h.first >= s.t_sent) lims.insert((size_t)h.second); }
		for (size_t l : lims) cands.push_back({si, l});
	}
	for (auto &cd : cands) {
		const SentReply &s = R->sent[cd.first];
		RefReply rr = ref_read(cd.second && s.bytes.size() > cd.second ? s.bytes.substr(0, cd.second) : s.bytes, q.qtype, s.q_name, R->randomize_case || q.rc);
		if (!addressed(s, rr)) continue;
		if (rr.qd || rr.header) R->parsed_beyond_header++;
		unsigned rcode = rr.flags & dw::F_RCODE;
		bool tc = rr.flags & dw::F_TC;
		bool for_me = (rcode || tc) ? (rr.question_match || !rr.question_present) : rr.question_match;
		// a question section that is syntactically odd (reserved label bits, which the resolver reads as a pointer) may be
		// ignored or may fail the request; it can never explain a success
		if (!for_me && rr.odd && !rr.question_present && !rr.bounds_error && result != DNS_ERR_NONE) { any_addressed = true; explained = true; probe("odd-question"); break; }
		if (!for_me) { why_not = "a reply with the right id was sent, but its question is '" + std::string(rr.question_present ? "different" : "missing") + "'"; continue; }
		any_addressed = true;
		if (result != DNS_ERR_NONE) {
			// which error may this reply lead to?
			bool has_answer = q.qtype == dw::T_PTR ? rr.have_ptr : !rr.addrs.empty();
			bool allows;
			if (rr.bounds_error || rr.bad_rdlen || rr.odd) allows = true;	// unreadable or unusual: any error
			else if (rcode) { static const int map[6] = {0, DNS_ERR_FORMAT, DNS_ERR_SERVERFAILED, DNS_ERR_NOTEXIST, DNS_ERR_NOTIMPL, DNS_ERR_REFUSED}; allows = result == (rcode <= 5 ? map[rcode] : DNS_ERR_UNKNOWN); }
			else if (tc) allows = result == DNS_ERR_TRUNCATED;
			else if (!has_answer) allows = result == DNS_ERR_NODATA;
			else { allows = false; why_not = "a readable reply with " + std::to_string(q.qtype == dw::T_PTR ? 1 : rr.addrs.size()) + " record(s) of the queried type was sent for it"; }
			if (!allows) continue;
			explained = true;
			break;
		}
		// success: exactly what this reply says
		if (rcode || tc) continue;
		if (rr.bounds_error || rr.bad_rdlen) { why_not = "the reply's answer section reaches outside the message or has an impossible RDLENGTH"; continue; }
		if (rr.odd) { explained = true; probe("odd-reply-accepted"); break; }
		if (q.qtype == dw::T_PTR) {
			if (!rr.have_ptr) continue;
			const char *got = count == 1 && addresses ? *(const char *const *)addresses : nullptr;
			if (got && dw::dotted(rr.ptr) == got && (uint32_t)ttl <= rr.min_ttl) { explained = true; break; }
			why_not = "PTR name or TTL differs from the reply (reply says '" + dw::dotted(rr.ptr) + "' ttl " + std::to_string(rr.min_ttl) + ")";
		} else {
			size_t w = q.qtype == dw::T_A ? 4 : 16;
			if (rr.addrs.empty()) continue;
			bool same = (size_t)count == rr.addrs.size() && addresses;
			for (size_t k = 0; same && k < rr.addrs.size(); k++) if (memcmp((const char *)addresses + k * w, rr.addrs[k].data(), w) != 0) same = false;
			if (same && (uint32_t)ttl <= rr.min_ttl) { explained = true; break; }
			why_not = same ? "TTL " + std::to_string(ttl) + " exceeds the smallest record TTL " + std::to_string(rr.min_ttl) : "the reply holds " + std::to_string(rr.addrs.size()) + " address(es), the callback got " + std::to_string(count) + " or different ones";
		}
	}
	if (explained) return;
	if (result == DNS_ERR_NONE)
		V("C33", "C33.result-not-in-any-reply", "request %d ('%s' type %d): success with %d record(s), ttl %d, which no reply sent for it justifies (%zu replies sent; %s)", ri, q.name.substr(0, 60).c_str(), q.qtype, count, ttl, q.replies.size(), why_not.c_str());
	else if (!any_addressed)
		V("C33", "C33.unmatched-reply-used", "request %d ('%s' type %d) failed with error %d (%s) although no reply carrying its id and question was sent and no timeout, cancel or shutdown happened (%zu replies sent; %s)", ri, q.name.substr(0, 60).c_str(), q.qtype, result, evdns_err_to_string(result), q.replies.size(), why_not.c_str());
	else
		V("C33", "C33.error-not-explained", "request %d ('%s' type %d): error %d (%s), but no reply sent for it says so (%zu replies sent; %s)", ri, q.name.substr(0, 60).c_str(), q.qtype, result, evdns_err_to_string(result), q.replies.size(), why_not.c_str());
}

static void run_ctx_ops(int ri) {
	std::vector<int> ops;
	ops.swap(R->reqs[ri].ctx_ops);
	for (int oi : ops) { if (stop()) break; probe("op-inside-callback"); exec_op(R->plan->ops[oi], oi); }
}

static void resolve_cb(int result, char type, int count, int ttl, void *addresses, void *arg) {
	int ri = (int)(intptr_t)arg;
	if (!R) return;
	Req &q = R->reqs[ri];
	tr("cb resolve req=%d result=%d type=%d count=%d ttl=%d", ri, result, type, count, ttl);
	if (stop()) return;
	if (!R->base) { V("C34", "C34.callback-after-base-free", "request %d: callback after the event base was freed", ri); return; }
	if (type == DNS_CNAME) {
		q.ncname_cb++;
		if (!(q.flags & DNS_CNAME_CALLBACK)) V("C33", "C33.cname-unrequested", "request %d: CNAME callback without DNS_CNAME_CALLBACK", ri);
		else if (q.ncb != 1 || q.ncname_cb > 1) V("C34", "C34.cname-callback-order", "request %d: CNAME callback number %d after %d result callbacks", ri, q.ncname_cb, q.ncb);
		else {
			bool found = false;
			for (int si : q.replies) { RefReply rr = ref_read(R->sent[si].bytes, q.qtype, R->sent[si].q_name, true); for (auto &c : rr.cnames) if (addresses && dw::dotted(c) == (const char *)addresses) found = true; if (rr.odd) found = true; }
			if (!found) V("C33", "C33.cname-not-in-reply", "request %d: reported CNAME '%s' is in no reply sent for it", ri, addresses ? (const char *)addresses : "(null)");
			probe("cname-reported");
		}
		return;
	}
	q.ncb++;
	q.h = nullptr;
	if (q.ncb > 1) { V("C34", "C34.callback-twice", "request %d: result callback number %d (result %d)", ri, q.ncb, result); return; }
	q.result = result;
	if (result == DNS_ERR_CANCEL && !q.cancelled) V("C34", "C34.cancel-not-requested", "request %d reported DNS_ERR_CANCEL but was never cancelled", ri);
	if (result == DNS_ERR_SHUTDOWN && !R->dns_freed) V("C34", "C34.shutdown-without-free", "request %d reported DNS_ERR_SHUTDOWN while the evdns base is alive", ri);
	if (q.cancelled && result == DNS_ERR_CANCEL) probe("cancelled");
	if (q.cancelled && result != DNS_ERR_CANCEL) probe("cancel-lost-to-pending-result");
	if (result == DNS_ERR_TIMEOUT) probe("request-timeout");
	if (result == DNS_ERR_SHUTDOWN) probe("shutdown-result");
	if (result != DNS_ERR_NONE || q.nqueries > 1) R->non_first_try++;
	check_result(ri, result, type, count, ttl, addresses);
	R->in_cb++;
	run_ctx_ops(ri);
	R->in_cb--;
}

// ---- getaddrinfo
static std::string sa_text(const sockaddr *sa) {
	char b[80] = "?";
	if (sa->sa_family == AF_INET) evutil_inet_ntop(AF_INET, &((const sockaddr_in *)sa)->sin_addr, b, sizeof b);
	else if (sa->sa_family == AF_INET6) evutil_inet_ntop(AF_INET6, &((const sockaddr_in6 *)sa)->sin6_addr, b, sizeof b);
	return b;
}
static std::string raw_text(const std::string &raw) {
	char b[80] = "?";
	evutil_inet_ntop(raw.size() == 4 ? AF_INET : AF_INET6, raw.data(), b, sizeof b);
	return b;
}

static void gai_check(int ri, int result, struct evutil_addrinfo *res) {
	Req &q = R->reqs[ri];
	if (result != 0) { if (res) V("C38", "C38.result-with-error", "getaddrinfo %d: error %d together with a result list", ri, result); return; }
	if (!res) { V("C38", "C38.empty-success", "getaddrinfo %d: success without any address", ri); return; }
	// sources: hosts file entries, else addressed well-formed answers to the two sub-questions (or a cached copy of them)
	std::string node = lc(q.name);
	std::vector<std::string> allowed4, allowed6;
	bool from_hosts = false, any_odd = false;
	auto hit = q.from_hosts_expected ? R->hosts.find(node) : R->hosts.end();
	if (q.numeric) {
		// numeric node: the address itself; NULL node: loopback, or the wildcard with AI_PASSIVE
		if (q.name.empty()) { allowed4 = {(q.gai_flags & EVUTIL_AI_PASSIVE) ? "0.0.0.0" : "127.0.0.1"}; allowed6 = {(q.gai_flags & EVUTIL_AI_PASSIVE) ? "::" : "::1"}; }
		else {
			unsigned char buf[16]; char txt[80];
			if (evutil_inet_pton(AF_INET, q.name.c_str(), buf) == 1) allowed4 = {evutil_inet_ntop(AF_INET, buf, txt, sizeof txt)};
			else if (evutil_inet_pton(AF_INET6, q.name.c_str(), buf) == 1) allowed6 = {evutil_inet_ntop(AF_INET6, buf, txt, sizeof txt)};
		}
	} else if (hit != R->hosts.end()) {
		from_hosts = true;
		for (auto &a : hit->second) (a.find(':') == std::string::npos ? allowed4 : allowed6).push_back(a);
	} else {
		// (several getaddrinfo requests for one node may be in flight: an answer for (name, type) can serve any of them)
		for (size_t si = 0; si < R->reqs.size(); si++) {
			Req &sq = R->reqs[si];
			if (sq.parent < 0 || lc(sq.name) != node) continue;
			int k = sq.kind == K_A ? 0 : 1;
			if (q.sub[k] < 0) continue;
			// the last addressed, successful reply wins (it is the one the resolver acted on, earlier ones failed or were lost)
			for (int x : sq.replies) {
				const SentReply &s = R->sent[x];
				RefReply rr = ref_read(s.bytes, sq.qtype, s.q_name, true);
				if (!addressed(s, rr) || !rr.question_match || (rr.flags & (dw::F_RCODE | dw::F_TC)) || rr.bounds_error || rr.bad_rdlen) continue;
				if (rr.odd) any_odd = true;	// an unusual but readable reply: what the resolver takes from it is not pinned down
				for (auto &a : rr.addrs) (k == 0 ? allowed4 : allowed6).push_back(raw_text(a));
			}
		}
		auto ce = R->cache.find(node);
		if (ce != R->cache.end()) for (auto &alt : ce->second) { for (auto &a : alt.v4) allowed4.push_back(a); for (auto &a : alt.v6) allowed6.push_back(a); }
	}
	int n4 = 0, n6 = 0;
	bool seen6 = false;
	for (struct evutil_addrinfo *ai = res; ai; ai = ai->ai_next) {
		if (!ai->ai_addr) { V("C38", "C38.null-address", "getaddrinfo %d: entry without an address", ri); return; }
		int f = ai->ai_addr->sa_family;
		std::string t = sa_text(ai->ai_addr);
		int port = f == AF_INET ? ntohs(((sockaddr_in *)ai->ai_addr)->sin_port) : ntohs(((sockaddr_in6 *)ai->ai_addr)->sin6_port);
		if (f == AF_INET) { n4++; if (seen6 && !from_hosts) probe("v4-after-v6"); } else { n6++; seen6 = true; }
		if ((q.fam == 1 && f != AF_INET) || (q.fam == 2 && f != AF_INET6)) { V("C38", "C38.family-hint", "getaddrinfo %d: family hint %d but an address of family %d (%s) was returned", ri, q.fam, f, t.c_str()); return; }
		auto &al = f == AF_INET ? allowed4 : allowed6;
		if (std::find(al.begin(), al.end(), t) == al.end() && !any_odd) { V("C38", "C38.address-from-nowhere", "getaddrinfo %d ('%s'): returned %s, which is neither in the hosts file nor in any answer sent for it", ri, q.name.c_str(), t.c_str()); return; }
		if (port != q.port) { V("C38", "C38.port", "getaddrinfo %d: port %d, the service says %d", ri, port, q.port); return; }
		if (ai->ai_family != f) { V("C38", "C38.ai-family", "getaddrinfo %d: ai_family %d for an address of family %d", ri, ai->ai_family, f); return; }
		if (q.socktype && ai->ai_socktype != q.socktype) { V("C38", "C38.socktype", "getaddrinfo %d: ai_socktype %d, hint %d", ri, ai->ai_socktype, q.socktype); return; }
		if (q.socktype == SOCK_STREAM && ai->ai_protocol != IPPROTO_TCP) { V("C38", "C38.protocol", "getaddrinfo %d: SOCK_STREAM with protocol %d", ri, ai->ai_protocol); return; }
		if (q.socktype == SOCK_DGRAM && ai->ai_protocol != IPPROTO_UDP) { V("C38", "C38.protocol", "getaddrinfo %d: SOCK_DGRAM with protocol %d", ri, ai->ai_protocol); return; }
	}
	R->gai_compared++;
	if (!q.submitted && !from_hosts && !q.numeric && !(q.gai_flags & EVUTIL_AI_NUMERICHOST)) {
		// answered at once without hosts entry: from the cache; it must be the whole cached answer (of the hinted families)
		auto ce = R->cache.find(node);
		if (ce != R->cache.end()) {
			std::set<std::string> got;
			for (struct evutil_addrinfo *ai = res; ai; ai = ai->ai_next) got.insert(sa_text(ai->ai_addr));
			bool any_valid = false, match = false;
			std::string detail;
			for (auto &alt : ce->second) {
				if (alt.expiry_ns <= G.now_ns) continue;
				any_valid = true;
				std::set<std::string> want;
				if (q.fam != 2) for (auto &a : alt.v4) want.insert(a);
				if (q.fam != 1) for (auto &a : alt.v6) want.insert(a);
				if (want == got) match = true;
				else { detail += (detail.empty() ? "" : " | "); detail += "a cached answer has " + std::to_string(want.size()) + " address(es); missing:"; for (auto &a : want) if (!got.count(a)) detail += " " + a; detail += "; extra:"; for (auto &a : got) if (!want.count(a)) detail += " " + a; }
			}
			if (any_valid) probe("cache-hit");
			if (any_valid && !match && !any_odd)
				V("C38", "C38.cache-answer-differs", "getaddrinfo %d ('%s'): answered from the cache with %zu address(es); %s", ri, q.name.c_str(), got.size(), detail.c_str());
		}
	}
	{
		// each address once per socket type the hints allow (two when the type is left open)
		std::map<std::string, int> cnt;
		for (struct evutil_addrinfo *ai = res; ai; ai = ai->ai_next) cnt[sa_text(ai->ai_addr)]++;
		int mult = q.socktype ? 1 : 2;
		if (!(q.gai_flags & EVUTIL_AI_NUMERICHOST)) for (auto &kv : cnt) if (kv.second != mult && !stop()) { V("C38", "C38.duplicate-address", "getaddrinfo %d ('%s'): %s appears %d time(s), expected %d", ri, q.name.c_str(), kv.first.c_str(), kv.second, mult); break; }
	}
	if (from_hosts) {
		probe("hosts-hit");
		size_t want = ((q.fam != 2 ? allowed4.size() : 0) + (q.fam != 1 ? allowed6.size() : 0)) * (q.socktype ? 1 : 2);
		if ((size_t)(n4 + n6) != want) V("C38", "C38.hosts-entries", "getaddrinfo %d ('%s'): the hosts file has %zu matching entries for the hinted family, %d were returned", ri, q.name.c_str(), want, n4 + n6);
	}
}

static void gai_cb(int result, struct evutil_addrinfo *res, void *arg) {
	int ri = (int)(intptr_t)arg;
	if (!R) { if (res) evutil_freeaddrinfo(res); return; }
	Req &q = R->reqs[ri];
	int n = 0;
	for (struct evutil_addrinfo *ai = res; ai; ai = ai->ai_next) n++;
	tr("cb getaddrinfo req=%d result=%d entries=%d", ri, result, n);
	if (stop()) { if (res) evutil_freeaddrinfo(res); return; }
	if (!R->base) { V("C34", "C34.callback-after-base-free", "getaddrinfo %d: callback after the event base was freed", ri); return; }
	q.ncb++;
	q.gh = nullptr;
	for (int k = 0; k < 2; k++) if (q.sub[k] >= 0) R->reqs[q.sub[k]].ncb = 1;
	if (q.ncb > 1) { V("C34", "C34.callback-twice", "getaddrinfo %d: callback number %d (result %d)", ri, q.ncb, result); if (res) evutil_freeaddrinfo(res); return; }
	q.result = result;
	if (result == EVUTIL_EAI_CANCEL && !q.cancelled) V("C34", "C34.cancel-not-requested", "getaddrinfo %d reported EVUTIL_EAI_CANCEL but was never cancelled", ri);
	if (q.cancelled && result == EVUTIL_EAI_CANCEL) probe("getaddrinfo-cancelled");
	if (result != 0) R->non_first_try++;
	gai_check(ri, result, res);
	if (result == 0 && res && !stop()) {
		// model of the cache: what a later lookup may be answered from, and until when at the latest
		std::string node = lc(q.name);
		if (!R->no_cache && !q.from_hosts_expected && !q.numeric) {
			uint32_t maxttl = 0;
			// (replies for this node may have been booked on the sub-questions of another getaddrinfo for the same node)
			for (auto &sq : R->reqs) if (sq.parent >= 0 && lc(sq.name) == node) for (int x : sq.replies) {
				RefReply rr = ref_read(R->sent[x].bytes, sq.qtype, R->sent[x].q_name, true);
				if (rr.min_ttl != 0xffffffffu) maxttl = std::max(maxttl, rr.min_ttl + 64);
			}
			if (q.submitted) {	// a network answer: it may have replaced what was cached, or (delivered by the allow-skew timer) not
				Run::CacheEnt ce;
				ce.expiry_ns = G.now_ns + (int64_t)maxttl * NS;
				for (struct evutil_addrinfo *ai = res; ai; ai = ai->ai_next) (ai->ai_addr->sa_family == AF_INET ? ce.v4 : ce.v6).push_back(sa_text(ai->ai_addr));
				auto &alts = R->cache[node];
				alts.push_back(ce);
				if (alts.size() > 6) alts.erase(alts.begin());
			}
		}
	}
	if (res) evutil_freeaddrinfo(res);
	R->in_cb++;
	run_ctx_ops(ri);
	R->in_cb--;
}

// ---------------------------------------------------------------------------
static std::string make_name(int shape, int idx) {
	std::string u = "r" + std::to_string(idx);
	auto rep = [](size_t n, char c) { return std::string(n, c); };
	switch (shape) {
	case 0: return u + ".test";
	case 1: return u;
	case 2: return u + ".sub.example.test";
	case 3: return "R" + std::to_string(idx) + ".MiXeD.TeSt";
	case 4: return u + ".test.";
	case 5: return u + "." + rep(63, 'a') + ".test";
	case 6: return u + "." + rep(64, 'b') + ".test";
	case 7: case 8: case 9: case 14: {	// total textual length 253 / 254 / 255 / 300, labels of 50
		size_t want = shape == 7 ? 253 : shape == 8 ? 254 : shape == 9 ? 255 : 300;
		std::string s = u;
		while (s.size() + 1 < want) { size_t k = std::min<size_t>(50, want - s.size() - 1); s += "." + rep(k, 'c'); }
		if (s.size() < want) s += "d";
		return s;
	}
	case 10: return u + "..test";
	case 11: return "." + u + ".test";
	case 12: return u + ".\xc3\xa9\xff.test";
	case 13: return u + ".a b\\c.test";
	case 15: return u + ".";
	default: return u + ".example.test";
	}
}
static bool encodable(const std::string &name) {
	std::string s = name;
	if (!s.empty() && s.back() == '.') s.pop_back();
	if (s.empty()) return false;
	size_t wire = 1, p = 0;
	while (p <= s.size()) {
		size_t d = s.find('.', p);
		if (d == std::string::npos) d = s.size();
		size_t l = d - p;
		if (l == 0 || l > 63) return false;
		wire += 1 + l;
		p = d + 1;
	}
	return wire <= 255;
}
static int num_dots(const std::string &s) { return (int)std::count(s.begin(), s.end(), '.'); }
static std::string strip_dot(std::string s) { if (!s.empty() && s.back() == '.') s.pop_back(); return s; }

static std::vector<std::string> expected_names(const std::string &name, bool use_search) {
	std::vector<std::string> v;
	if (!use_search || R->search.empty()) { v.push_back(lc(strip_dot(name))); return v; }
	auto with = [&](const std::string &dom) { return lc(strip_dot(name) + "." + dom); };
	if (num_dots(name) >= R->ndots) { v.push_back(lc(strip_dot(name))); for (auto &d : R->search) v.push_back(with(d)); }
	else { for (auto &d : R->search) v.push_back(with(d)); v.push_back(lc(strip_dot(name))); }
	return v;
}

static int live_req(int64_t v, bool gai_too) {
	std::vector<int> c;
	for (size_t i = 0; i < R->reqs.size(); i++) { Req &q = R->reqs[i]; if (q.parent < 0 && q.submitted && q.ncb == 0 && !q.cancelled && !q.dropped_by_free && (gai_too || q.kind != K_GAI)) c.push_back((int)i); }
	if (c.empty()) return -1;
	return c[(size_t)v % c.size()];
}

static const char *const opt_names[] = {"timeout:", "attempts:", "max-inflight:", "randomize-case:", "max-timeouts:", "edns-udp-size:", "use-vc:", "ignore-tc:", "initial-probe-timeout:", "getaddrinfo-allow-skew:", "tcp-idle-timeout:", "probe-backoff-factor:", "max-probe-timeout:"};
static const int n_opts = sizeof opt_names / sizeof opt_names[0];

static void set_option(int o, int64_t v) {
	char val[32] = "";
	o = ((o % n_opts) + n_opts) % n_opts;
	switch (o) {
	case 0: { static const char *tv[] = {"0.05", "0.5", "1", "5", "0.001"}; snprintf(val, sizeof val, "%s", tv[v % 5]); R->timeout_ms = (int64_t[]){50, 500, 1000, 5000, 1}[v % 5]; break; }
	case 1: snprintf(val, sizeof val, "%d", (int)(v % 5)); R->attempts = (int)(v % 5); break;
	// with transaction ids drawn from 4 (16) values the library's id search must find a free one: requests in flight plus
	// one probe per nameserver (probes bypass the limit) have to stay below that number
	case 2: { int m = (int)(1 + v % 8); if (vk::rng_byte_mask == 1) m = std::min(m, 2); else if (vk::rng_byte_mask != 0xff) m = std::min(m, 8); snprintf(val, sizeof val, "%d", m); R->max_inflight = m; break; }
	case 3: snprintf(val, sizeof val, "%d", (int)(v % 2)); R->randomize_case = v % 2; break;
	case 4: snprintf(val, sizeof val, "%d", (int)(1 + v % 4)); break;
	case 5: { int sz = (int[]){512, 513, 1232, 4096, 65535}[v % 5]; snprintf(val, sizeof val, "%d", sz); R->edns = sz; R->edns_hist.push_back({G.now_ns, sz}); break; }
	case 6: R->tcp_global_usevc = true; break;
	case 7: R->igntc_global = true; break;
	case 8: snprintf(val, sizeof val, "%s", (const char *[]){"0.1", "1", "10"}[v % 3]); break;
	case 9: snprintf(val, sizeof val, "%s", (const char *[]){"0.01", "0.5", "3"}[v % 3]); break;
	case 10: snprintf(val, sizeof val, "%s", (const char *[]){"0.2", "2", "10"}[v % 3]); break;
	case 11: snprintf(val, sizeof val, "%d", (int)(1 + v % 4)); break;
	case 12: snprintf(val, sizeof val, "%d", (int)(1 + v % 30)); break;
	}
	R->min_timeout_ms = std::min(R->min_timeout_ms, R->timeout_ms);
	int r = API(evdns_base_set_option(R->dns, opt_names[o], val));
	tr("api set_option %s%s -> %d", opt_names[o], val, r);
	if (r != 0) violation("C34.set-option", "evdns_base_set_option(%s, %s) failed", opt_names[o], val);
}

static void ns_add(int k) {
	Ns &ns = R->ns[k];
	int r = API(evdns_base_nameserver_sockaddr_add(R->dns, (sockaddr *)&ns.addr, sizeof ns.addr, 0));
	tr("api nameserver_add ns%d -> %d", k, r);
	if (r == 0) ns.added = true;
}

static void exec_op(const Op &op, int idx) {
	if (stop() || G.capped) return;
	if (op.ctx >= 0 && R->in_cb == 0) {
		// attach to a request that is still waiting for its outcome: runs inside that request's callback
		int ri = live_req(op.ctx, true);
		if (ri >= 0) { R->reqs[ri].ctx_ops.push_back(idx); return; }
	}
	bool dns_ok = R->dns && !R->dns_freed;
	switch (op.code) {
	case OP_RESOLVE: {
		if (!dns_ok) break;
		Req q;
		int ri = (int)R->reqs.size();
		q.kind = (int)(op.a[0] & 3);
		q.flags = 0;
		if (op.a[2] & 1) q.flags |= DNS_QUERY_NO_SEARCH;
		if (op.a[2] & 2) q.flags |= DNS_QUERY_USEVC;
		if (op.a[2] & 4) q.flags |= DNS_QUERY_IGNTC;
		if (op.a[2] & 8) q.flags |= DNS_CNAME_CALLBACK;
		q.t_submit = G.now_ns;
		q.rc = R->randomize_case;
		q.edns = R->edns;
		struct in_addr a4;
		struct in6_addr a6;
		if (q.kind == K_PTR4) {
			uint32_t a = 0x0a000000u + (uint32_t)ri * 257u + (uint32_t)(op.a[1] & 0xff);
			a4.s_addr = htonl(a);
			char b[64];
			snprintf(b, sizeof b, "%u.%u.%u.%u.in-addr.arpa", a & 255, (a >> 8) & 255, (a >> 16) & 255, a >> 24);
			q.name = b;
			q.qtype = dw::T_PTR;
		} else if (q.kind == K_PTR6) {
			memset(&a6, 0, sizeof a6);
			a6.s6_addr[0] = 0x20; a6.s6_addr[1] = 0x01; a6.s6_addr[14] = (uint8_t)(ri >> 8); a6.s6_addr[15] = (uint8_t)ri; a6.s6_addr[7] = (uint8_t)op.a[1];
			std::string s;
			for (int i = 15; i >= 0; i--) { char b[8]; snprintf(b, sizeof b, "%x.%x.", a6.s6_addr[i] & 15, a6.s6_addr[i] >> 4); s += b; }
			q.name = s + "ip6.arpa";
			q.qtype = dw::T_PTR;
		} else {
			q.name = make_name((int)(op.a[1] % 17), ri);
			q.qtype = q.kind == K_A ? dw::T_A : dw::T_AAAA;
		}
		q.encodable = encodable(q.name);
		bool use_search = q.kind <= K_AAAA && !(q.flags & DNS_QUERY_NO_SEARCH);
		q.expect = expected_names(q.name, use_search);
		if (use_search && !R->search.empty()) q.encodable = true;	// judged per candidate on the wire (c36_check_query)
		R->reqs.push_back(q);
		struct evdns_request *h = nullptr;
		void *arg = (void *)(intptr_t)ri;
		switch (q.kind) {
		case K_A: h = API(evdns_base_resolve_ipv4(R->dns, q.name.c_str(), q.flags, resolve_cb, arg)); break;
		case K_AAAA: h = API(evdns_base_resolve_ipv6(R->dns, q.name.c_str(), q.flags, resolve_cb, arg)); break;
		case K_PTR4: h = API(evdns_base_resolve_reverse(R->dns, &a4, q.flags, resolve_cb, arg)); break;
		default: h = API(evdns_base_resolve_reverse_ipv6(R->dns, &a6, q.flags, resolve_cb, arg)); break;
		}
		Req &rq = R->reqs[ri];
		rq.h = h;
		rq.submitted = h != nullptr;
		tr("api resolve req=%d kind=%d flags=0x%x name=%s -> %s", ri, rq.kind, rq.flags, rq.name.size() > 70 ? (rq.name.substr(0, 70) + "...").c_str() : rq.name.c_str(), h ? "handle" : "NULL");
		if (!h && rq.ncb != 0) V("C34", "C34.null-handle-with-callback", "request %d: the API returned NULL and also ran the callback", ri);
		if (!h && encodable(rq.expect[0]) && rq.name.size() < 250) V("C36", "C36.valid-name-refused", "request %d: '%s' is a valid name but the request was refused", ri, rq.name.c_str());
		if (!rq.encodable) probe("unencodable-name");
		if (!h) probe("request-refused");
		break;
	}
	case OP_GAI: {
		if (!dns_ok) break;
		Req q;
		int ri = (int)R->reqs.size();
		q.kind = K_GAI;
		q.t_submit = G.now_ns;
		int shape = (int)(op.a[0] % 8);
		bool null_node = false;
		switch (shape) {
		// C38: few distinct names, so that the cache and the hosts file are hit; elsewhere one name per request, so that a
		// query on the wire belongs to exactly one request
		case 0: case 1: case 2: q.name = "g" + std::to_string(R->plan->prop == "C38" ? op.a[5] % 4 : 100 + ri) + ".test"; break;
		case 3: q.name = "10.1.2." + std::to_string(ri % 250); q.numeric = true; break;
		case 4: q.name = "2001:db8::" + std::to_string(ri % 99); q.numeric = true; break;
		case 5: q.name = R->plan->prop == "C38" ? "hostsname" + std::to_string(op.a[5] % 3) : "h" + std::to_string(ri) + "name"; break;
		case 6: null_node = true; q.numeric = true; q.name = ""; break;
		default: q.name = "G" + std::to_string(R->plan->prop == "C38" ? op.a[5] % 4 : 100 + ri) + ".Test"; break;
		}
		static const int ports[] = {0, 80, 443, 65535};
		q.port = ports[op.a[1] % 4];
		char serv[16];
		snprintf(serv, sizeof serv, "%d", q.port);
		q.fam = (int)(op.a[2] % 3);
		q.socktype = (int[]){0, SOCK_STREAM, SOCK_DGRAM}[op.a[4] % 3];
		q.gai_flags = 0;
		if (op.a[3] & 1) q.gai_flags |= EVUTIL_AI_CANONNAME;
		if (op.a[3] & 2) q.gai_flags |= EVUTIL_AI_PASSIVE;
		if ((op.a[3] & 12) == 12) q.gai_flags |= EVUTIL_AI_NUMERICHOST;
		struct evutil_addrinfo hints;
		memset(&hints, 0, sizeof hints);
		hints.ai_family = q.fam == 1 ? PF_INET : q.fam == 2 ? PF_INET6 : PF_UNSPEC;
		hints.ai_socktype = q.socktype;
		hints.ai_flags = q.gai_flags;
		q.from_hosts_expected = !q.numeric && R->hosts.count(lc(q.name)) > 0;
		bool will_query = !q.numeric && !(q.gai_flags & EVUTIL_AI_NUMERICHOST) && !q.from_hosts_expected;
		R->reqs.push_back(q);
		if (will_query) {
			for (int k = 0; k < 2; k++) {
				if ((k == 0 && q.fam == 2) || (k == 1 && q.fam == 1)) continue;
				Req s;
				s.kind = k == 0 ? K_A : K_AAAA;
				s.qtype = k == 0 ? dw::T_A : dw::T_AAAA;
				s.name = q.name;
				s.parent = ri;
				s.expect = expected_names(q.name, true);
				s.encodable = true;
				s.submitted = false;
				s.rc = R->randomize_case;
				s.edns = R->edns;
				s.t_submit = G.now_ns;
				R->reqs[ri].sub[k] = (int)R->reqs.size();
				R->reqs.push_back(s);
			}
		}
		int q_before = R->queries_seen;
		struct evdns_getaddrinfo_request *gh = API(evdns_getaddrinfo(R->dns, null_node ? nullptr : R->reqs[ri].name.c_str(), op.a[1] % 5 == 4 ? nullptr : serv, &hints, gai_cb, (void *)(intptr_t)ri));
		Req &rq = R->reqs[ri];
		if (op.a[1] % 5 == 4) rq.port = 0;
		rq.gh = gh;
		rq.submitted = gh != nullptr;
		tr("api getaddrinfo req=%d node=%s port=%d fam=%d flags=0x%x socktype=%d -> %s ncb=%d", ri, null_node ? "(null)" : rq.name.c_str(), rq.port, rq.fam, rq.gai_flags, rq.socktype, gh ? "handle" : "NULL", rq.ncb);
		if (!gh && rq.ncb != 1) V("C34", "C34.immediate-outcome-count", "getaddrinfo %d returned NULL, so its outcome is immediate, but the callback ran %d time(s)", ri, rq.ncb);
		if (gh && rq.ncb != 0) V("C34", "C34.handle-after-callback", "getaddrinfo %d returned a handle although its callback has already run", ri);
		if (!gh) for (int k = 0; k < 2; k++) if (rq.sub[k] >= 0) R->reqs[rq.sub[k]].ncb = 1;
		if (rq.numeric || (rq.gai_flags & EVUTIL_AI_NUMERICHOST)) {
			probe("numeric-or-null-node");
			bool is6 = rq.name.find(':') != std::string::npos;
			if (!null_node && rq.numeric && !gh && ((is6 && rq.fam == 1) || (!is6 && rq.fam == 2)) && rq.result == 0)
				V("C38", "C38.family-hint", "getaddrinfo %d: '%s' with family hint %d succeeded", ri, rq.name.c_str(), rq.fam);
			if (gh) V("C38", "C38.numeric-needs-no-query", "getaddrinfo %d: numeric / NULL node, yet the request went asynchronous", ri);
			if (!gh && rq.numeric && rq.result == 0 && !null_node) {}
		}
		if (rq.from_hosts_expected && !(rq.gai_flags & EVUTIL_AI_NUMERICHOST)) {
			if (gh) V("C38", "C38.hosts-entry-ignored", "getaddrinfo %d: '%s' is in the hosts file, yet the request went to the network", ri, rq.name.c_str());
		}
		(void)q_before;
		break;
	}
	case OP_CANCEL: {
		if (!dns_ok) break;
		int ri = live_req(op.a[0], true);
		if (ri < 0) break;
		Req &q = R->reqs[ri];
		q.cancelled = true;
		tr("api cancel req=%d", ri);
		if (q.kind == K_GAI) APIV(evdns_getaddrinfo_cancel(q.gh));
		else APIV(evdns_cancel_request(R->dns, q.h));
		probe(R->in_cb ? "cancel-inside-callback" : "cancel");
		break;
	}
	case OP_NS_SCRIPT: {
		Ns &ns = R->ns[op.a[0] % R->nns];
		Behav b;
		b.kind = (int)(op.a[1] % B_N);
		b.a = op.a[2];
		b.b = op.a[3];
		if (ns.script.size() < 64) ns.script.push_back(b);
		break;
	}
	case OP_LOOP: {
		if (R->in_cb) break;
		int iters = (int)std::max<int64_t>(1, op.a[0] % 40);
		int64_t until = G.now_ns + std::max<int64_t>(0, op.a[1]) * 1000000;
		for (int k = 0; k < iters && !stop() && !G.capped; k++) {
			R->stalled = false;
			int r = event_base_loop(R->base, op.a[1] > 0 ? EVLOOP_ONCE : EVLOOP_NONBLOCK);
			if (r != 0 || R->stalled) break;
			if (op.a[1] > 0 && G.now_ns >= until) break;
		}
		break;
	}
	case OP_ADVANCE:
		if (R->in_cb) { vk::advance(std::min<int64_t>(op.a[0], 2000) * 1000000); break; }
		vk::advance_running(std::max<int64_t>(0, op.a[0]) * 1000000);
		break;
	case OP_OPTION:
		if (!dns_ok) break;
		set_option((int)op.a[0], op.a[1]);
		break;
	case OP_NS_CTL: {
		if (!dns_ok) break;
		int what = (int)(op.a[0] % 3);
		if (what == 0) ns_add((int)(op.a[1] % R->nns));
		else if (what == 1) {
			if (suppressed("nameservers-freed-while-probing") && R->ns_failed > 0) { probe("known:nameservers-freed-while-probing"); break; }
			int r = API(evdns_base_clear_nameservers_and_suspend(R->dns));
			tr("api clear_nameservers_and_suspend -> %d", r);
			for (int k = 0; k < R->nns; k++) R->ns[k].added = false;
			// requests in flight go back to the waiting queue and get new ids when they are sent again
			R->epoch++;
			probe("clear-and-suspend");
		} else {
			int r = API(evdns_base_resume(R->dns));
			tr("api resume -> %d", r);
		}
		break;
	}
	case OP_SEARCH: {
		if (!dns_ok) break;
		// the search list is one shared object inside the library: changing it under requests in flight changes their
		// candidates; the property is about lists configured before the request
		if (live_req(0, true) >= 0) break;
		int what = (int)(op.a[0] % 3);
		if (what == 0) {
			static const char *doms[] = {"corp.test", "a.b.example.test", "x.test"};
			const char *d = doms[op.a[1] % 3];
			// evdns_base_search_add() puts the new domain in front of the list (only resolv.conf parsing reverses the list into file order)
			if (R->search.size() < 3 && std::find(R->search.begin(), R->search.end(), std::string(d)) == R->search.end()) { APIV(evdns_base_search_add(R->dns, d)); R->search.insert(R->search.begin(), d); tr("api search_add %s", d); }
		} else if (op.a[1] % 4 == 3 && R->resolv_fd < 0) {
			// the documented order: a resolv.conf "search" line lists the domains in the order they are tried
			std::string text = what == 1 ? "search corp.test a.b.example.test\noptions ndots:2\n" : "search x.test corp.test a.b.example.test\n";
			int fd;
			{ vk::HarnessScope hs; fd = memfd_create("resolv", 0); if (fd >= 0 && write(fd, text.data(), text.size()) < 0) {} }
			if (fd < 0) break;
			R->resolv_fd = fd;
			char path[64];
			snprintf(path, sizeof path, "/proc/self/fd/%d", fd);
			int r = API(evdns_base_resolv_conf_parse(R->dns, DNS_OPTION_SEARCH, path));
			tr("api resolv_conf_parse(search) variant %d -> %d", what, r);
			if (r != 0) { violation("C36.resolv-conf", "evdns_base_resolv_conf_parse failed: %d", r); break; }
			if (what == 1) { R->search = {"corp.test", "a.b.example.test"}; R->ndots = 2; }
			else { R->search = {"x.test", "corp.test", "a.b.example.test"}; R->ndots = 1; }
			probe("search-list-from-resolv-conf");
		} else if (what == 1) { APIV(evdns_base_search_clear(R->dns)); R->search.clear(); R->ndots = 1; tr("api search_clear"); }
		else { int nd = (int)(op.a[1] % 4); APIV(evdns_base_search_ndots_set(R->dns, nd)); R->ndots = nd; tr("api search_ndots_set %d", nd); }
		break;
	}
	case OP_BASE_FREE: {
		if (!dns_ok) break;
		if (suppressed("base-free-with-getaddrinfo-result-queued")) {
			// known finding: a getaddrinfo whose internal result callback is queued when the base is freed
			bool risky = false;
			// (inside a callback any getaddrinfo of this run may have one: its user callback can come from the allow-skew timer
			// while the cancelled sub-question's own callback is still queued)
			for (auto &q : R->reqs) if (q.kind == K_GAI && q.submitted && (R->in_cb || (q.ncb == 0 && q.cancelled))) risky = true;
			if (risky) { probe("known:base-free-with-getaddrinfo-result-queued"); break; }
		}
		if (suppressed("nameservers-freed-while-probing") && R->in_cb && R->ns_failed > 0) { probe("known:nameservers-freed-while-probing"); break; }
		if (suppressed("base-free-dropping-getaddrinfo") && !(op.a[0] & 1)) {
			bool any = false;
			for (auto &q : R->reqs) if (q.kind == K_GAI && q.submitted && q.ncb == 0) any = true;
			if (any) { probe("known:base-free-dropping-getaddrinfo"); break; }
		}
		int fail = (int)(op.a[0] & 1);
		tr("api evdns_base_free fail_requests=%d", fail);
		R->dns_freed = true;
		R->freed_fail_requests = fail;
		for (auto &q : R->reqs) if (q.submitted && q.ncb == 0) { if (fail) q.failed_by_free = true; else q.dropped_by_free = true; }
		APIV(evdns_base_free(R->dns, fail));
		R->dns = nullptr;
		probe(R->in_cb ? "base-free-inside-callback" : (fail ? "base-free-failing-requests" : "base-free-dropping-requests"));
		break;
	}
	case OP_NS_POWER: {
		Ns &ns = R->ns[op.a[0] % R->nns];
		ns.up = op.a[1] & 1;
		tr("ns%d power %d", (int)(op.a[0] % R->nns), (int)ns.up);
		break;
	}
	case OP_HOSTS: {
		if (!dns_ok || R->hosts_fd >= 0) break;
		// a hosts file served from memory: /proc/self/fd/<memfd>
		std::string text = "# test hosts\n10.9.8.7 hostsname0\n::9 hostsname0\n10.9.8.8   hostsname1 hostsname2\n  \n192.0.2.1 G1.test\n";
		int fd;
		{ vk::HarnessScope hs; fd = memfd_create("hosts", 0); if (fd >= 0 && write(fd, text.data(), text.size()) < 0) {} }
		if (fd < 0) break;
		R->hosts_fd = fd;
		char path[64];
		snprintf(path, sizeof path, "/proc/self/fd/%d", fd);
		int r = API(evdns_base_load_hosts(R->dns, path));
		tr("api load_hosts -> %d", r);
		if (r != 0) { violation("C38.load-hosts", "evdns_base_load_hosts failed: %d", r); break; }
		R->hosts["hostsname0"] = {"10.9.8.7", "::9"};
		R->hosts["hostsname1"] = {"10.9.8.8"};
		R->hosts["hostsname2"] = {"10.9.8.8"};
		R->hosts["g1.test"] = {"192.0.2.1"};
		probe("hosts-loaded");
		break;
	}
	}
}

// ---------------------------------------------------------------------------
static void execute(const Plan &p) {
	Run run;
	R = &run;
	run.plan = &p;
	vk::net.sim_sockets = true;
	vk::net.lat_min_ns = p.c("lat_min_us", 100) * 1000;
	vk::net.lat_max_ns = p.c("lat_max_us", 100) * 1000;
	vk::net.connect_lat_ns = p.c("connect_lat_us", 100) * 1000;
	vk::wait_cap = 30000;
	if (p.c("id_bits")) vk::rng_byte_mask = (unsigned)((p.c("id_bits") == 1 && p.c("nns", 1) > 1) ? 3 : p.c("id_bits"));
	static const struct { const char *k; vk::Site s; } sites[] = {
		{"f_sendto_eagain", vk::S_SENDTO_EAGAIN}, {"f_sendto_err", vk::S_SENDTO_ERR}, {"f_recv_eagain", vk::S_RECV_EAGAIN},
		{"f_dgram_drop", vk::S_DGRAM_DROP}, {"f_dgram_dup", vk::S_DGRAM_DUP}, {"f_dgram_reorder", vk::S_DGRAM_REORDER},
		{"f_read_short", vk::S_READ_SHORT}, {"f_write_short", vk::S_WRITE_SHORT}, {"f_read_eagain", vk::S_READ_EAGAIN},
	};
	for (auto &s : sites) if (p.c(s.k)) vk::set_fault(s.s, (int)p.c(s.k));
	g_tcp_out.clear();
	vk::tap_dgram = [](int, bool out, const char *b, size_t n, const sockaddr *) { if (out && R) on_query_sent(std::string(b, n)); };
	vk::tap_stream = on_stream_tap;
	mon::log_tap = [](int, const std::string &m) {
		if (!R) return;
		if (m.find("has failed") != std::string::npos && m.find("Nameserver") != std::string::npos) R->ns_failed++;
		// "is back up" does not end it: a probe answered with TC goes on over TCP after the nameserver counts as up again
	};
	vk::hooks.wait_enter = [](int, int64_t, int) { if (R && !R->in_cb) check_ids_unique(); };
	vk::hooks.stall = []() { if (R && R->base) { R->stalled = true; event_base_loopbreak(R->base); } };
	vk::hooks.capped = []() { if (R && R->base) event_base_loopbreak(R->base); };

	struct event_config *cfg = event_config_new();
	static const char *const methods[] = {"epoll", "poll", "select"};
	int meth = (int)(p.c("backend") % 3);
	for (int i = 0; i < 3; i++) if (i != meth) event_config_avoid_method(cfg, methods[i]);
	event_config_set_flag(cfg, EVENT_BASE_FLAG_IGNORE_ENV);
	run.base = event_base_new_with_config(cfg);
	event_config_free(cfg);
	if (!run.base) { violation("C34.base-new", "no event base"); R = nullptr; return; }
	run.nns = (int)std::max<int64_t>(1, std::min<int64_t>(MAXNS, p.c("nns", 1)));
	for (int i = 0; i < run.nns; i++) ns_start(i);
	int flags = 0;
	if (p.c("disable_when_inactive")) flags |= EVDNS_BASE_DISABLE_WHEN_INACTIVE;
	if (p.c("no_cache")) { flags |= EVDNS_BASE_NO_CACHE; run.no_cache = true; }
	run.dns = API(evdns_base_new(run.base, flags));
	if (!run.dns) { violation("C34.dns-base-new", "evdns_base_new failed"); event_base_free(run.base); R = nullptr; return; }
	tr("cfg backend=%s nns=%d flags=0x%x idmask=0x%x", event_base_get_method(run.base), run.nns, flags, vk::rng_byte_mask);
	if (vk::rng_byte_mask != 0xff) set_option(2, vk::rng_byte_mask == 1 ? 1 : 3);	// few transaction ids: keep the in-flight limit below their number
	for (int i = 0; i < run.nns; i++) if (!(p.c("ns_late") && i > 0)) ns_add(i);

	for (size_t i = 0; i < p.ops.size(); i++) { if (stop() || G.capped) break; exec_op(p.ops[i], (int)i); }

	// ---- liveness: faults stop, every nameserver answers; every request still open must get its outcome
	if (!stop() && !G.capped) {
		run.settling = true;
		for (int s = 0; s < vk::S_NSITES; s++) vk::set_fault((vk::Site)s, 0);
		for (int i = 0; i < run.nns; i++) { run.ns[i].up = true; run.ns[i].script.clear(); }
		if (run.dns && !run.dns_freed) {
			bool any = false;
			for (int i = 0; i < run.nns; i++) any = any || run.ns[i].added;
			if (!any) ns_add(0);
			API(evdns_base_resume(run.dns));
		}
		auto open_reqs = [&]() { int n = 0; for (auto &q : run.reqs) if (q.parent < 0 && q.submitted && q.ncb == 0 && !q.dropped_by_free) n++; return n; };
		int64_t deadline = G.now_ns + 6 * 3600 * NS;
		int iters = 0;
		while (open_reqs() > 0 && !stop() && !G.capped && G.now_ns < deadline && iters < 20000) {
			run.stalled = false;
			int r = event_base_loop(run.base, EVLOOP_ONCE);
			iters++;
			if (r < 0) break;
			if (run.stalled || r == 1) {
				if (vk::events_pending()) vk::advance_running(std::max<int64_t>(0, vk::next_event_time() - G.now_ns));
				else break;
			}
		}
		if (iters >= 20000) G.capped = true;
		if (!stop() && !G.capped) for (size_t i = 0; i < run.reqs.size(); i++) {
			Req &q = run.reqs[i];
			if (q.parent >= 0 || !q.submitted || q.ncb || q.dropped_by_free) continue;
			V("C34", "C34.no-outcome", "%s %zu ('%s') never got its callback: nameservers answer every query, faults have stopped, %lld virtual seconds have passed since it was made (%d queries seen for it, cancelled=%d, evdns base %s)",
			    q.kind == K_GAI ? "getaddrinfo" : "request", i, q.name.substr(0, 50).c_str(), (long long)((G.now_ns - q.t_submit) / NS), q.nqueries, (int)q.cancelled, run.dns_freed ? "freed with fail_requests=1" : "alive");
			break;
		}
	}
	// ---- teardown
	bool gai_dropped = false;
	for (auto &q : run.reqs) if (q.kind == K_GAI && q.dropped_by_free && q.ncb == 0) gai_dropped = true;
	if (run.dns && !run.dns_freed) {
		for (auto &q : run.reqs) if (q.submitted && q.ncb == 0) q.failed_by_free = true;
		run.dns_freed = true;
		run.freed_fail_requests = 1;
		APIV(evdns_base_free(run.dns, 1));
		run.dns = nullptr;
	}
	for (int k = 0; k < 4 && !stop(); k++) event_base_loop(run.base, EVLOOP_NONBLOCK);
	if (!stop() && !G.capped) for (size_t i = 0; i < run.reqs.size(); i++) {
		Req &q = run.reqs[i];
		if (q.parent >= 0 || !q.submitted || q.dropped_by_free) continue;
		if (q.ncb != 1) { V("C34", "C34.outcome-count", "%s %zu: %d callbacks by the time the evdns base had been freed with fail_requests=1 and the loop had run", q.kind == K_GAI ? "getaddrinfo" : "request", i, q.ncb); break; }
	}
	if (mon::locks_enabled && mon::held() != 0 && !stop()) violation("C08.lock-held-at-end", "%d lock acquisition(s) held at the end", mon::held());
	struct event_base *b = run.base;
	event_base_free(b);
	run.base = nullptr;
	if (run.hosts_fd >= 0) { vk::HarnessScope hs; close(run.hosts_fd); }
	if (run.resolv_fd >= 0) { vk::HarnessScope hs; close(run.resolv_fd); }
	for (int i = 0; i < run.nns; i++) for (auto c : run.ns[i].conns) delete c;
	if (!stop() && !G.capped && !gai_dropped) {
		const char *lp = (p.prop == "C33" || p.prop == "C34" || p.prop == "C38") ? p.prop.c_str() : "C10";
		if (mon::live_blocks_run() != 0) violation((std::string(lp) + ".leak").c_str(), "%lld block(s) allocated by the library still live after evdns_base_free and event_base_free: %s", (long long)mon::live_blocks_run(), mon::live_blocks_desc(6).c_str());
		else if (vk::open_fd_count_lib() != 0) violation((std::string(lp) + ".fd-leak").c_str(), "library fds still open: %s", vk::open_fd_list_lib().c_str());
	}
	if (!stop()) {
		const std::string &prop = p.prop;
		int done = 0;
		for (auto &q : run.reqs) if (q.parent < 0 && q.ncb) done++;
		if (prop == "C34") G.nontrivial = run.non_first_try > 0 && done > 0;
		else if (prop == "C36") G.nontrivial = run.queries_seen > 0;
		else if (prop == "C33") G.nontrivial = run.parsed_beyond_header > 0;
		else if (prop == "C38") G.nontrivial = run.gai_compared > 0;
		else if (prop == "C08") { bool f = false; for (auto &kv : G.cnt) if (kv.first.compare(0, 6, "fault.") == 0 || kv.first == "probe.request-refused") f = true; G.nontrivial = mon::locks_enabled && f && done > 0; }
		else G.nontrivial = done > 0;
	}
	R = nullptr;
}

static void generate(Plan &p, Rng &r) {
	const std::string &prop = p.prop;
	bool thorough = p.tier == "thorough";
	p.cfg["backend"] = r.below(3);
	p.cfg["nns"] = r.chance(0.5) ? 1 : r.range(2, MAXNS);
	p.cfg["ns_late"] = r.chance(0.1);
	p.cfg["disable_when_inactive"] = r.chance(0.2);
	p.cfg["no_cache"] = r.chance(prop == "C38" ? 0.2 : 0.5);
	p.cfg["id_bits"] = (prop == "C34" && r.chance(0.35)) ? r.pick(std::vector<int64_t>{1, 3}) : 0;
	p.cfg["lat_min_us"] = r.pick(std::vector<int64_t>{1, 100, 20000});
	p.cfg["lat_max_us"] = p.cfg["lat_min_us"] + (r.chance(0.5) ? 0 : (int64_t)r.below(400000));
	p.cfg["connect_lat_us"] = r.pick(std::vector<int64_t>{0, 100, 50000});
	if (r.chance(prop == "C34" ? 0.5 : prop == "C08" ? 0.8 : 0.2)) {
		static const char *ks[] = {"f_sendto_eagain", "f_sendto_err", "f_recv_eagain", "f_dgram_drop", "f_dgram_dup", "f_dgram_reorder", "f_read_short", "f_write_short", "f_read_eagain"};
		for (auto k : ks) if (r.chance(0.3)) p.cfg[k] = r.pick(std::vector<int64_t>{10, 50, 200});
	}
	struct W { int code; int w; };
	std::vector<W> ws = {{OP_RESOLVE, 20}, {OP_GAI, 4}, {OP_CANCEL, 3}, {OP_NS_SCRIPT, 16}, {OP_LOOP, 16}, {OP_ADVANCE, 4}, {OP_OPTION, 4}, {OP_NS_CTL, 2}, {OP_SEARCH, 2},
	    {OP_BASE_FREE, 1}, {OP_NS_POWER, 2}, {OP_HOSTS, 0}};
	auto bump = [&](int code, int w) { for (auto &x : ws) if (x.code == code) x.w = w; };
	if (prop == "C34") { bump(OP_CANCEL, 6); bump(OP_GAI, 8); bump(OP_NS_CTL, 3); bump(OP_NS_POWER, 4); bump(OP_BASE_FREE, 2); }
	if (prop == "C36") { bump(OP_SEARCH, 8); bump(OP_OPTION, 6); bump(OP_NS_SCRIPT, 8); bump(OP_CANCEL, 1); }
	if (prop == "C33") { bump(OP_NS_SCRIPT, 26); bump(OP_GAI, 2); bump(OP_CANCEL, 1); bump(OP_BASE_FREE, 0); }
	if (prop == "C38") { bump(OP_GAI, 24); bump(OP_RESOLVE, 3); bump(OP_HOSTS, 3); bump(OP_ADVANCE, 8); bump(OP_SEARCH, 1); bump(OP_BASE_FREE, 0); }
	int total = 0;
	for (auto &x : ws) total += x.w;
	int nops = thorough ? (int)r.range(8, 90) : (int)r.range(4, 40);
	for (int i = 0; i < nops; i++) {
		int x = (int)r.below(total), code = 0;
		for (auto &w : ws) { if (x < w.w) { code = w.code; break; } x -= w.w; }
		Op o;
		o.code = code;
		switch (code) {
		case OP_RESOLVE:
			o.a[0] = r.chance(0.6) ? r.below(2) : r.below(4);
			o.a[1] = prop == "C36" ? r.below(17) : (r.chance(0.8) ? r.pick(std::vector<int64_t>{0, 0, 1, 2, 3, 4}) : r.below(17));
			o.a[2] = r.chance(0.5) ? 1 : 0;
			if (r.chance(0.15)) o.a[2] |= 2;
			if (r.chance(0.1)) o.a[2] |= 4;
			if (r.chance(prop == "C33" ? 0.4 : 0.1)) o.a[2] |= 8;
			break;
		case OP_GAI: o.a[0] = r.below(8); o.a[1] = r.below(5); o.a[2] = r.below(3); o.a[3] = r.below(16); o.a[4] = r.below(3); o.a[5] = r.below(12); break;
		case OP_CANCEL: o.a[0] = r.below(16); break;
		case OP_NS_SCRIPT: {
			o.a[0] = r.below(MAXNS);
			static const int common[] = {B_ANSWER, B_DROP, B_DELAY, B_RCODE, B_TC, B_MUTATE, B_DUP, B_NODATA, B_TCP_CLOSE_AT, B_TCP_RST, B_OTHER_TYPE, B_BIG, B_CNAME};
			o.a[1] = prop == "C33" && r.chance(0.5) ? B_MUTATE : common[r.below(B_N)];
			switch (o.a[1]) {
			case B_ANSWER: o.a[2] = r.range(1, 8); o.a[3] = r.pick(std::vector<int64_t>{0, 1, 2, 5, 300, 86400}); break;
			case B_DELAY: case B_DUP: o.a[2] = r.pick(std::vector<int64_t>{1, 40, 499, 500, 501, 3000, 4999, 5000, 5001, 20000}); break;
			case B_RCODE: o.a[2] = r.range(0, 15); break;
			case B_MUTATE: o.a[2] = r.below(15); o.a[3] = r.below(100000); break;
			case B_NODATA: o.a[2] = r.below(1000); break;
			case B_TCP_CLOSE_AT: o.a[2] = r.below(200); break;
			case B_BIG: o.a[2] = r.range(2, 60); break;
			case B_CNAME: o.a[2] = r.range(1, 3); o.a[3] = r.below(8); break;
			default: break;
			}
			break;
		}
		case OP_LOOP: o.a[0] = r.range(1, 30); o.a[1] = r.chance(0.2) ? 0 : r.pick(std::vector<int64_t>{1, 50, 1000, 5000, 60000}); break;
		case OP_ADVANCE: o.a[0] = r.pick(std::vector<int64_t>{1, 499, 500, 999, 1000, 2999, 3000, 5000, 10000, 3600000}); break;
		case OP_OPTION: o.a[0] = r.below(n_opts); o.a[1] = r.below(60); break;
		case OP_NS_CTL: o.a[0] = r.below(3); o.a[1] = r.below(MAXNS); break;
		case OP_SEARCH: o.a[0] = r.chance(0.6) ? 0 : r.range(1, 2); o.a[1] = r.below(12); break;
		case OP_BASE_FREE: o.a[0] = r.chance(0.8) ? 1 : 0; break;
		case OP_NS_POWER: o.a[0] = r.below(MAXNS); o.a[1] = r.chance(0.4); break;
		default: break;
		}
		if ((code == OP_CANCEL || code == OP_BASE_FREE || code == OP_RESOLVE || code == OP_GAI || code == OP_OPTION) && r.chance(code == OP_RESOLVE ? 0.05 : 0.3)) o.ctx = (int)r.below(8);
		p.ops.push_back(o);
	}
}

static std::vector<int64_t> cfg_simpler(const std::string &key, int64_t cur) {
	if (key == "nns") return cur > 1 ? std::vector<int64_t>{1} : std::vector<int64_t>{};
	if (key == "lat_min_us" || key == "lat_max_us" || key == "connect_lat_us") return cur != 100 ? std::vector<int64_t>{100} : std::vector<int64_t>{};
	if (cur != 0) return {0};
	return {};
}

static void process_init(int cls) {
	(void)cls;
	struct event_base *b = event_base_new();
	struct evdns_base *d = evdns_base_new(b, 0);
	if (d) evdns_base_free(d, 0);
	event_base_free(b);
}

int main(int argc, char **argv) {
	static Harness h = {"h_dns", opnames, OP_N, generate, execute, cfg_simpler, process_init};
	return harness_main(argc, argv, h);
}
