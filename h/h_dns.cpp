// H6: DNS resolver harness — C33 (reply parsing), C34 (exactly-once outcome), C36 (queries on the wire), C38 (getaddrinfo).
// World S: the resolver's UDP sockets and TCP connections are simulated; the nameservers are scripted endpoints of the
// simulated network whose behaviour per query comes from the plan; time is virtual.
#include <algorithm>
#include <cerrno>
#include <cstring>
#include <deque>
#include <map>
#include <set>
#include <sys/socket.h>
#include <netinet/in.h>
#include <arpa/inet.h>
#include <unistd.h>
#include <event2/event.h>
#include <event2/dns.h>
#include <event2/util.h>
#include "sim/sim.hpp"
#include "vk/vk.hpp"
#include "mon/mon.hpp"
#include "ref/dnswire.hpp"

using namespace sim;

enum {
	OP_RESOLVE, OP_GAI, OP_CANCEL, OP_NS_SCRIPT, OP_LOOP, OP_ADVANCE, OP_OPTION, OP_NS_CTL, OP_SEARCH, OP_BASE_FREE, OP_NS_POWER, OP_HOSTS, OP_N
};
static const char *const opnames[OP_N] = {
	"resolve", "getaddrinfo", "cancel", "ns_script", "loop", "advance", "set_option", "ns_ctl", "search", "base_free", "ns_power", "load_hosts",
};

enum { B_ANSWER, B_DROP, B_DELAY, B_RCODE, B_TC, B_MUTATE, B_DUP, B_NODATA, B_TCP_CLOSE_AT, B_TCP_RST, B_OTHER_TYPE, B_BIG, B_CNAME, B_N };
enum { K_A, K_AAAA, K_PTR4, K_PTR6, K_GAI };
#define MAXNS 3

struct Behav { int kind = B_ANSWER; int64_t a = 0, b = 0; };

struct SentReply {
	std::string bytes;
	bool from_ok = true, tcp = false;
	int ns = 0;
	uint16_t q_id = 0;
	dw::Name q_name;	// as it was on the wire (case preserved)
	uint16_t q_type = 0;
	bool complete = true;	// TCP: the whole length-prefixed message was sent before any close
	int64_t t_sent = 0;
};

struct Req {
	int kind = K_A;
	std::string name;		// as handed to the API (textual)
	std::vector<std::string> expect;	// names that may appear on the wire, in search order (lower case)
	int search_pos = -1;
	int qtype = dw::T_A;
	int flags = 0;
	struct evdns_request *h = nullptr;
	struct evdns_getaddrinfo_request *gh = nullptr;
	bool submitted = false;		// the API returned a handle
	bool encodable = true;		// the name can be written as valid labels within 255 octets
	int ncb = 0, ncname_cb = 0;
	int result = -1;
	bool cancelled = false, cancelled_effective = false, dropped_by_free = false, failed_by_free = false;
	int64_t t_submit = 0, t_last_query = -1;
	int nqueries = 0;
	bool has_id = false;
	uint16_t cur_id = 0;
	std::vector<int> replies;	// indices into Run::sent
	// getaddrinfo
	int fam = 0, gai_flags = 0, socktype = 0, port = 0;
	int sub[2] = {-1, -1};		// K_GAI: indices of the model's view of the A / AAAA sub-questions (reply lists are shared via name)
	std::vector<int> ctx_ops;	// plan ops to run inside this request's callback
};

struct Ns {
	vk::Endpoint *udp = nullptr, *tcp_l = nullptr, *aux = nullptr;
	sockaddr_in addr{};
	bool added = false, up = true;
	std::deque<Behav> script;
	struct Conn { vk::Endpoint *ep; std::string in; bool open = true; };
	std::vector<Conn *> conns;
};

struct Run {
	const Plan *plan = nullptr;
	struct event_base *base = nullptr;
	struct evdns_base *dns = nullptr;
	bool dns_freed = false;
	int freed_fail_requests = -1;
	Ns ns[MAXNS];
	int nns = 1;
	std::vector<Req> reqs;
	std::vector<SentReply> sent;
	bool randomize_case = true;
	int edns = 512;
	int attempts = 3;
	int64_t timeout_ms = 5000;
	int max_inflight = 64;
	std::vector<std::string> search;	// configured search domains, in order
	int ndots = 1;
	bool tcp_global_usevc = false, igntc_global = false;
	bool stalled = false;
	int in_cb = 0;
	bool settling = false;
	int queries_seen = 0, non_first_try = 0, parsed_beyond_header = 0, gai_compared = 0;
	std::map<std::string, std::vector<std::string>> hosts;	// lower-case name -> textual addresses, in file order
	int hosts_fd = -1;
	// wire-level bookkeeping for C34 id uniqueness: id -> request index currently using it
	std::map<uint16_t, int> id_owner;
	// model of the getaddrinfo cache: lower-case node -> (expiry ns, addresses as text, canonname flag)
	struct CacheEnt { int64_t expiry_ns; std::vector<std::string> v4, v6; bool has_cname; std::string cname; };
	std::map<std::string, CacheEnt> cache;
	bool no_cache = false;
};
static Run *R;

static bool fam(const char *id) { const std::string &p = R->plan->prop; return p == id || (p != "C33" && p != "C34" && p != "C36" && p != "C38"); }
#define V(idstr, ...) do { if (fam(idstr)) violation(__VA_ARGS__); } while (0)

static std::string hexs(const std::string &s, size_t max = 24) {
	static const char *d = "0123456789abcdef";
	std::string o;
	for (size_t i = 0; i < s.size() && i < max; i++) { o += d[(unsigned char)s[i] >> 4]; o += d[s[i] & 15]; }
	if (s.size() > max) o += "..";
	return o;
}

// ---------------------------------------------------------------------------
// reference reading of a reply, as far as the resolver is entitled to use it
struct RefReply {
	bool header = false;		// >= 12 bytes
	uint16_t id = 0, flags = 0;
	unsigned qd = 0;
	bool question_present = false, question_match = false;
	bool bounds_error = false;	// something in questions/answers reaches outside the message: must not be accepted
	bool odd = false;		// syntactically unusual (reserved label bits, > 255 octets, long pointer chains): either outcome
	std::vector<std::string> addrs;	// rdata of type-matching class-IN records of the answer section, in order (4 or 16 bytes each)
	bool have_ptr = false;
	dw::Name ptr;
	std::vector<dw::Name> cnames;
	uint32_t min_ttl = 0xffffffffu;
	bool bad_rdlen = false;
};
static bool bounds_reason(const std::string &w) { return w == "truncated" || w == "label beyond message" || w == "rdata beyond message" || w == "pointer out of bounds"; }

static RefReply ref_read(const std::string &b, int qtype, const dw::Name &wire_q, bool nocase) {
	RefReply r;
	dw::Dec d(b);
	size_t j = 0;
	unsigned id, fl, qd, an, ns, ar;
	if (!d.u16(j, id) || !d.u16(j, fl) || !d.u16(j, qd) || !d.u16(j, an) || !d.u16(j, ns) || !d.u16(j, ar)) return r;
	r.header = true;
	r.id = id; r.flags = fl; r.qd = qd;
	auto bad = [&]() { if (bounds_reason(d.why)) r.bounds_error = true; else r.odd = true; };
	for (unsigned i = 0; i < qd; i++) {
		dw::Name n; unsigned t, c;
		if (!d.name(j, n) || !d.u16(j, t) || !d.u16(j, c)) { bad(); return r; }
		r.question_present = true;
		if (dw::name_eq(n, wire_q, nocase)) r.question_match = true;
	}
	for (unsigned i = 0; i < an; i++) {
		dw::RR rr;
		size_t j0 = j;
		if (!d.rr(j, rr)) {
			// a name-typed rdata that is odd does not have to be fatal for the resolver unless it reads outside
			bad();
			(void)j0;
			return r;
		}
		if (rr.type == dw::T_CNAME) { r.cnames.push_back(rr.rname); continue; }
		if (rr.cls != dw::C_IN || rr.type != qtype) continue;
		if (qtype == dw::T_A || qtype == dw::T_AAAA) {
			size_t w = qtype == dw::T_A ? 4 : 16;
			if (rr.rdata.size() % w) { r.bad_rdlen = true; return r; }
			if (rr.rdata.size() != w) r.odd = true;	// several addresses in one record: not RFC, tolerated
			for (size_t k = 0; k + w <= rr.rdata.size(); k += w) r.addrs.push_back(rr.rdata.substr(k, w));
			r.min_ttl = std::min(r.min_ttl, rr.ttl);
		} else if (qtype == dw::T_PTR) {
			r.have_ptr = true;
			r.ptr = rr.rname;
			r.min_ttl = std::min(r.min_ttl, rr.ttl);
			break;
		}
	}
	return r;
}
