// H6b: evdns server-side harness — C37 (request parsing: UDP datagrams and TCP streams in any segmentation) and
// C35 (response encoding). World S: the server port's UDP socket and TCP listener are simulated, the clients are scripted
// endpoints that send valid and adversarial queries; the user callback adds records from a plan-driven recipe; every
// byte the server sends back is decoded by the reference decoder and compared with what the callback added.
#include <algorithm>
#include <cerrno>
#include <cstring>
#include <deque>
#include <map>
#include <set>
#include <sys/socket.h>
#include <netinet/in.h>
#include <arpa/inet.h>
#include <unistd.h>
#include <event2/event.h>
#include <event2/dns.h>
#include <event2/dns_struct.h>
#include <event2/listener.h>
#include <event2/util.h>
#include "sim/sim.hpp"
#include "vk/vk.hpp"
#include "mon/mon.hpp"
#include "ref/dnswire.hpp"

using namespace sim;

enum { OP_QUERY, OP_RECIPE, OP_LOOP, OP_ADVANCE, OP_TCP_CLOSE, OP_PORT_OPTION, OP_CLOSE_PORT, OP_RESPOND_HELD, OP_N };
static const char *const opnames[OP_N] = {"query", "recipe", "loop", "advance", "tcp_close", "port_option", "close_port", "respond_held"};

#define NCLIENT 3

struct Rec { int section; std::string name; int type, cls; uint32_t ttl; bool is_name; std::string data; };

// what the server callback does with the next request
struct Recipe { int kind = 0; int64_t n = 1, shape = 0, rcode = 0, flags = 0; };	// kind 0 respond, 1 drop, 2 hold (respond later from an op), 3 respond twice

struct SentQ {
	int client; bool tcp; uint16_t id;
	std::string bytes;
	// reference verdict
	bool decodable = false, bounds = false, odd = false, qr = false;
	unsigned opcode = 0;
	std::vector<dw::Q> questions;
	bool has_opt = false; unsigned opt_size = 512;
	int callbacks = 0;
	int responses = 0;
	bool expect_known = false;	// the callback has run and told us what it added
	std::vector<Rec> added;
	int rcode = 0, flags = 0;
	bool responded = false, dropped = false;
	int conn_epoch = -1;		// TCP: the client's connection epoch when the message was written
};

struct Client {
	vk::Endpoint *udp = nullptr, *tcp = nullptr;
	sockaddr_in addr{};
	bool tcp_open = false, tcp_connecting = false;
	std::string tcp_in, tcp_pending;	// bytes received / waiting for the connection
	std::vector<size_t> pending_cuts;
	std::string stream;		// everything written to the current connection
	size_t framed = 0;		// how much of it has been cut into frames the way the receiver will
	bool stream_dead = false;	// a zero-length frame: the receiver gives up on the connection
	int conn_epoch = 0;		// bumped whenever the TCP connection ends (either side) or is refused
};

struct Held { struct evdns_server_request *req; int qi; int rcode; };

struct Run {
	const Plan *plan = nullptr;
	struct event_base *base = nullptr;
	struct evdns_server_port *uport = nullptr, *tport = nullptr;
	struct evconnlistener *lev = nullptr;
	int ufd = -1;
	bool ports_closed = false;
	Client cl[NCLIENT];
	std::vector<SentQ> qs;
	std::map<std::pair<int, int>, std::vector<int>> by_id;	// (client*2+tcp, id on the wire) -> indices in qs (noise may repeat an id)
	std::deque<Recipe> recipes;
	std::vector<Held> held;
	uint16_t next_id = 1;
	bool stalled = false;
	int callbacks = 0, responses_checked = 0, multi_record = 0;
	bool limited_clients = false;	// EVDNS_SOPT_TCP_MAX_CLIENTS was lowered: a connection may be turned away
	bool faulty_io = false;		// I/O faults armed (a datagram may be lost to an injected error)
};
static Run *R;

static bool fam(const char *id) { const std::string &p = R->plan->prop; return p == id || (p != "C35" && p != "C37"); }
#define V(idstr, ...) do { if (fam(idstr)) violation(__VA_ARGS__); } while (0)

static std::string hexs(const std::string &s, size_t max = 32) {
	static const char *d = "0123456789abcdef";
	std::string o;
	for (size_t i = 0; i < s.size() && i < max; i++) { o += d[(unsigned char)s[i] >> 4]; o += d[s[i] & 15]; }
	if (s.size() > max) o += "..";
	return o;
}
static bool bounds_reason(const std::string &w) { return w == "truncated" || w == "label beyond message" || w == "rdata beyond message" || w == "pointer out of bounds"; }

// ---- reference reading of a query, the way a server is entitled to read it
static void ref_query(SentQ &q) {
	dw::Dec d(q.bytes);
	size_t j = 0;
	unsigned id, fl, qd, an, ns, ar;
	if (!d.u16(j, id) || !d.u16(j, fl) || !d.u16(j, qd) || !d.u16(j, an) || !d.u16(j, ns) || !d.u16(j, ar)) { q.bounds = true; return; }
	q.qr = fl & dw::F_QR;
	q.opcode = (fl & dw::F_OPMASK) >> 11;
	for (unsigned i = 0; i < qd; i++) {
		dw::Q x; unsigned t, c;
		if (!d.name(j, x.name) || !d.u16(j, t) || !d.u16(j, c)) { (bounds_reason(d.why) ? q.bounds : q.odd) = true; return; }
		x.type = t; x.cls = c;
		q.questions.push_back(x);
		if (dw::wire_len(x.name) > 255) q.odd = true;
		for (auto &l : x.name) if (l.find('\0') != std::string::npos || l.find('.') != std::string::npos) q.odd = true;
	}
	for (unsigned i = 0; i < an + ns + ar; i++) {
		dw::RR rr;
		dw::Name nm; unsigned t, c, l; uint32_t ttl;
		if (!d.name(j, nm) || !d.u16(j, t) || !d.u16(j, c) || !d.u32(j, ttl) || !d.u16(j, l)) { (bounds_reason(d.why) ? q.bounds : q.odd) = true; return; }
		if (j + l > q.bytes.size()) { q.bounds = true; return; }
		j += l;
		if (i >= an + ns && t == dw::T_OPT && !q.has_opt) { q.has_opt = true; q.opt_size = c; }
	}
	q.decodable = true;
}

// ---- names and records for the callback
static std::string rec_name(int64_t k) {
	static const char *suf[] = {"example.test", "sub.example.test", "other.test", "a.b.c.d.e.f.example.test", "x"};
	switch (k % 7) {
	case 0: return std::string("host") + std::to_string(k % 50) + "." + suf[(k / 7) % 5];
	case 1: return suf[(k / 7) % 5];
	case 2: return std::string("www.") + suf[(k / 7) % 5];
	case 3: return std::string(1 + k % 63, 'l') + "." + suf[(k / 7) % 5];
	case 4: return std::string("Host") + std::to_string(k % 50) + ".EXAMPLE.test";	// same suffix, other case
	case 5: return "";	// root
	default: return std::string("n") + std::to_string(k) + ".uniq" + std::to_string(k * 7 % 1000) + ".test";
	}
}

static void request_cb(struct evdns_server_request *req, void *arg);

// ---- responses arriving at the clients
static void check_response(int ci, bool tcp, const std::string &b) {
	if (stop()) return;
	tr("client%d %s response n=%zu %s", ci, tcp ? "tcp" : "udp", b.size(), hexs(b, 12).c_str());
	if (b.size() < 12) { V("C35", "C35.short-response", "client %d received a %zu-byte message", ci, b.size()); return; }
	unsigned id = ((unsigned char)b[0] << 8) | (unsigned char)b[1];
	auto bit = R->by_id.find({ci * 2 + (tcp ? 1 : 0), (int)id});
	if (bit == R->by_id.end()) { V("C35", "C35.response-to-nothing", "client %d received a response with id %u, which it never used", ci, id); return; }
	// several messages of this client may carry the id (garbage frames): the response belongs to the one the server accepted
	int qsel = bit->second[0];
	for (int c : bit->second) if (R->qs[c].callbacks && R->qs[c].responses == 0) { qsel = c; break; }
	struct { int second; } sel{qsel}, *it = &sel;
	SentQ &q = R->qs[qsel];
	q.responses++;
	unsigned flags = ((unsigned char)b[2] << 8) | (unsigned char)b[3];
	if (!(flags & dw::F_QR)) { V("C35", "C35.flags", "response without QR (flags 0x%04x)", flags); return; }
	// a query the server must not have accepted may only be answered by the server itself with NOTIMPL
	if (q.qr || q.bounds) { V("C37", "C37.answered-invalid", "query %d (%s) got a response although it is %s", it->second, hexs(q.bytes).c_str(), q.qr ? "itself a response" : "cut short / reaching outside the packet"); return; }
	if (q.opcode != 0 && q.decodable) {
		if ((flags & dw::F_RCODE) != 4) V("C37", "C37.notimpl", "query %d has opcode %u: the response carries RCODE %u, expected NOTIMPL (4)", it->second, q.opcode, flags & dw::F_RCODE);
		if (q.callbacks) V("C37", "C37.callback-for-nonstandard-opcode", "query %d has opcode %u, yet the user callback ran", it->second, q.opcode);
		probe("notimpl-response");
		return;
	}
	if (!q.expect_known) { if (!q.odd) V("C35", "C35.response-without-callback", "query %d got a response although the user callback never ran for it", it->second); return; }
	if (q.responses > 1 && !tcp) probe("second-response");
	// size limits
	size_t limit = tcp ? 65535 : std::max<size_t>(512, q.has_opt ? q.opt_size : 512);
	bool tc = flags & dw::F_TC;
	if (b.size() > limit) { V("C35", "C35.size-limit", "query %d: response of %zu bytes, the client's limit is %zu", it->second, b.size(), limit); return; }
	dw::Msg m;
	std::string why, pwhy;
	bool prule = true;
	size_t used = 0;
	bool ok = dw::decode(b, m, &why, &prule, &pwhy, &used);
	R->responses_checked++;
	if (tc) {
		probe("truncated-response");
		// TC: whatever is present must be whole records, and the counts must not promise more than there is
		if (!ok) { V("C35", "C35.truncated-counts", "query %d: response with TC set does not decode (%s): its header counts (an=%u ns=%u ar=%u) describe records that are not in the %zu bytes sent", it->second, why.c_str(),
			((unsigned char)b[6] << 8) | (unsigned char)b[7], ((unsigned char)b[8] << 8) | (unsigned char)b[9], ((unsigned char)b[10] << 8) | (unsigned char)b[11], b.size()); return; }
	} else if (!ok) { V("C35", "C35.undecodable", "query %d: response does not decode (%s): %s", it->second, why.c_str(), hexs(b, 48).c_str()); return; }
	if (used != b.size()) { V("C35", "C35.trailing-bytes", "query %d: %zu bytes after the last record of the response", it->second, b.size() - used); return; }
	if (!prule) { V("C35", "C35.compression-pointer", "query %d: %s", it->second, pwhy.c_str()); return; }
	if ((int)(flags & dw::F_RCODE) != q.rcode) { V("C35", "C35.rcode", "query %d: RCODE %u, the callback responded with %d", it->second, flags & dw::F_RCODE, q.rcode); return; }
	// questions
	if (m.q.size() != q.questions.size()) { V("C35", "C35.questions", "query %d: %zu questions in the response, %zu in the request", it->second, m.q.size(), q.questions.size()); return; }
	for (size_t i = 0; i < m.q.size(); i++) if (!dw::name_eq(m.q[i].name, q.questions[i].name, false) || m.q[i].type != q.questions[i].type || m.q[i].cls != q.questions[i].cls) {
		if (!q.odd) V("C35", "C35.questions", "query %d: question %zu of the response is '%s' %u/%u, the request asked '%s' %u/%u", it->second, i, dw::dotted(m.q[i].name).c_str(), m.q[i].type, m.q[i].cls, dw::dotted(q.questions[i].name).c_str(), q.questions[i].type, q.questions[i].cls);
		return;
	}
	// records, section by section, in order
	std::vector<dw::RR> *secs[3] = {&m.an, &m.ns, &m.ar};
	size_t got_total = m.an.size() + m.ns.size() + m.ar.size(), want_total = q.added.size() + (q.has_opt ? 1 : 0);
	if (got_total >= 2) R->multi_record++;
	for (int s = 0; s < 3; s++) {
		std::vector<const Rec *> want;
		for (auto &r : q.added) if (r.section == s) want.push_back(&r);
		std::vector<dw::RR> got = *secs[s];
		if (s == 2 && q.has_opt) {	// the server's own OPT record comes first in the additional section
			if (got.empty() || got[0].type != dw::T_OPT) { if (!tc) V("C35", "C35.opt-missing", "query %d carried an OPT record, the response has none in front of its additional section", it->second); return; }
			got.erase(got.begin());
		}
		if (tc ? got.size() > want.size() : got.size() != want.size()) { V("C35", "C35.record-count", "query %d: section %d holds %zu record(s), the callback added %zu%s", it->second, s, got.size(), want.size(), tc ? " (TC set)" : ""); return; }
		for (size_t i = 0; i < got.size(); i++) {
			const Rec &w = *want[i];
			const dw::RR &g = got[i];
			bool same = dw::name_eq(g.name, dw::name_from_dotted(w.name), false) && g.type == w.type && g.cls == w.cls && g.ttl == w.ttl;
			if (same) {
				if (w.is_name) same = g.has_rname ? dw::name_eq(g.rname, dw::name_from_dotted(w.data), false) : false;
				else same = g.rdata == w.data;
				if (w.is_name && !g.has_rname) {	// name data under a type the reference does not treat as a name: decode it here
					dw::Dec dd(b); size_t k = g.rdata_off; dw::Name nm;
					same = dd.name(k, nm) && k == g.rdata_off + g.rdata.size() && dw::name_eq(nm, dw::name_from_dotted(w.data), false);
				}
			}
			if (!same) { V("C35", "C35.record", "query %d: record %zu of section %d is '%s' type %u class %u ttl %u (%zu bytes of data), the callback added '%s' type %d class %d ttl %u (%s, %zu bytes)", it->second, i, s,
				dw::dotted(g.name).c_str(), g.type, g.cls, g.ttl, g.rdata.size(), w.name.c_str(), w.type, w.cls, w.ttl, w.is_name ? "a name" : "raw data", w.data.size()); return; }
		}
	}
	if (!tc && got_total != want_total) { V("C35", "C35.record-count", "query %d: %zu records in the response, %zu expected", it->second, got_total, want_total); return; }
	if (b.size() > 16384) probe("response-above-16k");
}

static void client_tcp_in(int ci, const std::string &d) {
	Client &c = R->cl[ci];
	c.tcp_in += d;
	while (c.tcp_in.size() >= 2) {
		size_t l = ((unsigned char)c.tcp_in[0] << 8) | (unsigned char)c.tcp_in[1];
		if (c.tcp_in.size() < 2 + l) break;
		std::string m = c.tcp_in.substr(2, l);
		c.tcp_in.erase(0, 2 + l);
		check_response(ci, true, m);
	}
}

static void client_tcp_flush(int ci) {
	Client &c = R->cl[ci];
	if (!c.tcp_open || c.tcp_pending.empty()) return;
	vk::ep_send_cut(c.tcp, c.tcp_pending, c.pending_cuts, 1000);
	c.tcp_pending.clear();
	c.pending_cuts.clear();
}

static void client_tcp_connect(int ci) {
	Client &c = R->cl[ci];
	if (c.tcp_open || c.tcp_connecting) return;
	sockaddr_in sa = vk::addr4(0x7f000001, 5353);
	vk::EndpointCbs cb;
	cb.on_connected = [ci](vk::Endpoint *) { R->cl[ci].tcp_open = true; R->cl[ci].tcp_connecting = false; client_tcp_flush(ci); };
	cb.on_connect_failed = [ci](vk::Endpoint *, int) { R->cl[ci].tcp_connecting = false; R->cl[ci].tcp_pending.clear(); R->cl[ci].pending_cuts.clear(); R->cl[ci].conn_epoch++; };
	cb.on_data = [ci](vk::Endpoint *, const std::string &d) { client_tcp_in(ci, d); };
	cb.on_eof = [ci](vk::Endpoint *e) { Client &c = R->cl[ci]; if (c.tcp == e) { c.conn_epoch++; c.tcp_open = false; c.tcp_in.clear(); c.stream.clear(); c.framed = 0; c.stream_dead = false; vk::ep_close(e); } probe("server-closed-tcp"); };
	cb.on_reset = [ci](vk::Endpoint *e) { Client &c = R->cl[ci]; if (c.tcp == e) { c.conn_epoch++; c.tcp_open = false; c.tcp_in.clear(); c.stream.clear(); c.framed = 0; c.stream_dead = false; } };
	c.tcp_connecting = true;
	c.tcp_in.clear();
	c.tcp = vk::ep_connect((sockaddr *)&sa, sizeof sa, cb);
}

// ---- query generator
static std::string make_query(int shape, int64_t param, uint16_t id, int edns_idx) {
	dw::Msg m;
	m.id = id;
	m.flags = dw::F_RD;
	// every question name starts with a label that carries the query's id: the server callback does not learn which client
	// or connection a request came from, the content has to say it
	auto q1 = [&](const std::string &n, int t) { dw::Q q; q.name = dw::name_from_dotted(n); if (!q.name.empty()) q.name.insert(q.name.begin(), "i" + std::to_string(id)); q.type = t; m.q.push_back(q); };
	static const int edns_sizes[] = {0, 512, 100, 1232, 4096, 65535};
	int es = edns_sizes[edns_idx % 6];
	auto add_opt = [&]() { if (es) { dw::RR o; o.type = dw::T_OPT; o.cls = es; m.ar.push_back(o); } };
	std::string b;
	switch (shape % 14) {
	case 0: q1("host" + std::to_string(param % 50) + ".example.test", dw::T_A); add_opt(); return dw::encode(m, false);
	case 1: q1("www.example.test", dw::T_AAAA); q1("mail.example.test", dw::T_A); if (param & 1) q1("third.other.test", dw::T_TXT); add_opt(); return dw::encode(m, true);	// compression inside the query
	case 2: { size_t tag = 2 + std::to_string(id).size(); q1(std::string(63, 'a') + "." + std::string(63, 'b') + "." + std::string(63, 'c') + "." + std::string((param % 2 ? 61 : 59) - tag, 'd'), dw::T_A); } add_opt(); return dw::encode(m, false);	// 255 / 253 octets on the wire
	case 3: m.flags |= (uint16_t)((1 + param % 15) << 11); q1("op.example.test", dw::T_A); add_opt(); return dw::encode(m, false);	// non-standard opcode
	case 4: m.flags |= dw::F_QR; q1("resp.example.test", dw::T_A); return dw::encode(m, false);	// a response sent to a server
	case 5: q1("t.example.test", dw::T_A); add_opt(); b = dw::encode(m, false); b.resize((size_t)param % (b.size() + 1)); return b;	// cut anywhere
	case 6: q1("c.example.test", dw::T_A); b = dw::encode(m, false); b[4] = (char)(param >> 8); b[5] = (char)param; return b;	// QDCOUNT lies
	case 7: q1("p.example.test", dw::T_A); b = dw::encode(m, false); if (b.size() > 14) { b[12] = (char)0xc0; b[13] = (char)(param % 3 == 0 ? 12 : param % 3 == 1 ? 0xff : 13); } return b;	// pointer to itself / outside / into the middle
	case 8: { q1("rr.example.test", dw::T_A); dw::RR a; a.name = dw::name_from_dotted("extra.example.test"); a.type = dw::T_A; a.rdata = dw::a_rdata(1); m.an.push_back(a); m.ns.push_back(a); add_opt(); b = dw::encode(m, true);
		if (param % 3 == 0) b.resize(b.size() - 1 - param % 5); return b; }	// records in the other sections, maybe cut
	case 9: { q1("f.example.test", dw::T_A); add_opt(); b = dw::encode(m, false); size_t o = (size_t)param % b.size(); if (o < 2) o = 2; b[o] = (char)(b[o] ^ (1 << (param / 3 % 8))); return b; }	// bit flip
	case 10: { b.resize((size_t)(param % 40)); for (auto &ch : b) ch = (char)G.misc.next(); if (b.size() >= 2) { b[0] = (char)(id >> 8); b[1] = (char)id; } return b; }	// noise
	case 11: q1("", 256 + id % 30000); add_opt(); return dw::encode(m, false);	// root (the type tells the queries apart)
	case 12: { q1("opt.example.test", dw::T_A); dw::RR o; o.type = dw::T_OPT; o.cls = 700; m.ar.push_back(o); dw::RR o2; o2.type = dw::T_OPT; o2.cls = 4000; m.ar.push_back(o2); return dw::encode(m, false); }	// two OPT records
	default: q1("MiXed.Example.TEST", dw::T_PTR); add_opt(); return dw::encode(m, false);
	}
}

static void do_respond(struct evdns_server_request *req, int qi, int rcode) {
	SentQ &q = R->qs[qi];
	int r = API(evdns_server_request_respond(req, rcode));
	tr("api respond q=%d rcode=%d -> %d", qi, rcode, r);
	q.responded = true;
	q.rcode = rcode;
}

static void request_cb(struct evdns_server_request *req, void *arg) {
	(void)arg;
	if (!R) return;
	R->callbacks++;
	// which query is this? The server hands us the questions and the peer address; ids are not exposed, so match by content
	sockaddr_storage ss{};
	int alen = evdns_server_request_get_requesting_addr(req, (sockaddr *)&ss, sizeof ss);
	int port = alen > 0 && ss.ss_family == AF_INET ? ntohs(((sockaddr_in *)&ss)->sin_port) : -1;
	int qi = -1;
	for (int pass = 0; pass < 2 && qi < 0; pass++)	// exact matches first, then queries whose reference reading is uncertain
	for (size_t i = 0; i < R->qs.size() && qi < 0; i++) {
		SentQ &q = R->qs[i];
		if (q.callbacks || q.qr || q.bounds || q.odd != (pass == 1)) continue;
		if (!q.odd && (int)q.questions.size() != req->nquestions) continue;	// (for an odd message the reference reading may have stopped early)
		if (q.tcp != (alen <= 0)) continue;	// a request that arrived over TCP has no datagram source address
		if (!q.tcp && port >= 0 && port != ntohs(R->cl[q.client].addr.sin_port)) continue;
		bool same = true;
		for (int k = 0; k < req->nquestions && same && !q.odd; k++) {
			std::string want = dw::dotted(q.questions[k].name);
			if (!q.odd && (want != req->questions[k]->name || q.questions[k].type != req->questions[k]->type || q.questions[k].cls != req->questions[k]->dns_question_class)) same = false;
		}
		if (same) qi = (int)i;
	}
	tr("cb request nquestions=%d first=%s -> q=%d", req->nquestions, req->nquestions ? req->questions[0]->name : "-", qi);
	if (stop()) { evdns_server_request_drop(req); return; }
	if (qi < 0) {
		V("C37", "C37.callback-for-unsent-query", "the user callback ran with %d question(s) (first '%s' type %d) that match no well-formed query any client sent", req->nquestions, req->nquestions ? req->questions[0]->name : "-", req->nquestions ? req->questions[0]->type : 0);
		evdns_server_request_drop(req);
		return;
	}
	SentQ &q = R->qs[qi];
	q.callbacks++;
	if (q.opcode != 0) V("C37", "C37.callback-for-nonstandard-opcode", "query %d has opcode %u, yet the user callback ran", qi, q.opcode);
	Recipe rc;
	if (!R->recipes.empty()) { rc = R->recipes.front(); R->recipes.pop_front(); }
	if (rc.flags & 1) { evdns_server_request_set_flags(req, EVDNS_FLAGS_AA); q.flags |= EVDNS_FLAGS_AA; }
	int n = (int)std::max<int64_t>(0, std::min<int64_t>(rc.n, 1200));
	for (int k = 0; k < n && !stop(); k++) {
		int64_t seedk = rc.shape * 131 + k;
		Rec r;
		r.section = (int)((rc.shape >> 3) % 5 == 0 ? k % 3 : (k < n - n / 4 ? 0 : 1 + k % 2));
		r.name = rec_name((rc.shape & 7) == 7 ? seedk : rc.shape % 7 + 7 * ((seedk / 3) % 5));
		// pairs of records whose names share a suffix nothing earlier in the message has: the second can only be compressed
		// against the first, wherever in the message that one happens to lie
		if ((rc.shape & 7) == 6) r.name = "n" + std::to_string(k) + ".fresh" + std::to_string(k / 2) + "." + std::string(1 + (rc.shape >> 3) % 40, 'p') + ".test";
		r.cls = 1;
		r.ttl = (uint32_t)(seedk * 97 % 100000);
		r.is_name = false;
		int rr = 0;
		switch ((rc.shape + k) % 6) {
		case 0: { uint32_t a[3] = {htonl(0x0a000001u + (uint32_t)k), htonl(0x0a000002u), htonl(0x0a000003u)}; int cnt = 1 + k % 3; r.type = dw::T_A; r.data.assign((char *)a, 4 * cnt);
			// the convenience call adds ONE record holding all addresses
			rr = API(evdns_server_request_add_a_reply(req, r.name.c_str(), cnt, a, (int)r.ttl)); r.section = 0; break; }
		case 1: { unsigned char a6[16] = {0x20, 1, 0xd, 0xb8}; a6[15] = (unsigned char)k; r.type = dw::T_AAAA; r.data.assign((char *)a6, 16); rr = API(evdns_server_request_add_aaaa_reply(req, r.name.c_str(), 1, a6, (int)r.ttl)); r.section = 0; break; }
		case 2: r.type = dw::T_CNAME; r.is_name = true; r.data = rec_name(seedk + 3); rr = API(evdns_server_request_add_cname_reply(req, r.name.c_str(), r.data.c_str(), (int)r.ttl)); r.section = 0; break;
		case 3: r.type = dw::T_PTR; r.is_name = true; r.data = rec_name(seedk + 5); r.name = "4.3.2.1.in-addr.arpa"; rr = API(evdns_server_request_add_ptr_reply(req, nullptr, r.name.c_str(), r.data.c_str(), (int)r.ttl)); r.section = 0; break;
		case 4: { r.type = dw::T_TXT; size_t len = (size_t)((rc.shape >> 5) % 4 == 0 ? seedk * 37 % 3000 : seedk % 60); r.data.assign(len, (char)('a' + k % 26)); rr = API(evdns_server_request_add_reply(req, r.section, r.name.c_str(), r.type, r.cls, (int)r.ttl, (int)r.data.size(), 0, r.data.c_str())); break; }
		default: r.type = dw::T_NS; r.is_name = true; r.data = rec_name(seedk + 1); rr = API(evdns_server_request_add_reply(req, r.section, r.name.c_str(), r.type, r.cls, (int)r.ttl, -1, 1, r.data.c_str())); break;
		}
		if (rr == 0) q.added.push_back(r);
		else tr("api add_reply k=%d -> %d", k, rr);
	}
	q.expect_known = true;
	int rcode = (int)(rc.rcode % 16);
	int kind = (int)(rc.kind % 4);
	if (kind == 2 && q.tcp && suppressed("tcp-request-held-across-close")) { kind = 0; probe("known:tcp-request-held-across-close"); }
	switch (kind) {
	case 1: { int r = API(evdns_server_request_drop(req)); tr("api drop q=%d -> %d", qi, r); q.dropped = true; probe("request-dropped"); break; }
	case 2: R->held.push_back(Held{req, qi, rcode}); probe("request-held"); break;
	default: do_respond(req, qi, rcode); break;
	}
}

static void exec_op(const Op &op) {
	if (stop() || G.capped) return;
	switch (op.code) {
	case OP_QUERY: {
		int ci = (int)(op.a[0] % NCLIENT);
		bool tcp = op.a[1] & 1;
		Client &c = R->cl[ci];
		if (R->ports_closed) break;
		uint16_t id = R->next_id++;
		std::string bytes = make_query((int)op.a[2], op.a[3], id, (int)op.a[4]);
		// what the server will see as one message: the datagram, or whatever the length prefixes cut out of the stream
		auto note = [&](const std::string &msg) {
			SentQ q;
			q.client = ci;
			q.tcp = tcp;
			q.id = id;
			q.bytes = msg;
			q.conn_epoch = c.conn_epoch;
			unsigned wire_id = msg.size() >= 2 ? (((unsigned char)msg[0] << 8) | (unsigned char)msg[1]) : 0;	// mutations may have changed it
			ref_query(q);
			int qi = (int)R->qs.size();
			R->qs.push_back(q);
			R->by_id[{ci * 2 + (tcp ? 1 : 0), (int)wire_id}].push_back(qi);
			tr("client%d %s query q=%d shape=%d n=%zu decodable=%d bounds=%d odd=%d qr=%d opcode=%u nq=%zu opt=%d/%u", ci, tcp ? "tcp" : "udp", qi, (int)(op.a[2] % 14), msg.size(), q.decodable, q.bounds, q.odd, q.qr, q.opcode, q.questions.size(), q.has_opt, q.opt_size);
		};
		if (!tcp) {
			note(bytes);
			sockaddr_in sa = vk::addr4(0x7f000001, 5353);
			vk::ep_sendto(c.udp, bytes, (sockaddr *)&sa, sizeof sa);
		} else {
			// length prefix; op.a[5] & 6 == 6: the prefix announces more than follows, so the message ends inside the next one;
			// & 1 (rarely): a frame of length zero
			std::string framed;
			size_t l = bytes.size();
			if ((op.a[5] & 6) == 6) l = l + 1 + (size_t)(op.a[3] % 5);
			if ((op.a[5] & 15) == 1) { l = 0; bytes.clear(); }
			framed += (char)(l >> 8); framed += (char)l;
			framed += bytes;
			size_t base = c.tcp_pending.size();
			for (size_t k = 1; k < framed.size(); k++) if (G.net.chance(op.a[5] & 8 ? 0.9 : 0.1)) c.pending_cuts.push_back(base + k);
			c.tcp_pending += framed;
			if (!c.tcp_open && !c.tcp_connecting) { c.stream.clear(); c.framed = 0; c.stream_dead = false; }
			c.stream += framed;
			while (!c.stream_dead && c.stream.size() - c.framed >= 2) {
				size_t fl = ((unsigned char)c.stream[c.framed] << 8) | (unsigned char)c.stream[c.framed + 1];
				if (fl == 0) { c.stream_dead = true; probe("zero-length-frame"); break; }
				if (c.stream.size() - c.framed < 2 + fl) break;
				note(c.stream.substr(c.framed + 2, fl));
				c.framed += 2 + fl;
			}
			if (c.tcp_open) client_tcp_flush(ci); else client_tcp_connect(ci);
		}
		break;
	}
	case OP_RECIPE: {
		Recipe r;
		r.kind = (int)op.a[0]; r.n = op.a[1]; r.shape = op.a[2]; r.rcode = op.a[3]; r.flags = op.a[4];
		if (R->recipes.size() < 64) R->recipes.push_back(r);
		break;
	}
	case OP_LOOP: {
		int iters = (int)std::max<int64_t>(1, op.a[0] % 30);
		for (int k = 0; k < iters && !stop() && !G.capped; k++) {
			R->stalled = false;
			int r = event_base_loop(R->base, op.a[1] > 0 ? EVLOOP_ONCE : EVLOOP_NONBLOCK);
			if (r != 0 || R->stalled) { if (vk::events_pending() && op.a[1] > 0) vk::advance_running(std::max<int64_t>(0, vk::next_event_time() - G.now_ns)); else break; }
		}
		break;
	}
	case OP_ADVANCE: vk::advance_running(std::max<int64_t>(0, op.a[0]) * 1000000); break;
	case OP_TCP_CLOSE: {
		Client &c = R->cl[op.a[0] % NCLIENT];
		if (!c.tcp_open) break;
		c.tcp_open = false;
		if (op.a[1] & 1) vk::ep_reset(c.tcp); else { vk::ep_shutdown(c.tcp); vk::ep_close(c.tcp); }
		c.tcp_in.clear();
		c.stream.clear(); c.framed = 0; c.stream_dead = false;
		c.conn_epoch++;
		probe("client-closed-tcp");
		break;
	}
	case OP_PORT_OPTION: {
		if (R->ports_closed || !R->tport) break;
		if (op.a[0] & 1) { R->limited_clients = true; int r = API(evdns_server_port_set_option(R->tport, EVDNS_SOPT_TCP_MAX_CLIENTS, (size_t)(1 + op.a[1] % 3))); tr("api set max clients -> %d", r); }
		else { int r = API(evdns_server_port_set_option(R->tport, EVDNS_SOPT_TCP_IDLE_TIMEOUT, (size_t)(1 + op.a[1] % 20))); tr("api set idle timeout -> %d", r); }
		break;
	}
	case OP_RESPOND_HELD: {
		if (R->held.empty()) break;
		size_t k = (size_t)op.a[0] % R->held.size();
		Held h = R->held[k];
		R->held.erase(R->held.begin() + k);
		if (op.a[1] & 1) { int r = API(evdns_server_request_drop(h.req)); tr("api drop held q=%d -> %d", h.qi, r); R->qs[h.qi].dropped = true; }
		else do_respond(h.req, h.qi, h.rcode);
		probe("held-request-finished");
		break;
	}
	case OP_CLOSE_PORT: {
		if (R->ports_closed) break;
		// closing with requests still held: the port lives on until the last of them is answered or dropped
		tr("api close_server_port (held=%zu)", R->held.size());
		APIV(evdns_close_server_port(R->uport));
		if (R->tport) APIV(evdns_close_server_port(R->tport));
		R->ports_closed = true;
		probe("port-closed");
		break;
	}
	}
}

static void execute(const Plan &p) {
	Run run;
	R = &run;
	run.plan = &p;
	vk::net.sim_sockets = true;
	vk::net.lat_min_ns = p.c("lat_min_us", 100) * 1000;
	vk::net.lat_max_ns = p.c("lat_max_us", 100) * 1000;
	vk::net.connect_lat_ns = p.c("connect_lat_us", 100) * 1000;
	vk::net.sockbuf = (size_t)p.c("sockbuf", 65536);
	vk::wait_cap = 30000;
	static const struct { const char *k; vk::Site s; } sites[] = {
		{"f_sendto_eagain", vk::S_SENDTO_EAGAIN}, {"f_recv_eagain", vk::S_RECV_EAGAIN}, {"f_read_short", vk::S_READ_SHORT}, {"f_write_short", vk::S_WRITE_SHORT},
		{"f_read_eagain", vk::S_READ_EAGAIN}, {"f_write_eagain", vk::S_WRITE_EAGAIN},
	};
	for (auto &s : sites) if (p.c(s.k)) { vk::set_fault(s.s, (int)p.c(s.k)); run.faulty_io = true; }
	vk::hooks.stall = []() { if (R && R->base) { R->stalled = true; event_base_loopbreak(R->base); } };
	vk::hooks.capped = []() { if (R && R->base) event_base_loopbreak(R->base); };
	struct event_config *cfg = event_config_new();
	static const char *const methods[] = {"epoll", "poll", "select"};
	int meth = (int)(p.c("backend") % 3);
	for (int i = 0; i < 3; i++) if (i != meth) event_config_avoid_method(cfg, methods[i]);
	event_config_set_flag(cfg, EVENT_BASE_FLAG_IGNORE_ENV);
	run.base = event_base_new_with_config(cfg);
	event_config_free(cfg);
	if (!run.base) { violation("C37.base-new", "no event base"); R = nullptr; return; }
	sockaddr_in sa = vk::addr4(0x7f000001, 5353);
	run.ufd = socket(AF_INET, SOCK_DGRAM, 0);
	if (run.ufd < 0 || bind(run.ufd, (sockaddr *)&sa, sizeof sa) != 0) { violation("C37.setup", "cannot create the server's UDP socket"); event_base_free(run.base); R = nullptr; return; }
	evutil_make_socket_nonblocking(run.ufd);
	run.uport = API(evdns_add_server_port_with_base(run.base, run.ufd, 0, request_cb, nullptr));
	run.lev = evconnlistener_new_bind(run.base, nullptr, nullptr, LEV_OPT_CLOSE_ON_FREE | LEV_OPT_REUSEABLE, 16, (sockaddr *)&sa, sizeof sa);
	if (run.lev) run.tport = API(evdns_add_server_port_with_listener(run.base, run.lev, 0, request_cb, nullptr));
	if (!run.uport || !run.tport) { violation("C37.setup", "cannot create the server ports"); R = nullptr; return; }
	for (int i = 0; i < NCLIENT; i++) {
		Client &c = run.cl[i];
		c.addr = vk::addr4(0x7f000001, (uint16_t)(6000 + i));
		vk::EndpointCbs cb;
		cb.on_dgram = [i](vk::Endpoint *, const std::string &d, const sockaddr_storage &, socklen_t) { check_response(i, false, d); };
		c.udp = vk::ep_dgram((sockaddr *)&c.addr, sizeof c.addr, cb);
	}
	tr("cfg backend=%s", event_base_get_method(run.base));

	for (auto &op : p.ops) { if (stop() || G.capped) break; exec_op(op); }

	// settle: everything in flight is delivered, held requests are answered
	if (!stop() && !G.capped) {
		for (int s = 0; s < vk::S_NSITES; s++) vk::set_fault((vk::Site)s, 0);
		for (int round = 0; round < 3 && !stop(); round++) {
			for (int k = 0; k < 100000 && !stop() && !G.capped; k++) {	// byte-wise delivery through a 64-byte socket buffer takes thousands of steps
				run.stalled = false;
				int r = event_base_loop(run.base, EVLOOP_NONBLOCK);
				if (r < 0) break;
				if (!vk::events_pending()) break;
				vk::advance_running(std::max<int64_t>(0, vk::next_event_time() - G.now_ns));
			}
			while (!run.held.empty() && !stop()) { Held h = run.held.back(); run.held.pop_back(); do_respond(h.req, h.qi, h.rcode); }
		}
		for (int k = 0; k < 20 && !stop(); k++) { event_base_loop(run.base, EVLOOP_NONBLOCK); if (vk::events_pending()) vk::advance_running(std::max<int64_t>(0, vk::next_event_time() - G.now_ns)); }
		// C37: the callback ran exactly for the well-formed standard queries (that reached an open port)
		for (size_t i = 0; i < run.qs.size() && !stop(); i++) {
			SentQ &q = run.qs[i];
			if (q.callbacks > 1) { V("C37", "C37.callback-twice", "query %zu reached the user callback %d times", i, q.callbacks); break; }
			// a well-formed standard query written to a connection that is still up (or sent as a datagram to an open port)
			// reaches the callback
			bool deliverable = q.decodable && !q.odd && !q.qr && !q.bounds && q.opcode == 0 && !q.questions.empty() && !run.ports_closed && !run.limited_clients && !run.faulty_io;
			if (deliverable && q.tcp) deliverable = q.conn_epoch == run.cl[q.client].conn_epoch && run.cl[q.client].tcp_open && !run.cl[q.client].stream_dead;
			if (deliverable && q.callbacks == 0 && vk::events_pending()) { probe("settle-budget-exhausted"); continue; }	// the network has not delivered everything yet: no verdict
			if (deliverable && q.callbacks == 0) { V("C37", "C37.query-not-delivered", "query %zu (%s, %zu bytes, %zu question(s)) is a well-formed standard query and its %s is still up, yet the user callback never ran for it", i, q.tcp ? "tcp" : "udp", q.bytes.size(), q.questions.size(), q.tcp ? "connection" : "port"); break; }
			if ((q.qr || q.bounds) && q.callbacks) { V("C37", "C37.callback-for-invalid", "query %zu (%s) is %s, yet the user callback ran", i, hexs(q.bytes).c_str(), q.qr ? "a response" : "cut short / reaching outside the packet"); break; }
		}
	}
	// teardown
	for (auto &h : run.held) evdns_server_request_drop(h.req);
	run.held.clear();
	if (!run.ports_closed) { APIV(evdns_close_server_port(run.uport)); if (run.tport) APIV(evdns_close_server_port(run.tport)); run.ports_closed = true; }
	for (int k = 0; k < 4; k++) event_base_loop(run.base, EVLOOP_NONBLOCK);
	if (mon::locks_enabled && mon::held() != 0 && !stop()) violation("C08.lock-held-at-end", "%d lock acquisition(s) held at the end", mon::held());
	event_base_free(run.base);
	run.base = nullptr;
	if (vk::is_sim_fd(run.ufd)) { vk::HarnessScope hs; close(run.ufd); }
	if (!stop() && !G.capped) {
		const char *lp = (p.prop == "C35" || p.prop == "C37") ? "C37" : "C10";
		if (mon::live_blocks_run() != 0) violation((std::string(lp) + ".leak").c_str(), "%lld block(s) allocated by the library still live after the ports were closed and the base freed: %s", (long long)mon::live_blocks_run(), mon::live_blocks_desc(6).c_str());
		else if (vk::open_fd_count_lib() != 0) violation((std::string(lp) + ".fd-leak").c_str(), "library fds still open: %s", vk::open_fd_list_lib().c_str());
	}
	if (!stop()) {
		if (p.prop == "C35") G.nontrivial = run.multi_record > 0;
		else if (p.prop == "C08") G.nontrivial = mon::locks_enabled && run.callbacks > 0;
		else G.nontrivial = run.callbacks > 0 || !run.qs.empty();
	}
	R = nullptr;
}

static void generate(Plan &p, Rng &r) {
	const std::string &prop = p.prop;
	bool thorough = p.tier == "thorough";
	p.cfg["backend"] = r.below(3);
	p.cfg["lat_min_us"] = r.pick(std::vector<int64_t>{1, 100, 5000});
	p.cfg["lat_max_us"] = p.cfg["lat_min_us"] + (r.chance(0.5) ? 0 : (int64_t)r.below(20000));
	p.cfg["connect_lat_us"] = r.pick(std::vector<int64_t>{0, 100, 5000});
	p.cfg["sockbuf"] = r.pick(std::vector<int64_t>{64, 1024, 65536, 1048576});
	if (r.chance(0.3)) {
		static const char *ks[] = {"f_sendto_eagain", "f_recv_eagain", "f_read_short", "f_write_short", "f_read_eagain", "f_write_eagain"};
		for (auto k : ks) if (r.chance(0.3)) p.cfg[k] = r.pick(std::vector<int64_t>{10, 50, 200});
	}
	int nops = thorough ? (int)r.range(6, 70) : (int)r.range(3, 30);
	for (int i = 0; i < nops; i++) {
		Op o;
		int x = (int)r.below(100);
		if (x < 34) {
			o.code = OP_QUERY;
			o.a[0] = r.below(NCLIENT);
			o.a[1] = r.chance(0.45);
			o.a[2] = prop == "C35" ? r.pick(std::vector<int64_t>{0, 0, 0, 1, 1, 2, 11, 13, 12}) : r.below(14);
			o.a[3] = r.below(100000);
			o.a[4] = r.below(6);
			o.a[5] = r.chance(0.8) ? (r.chance(0.3) ? 8 : 0) : r.below(16);
		} else if (x < 60) {
			o.code = OP_RECIPE;
			o.a[0] = r.chance(0.75) ? 0 : r.below(4);
			o.a[1] = prop == "C35" ? (r.chance(0.2) ? r.range(100, 1200) : r.chance(0.3) ? r.range(10, 60) : r.range(0, 8)) : r.range(0, 6);
			o.a[2] = r.below(4096);
			if (prop == "C35" && o.a[1] >= 100 && r.chance(0.5)) o.a[2] = (o.a[2] & ~7) | 6;	// large responses made of suffix-sharing pairs (16 KiB boundary)
			o.a[3] = r.chance(0.7) ? 0 : r.below(16);
			o.a[4] = r.below(2);
		} else if (x < 84) { o.code = OP_LOOP; o.a[0] = r.range(1, 20); o.a[1] = r.chance(0.7); }
		else if (x < 89) { o.code = OP_ADVANCE; o.a[0] = r.pick(std::vector<int64_t>{1, 100, 999, 5000, 9999, 10000, 10001, 30000}); }
		else if (x < 93) { o.code = OP_TCP_CLOSE; o.a[0] = r.below(NCLIENT); o.a[1] = r.below(2); }
		else if (x < 96) { o.code = OP_PORT_OPTION; o.a[0] = r.below(2); o.a[1] = r.below(20); }
		else if (x < 99) { o.code = OP_RESPOND_HELD; o.a[0] = r.below(8); o.a[1] = r.chance(0.25); }
		else { o.code = OP_CLOSE_PORT; }
		p.ops.push_back(o);
	}
}

static std::vector<int64_t> cfg_simpler(const std::string &key, int64_t cur) {
	if (key == "lat_min_us" || key == "lat_max_us" || key == "connect_lat_us") return cur != 100 ? std::vector<int64_t>{100} : std::vector<int64_t>{};
	if (key == "sockbuf") return cur != 65536 ? std::vector<int64_t>{65536} : std::vector<int64_t>{};
	if (cur != 0) return {0};
	return {};
}

static void process_init(int cls) { (void)cls; struct event_base *b = event_base_new(); struct evdns_base *d = evdns_base_new(b, 0); if (d) evdns_base_free(d, 0); event_base_free(b); }

int main(int argc, char **argv) {
	static Harness h = {"h_dnss", opnames, OP_N, generate, execute, cfg_simpler, process_init};
	return harness_main(argc, argv, h);
}
