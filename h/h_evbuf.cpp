// H3: evbuffer harness — C12 (byte-string model, fault-free), C13 (change callbacks),
// C14 (n-th allocation failure sweep), C15 (references and file segments), C16 (scripted socket I/O).
#include <cerrno>
#include <cstring>
#include <deque>
#include <map>
#include <set>
#include <sys/socket.h>
#include <sys/mman.h>
#include <sys/uio.h>
#include <unistd.h>
#include <fcntl.h>
#include <event2/event.h>
#include <event2/buffer.h>
#include "sim/sim.hpp"
#include "vk/vk.hpp"
#include "mon/mon.hpp"
#include "shim/shim.h"

using namespace sim;
extern "C" void event_mm_free_(void *);

extern "C" ssize_t __real_write(int, const void *, size_t);
extern "C" ssize_t __real_read(int, void *, size_t);

enum {
	OP_ADD, OP_PREPEND, OP_PRINTF, OP_EXPAND, OP_RESERVE, OP_IOVEC, OP_ADD_BUFFER, OP_PREPEND_BUFFER, OP_REMOVE_BUFFER,
	OP_ADD_BUFREF, OP_ADD_REF, OP_DRAIN, OP_REMOVE, OP_COPYOUT, OP_COPYOUT_FROM, OP_PULLUP, OP_PEEK, OP_SEARCH, OP_SEARCH_EOL,
	OP_READLN, OP_PTR, OP_FREEZE, OP_UNFREEZE, OP_CB_ADD, OP_CB_REMOVE, OP_CB_FLAGS, OP_FLUSH, OP_READ, OP_WRITE,
	OP_ADD_FILE, OP_RENEW, OP_N
};
static const char *const opnames[OP_N] = {
	"add", "prepend", "add_printf", "expand", "reserve_commit", "add_iovec", "add_buffer", "prepend_buffer", "remove_buffer",
	"add_buffer_reference", "add_reference", "drain", "remove", "copyout", "copyout_from", "pullup", "peek", "search", "search_eol",
	"readln", "ptr_set", "freeze", "unfreeze", "cb_add", "cb_remove", "cb_flags", "flush_loop", "read", "write",
	"add_file_segment", "free_and_new",
};

#define NBUF 4
#define MAXCB 4

struct MCb {
	bool exists = false, enabled = true, nodefer = false;
	struct evbuffer_cb_entry *ent = nullptr;
	uint64_t exp_add = 0, exp_del = 0;	// changes made while it was registered and enabled (ideal: told exactly these)
	uint64_t unrep_add = 0, unrep_del = 0;	// part of exp still waiting for the deferred pass
	uint64_t slack_add = 0, slack_del = 0;	// pending changes that predate its registration / enabling: it may be told those too
	uint64_t got_add = 0, got_del = 0;
	int calls = 0;
	int mutate = 0;		// 0 none, 1 drain 1 byte when told about an add, 2 remove itself
};
struct MBuf {
	std::string data;
	std::vector<int> tag;	// per byte: low 20 bits: reference / segment id it depends on (0 none); high bits: generation of the evbuffer it keeps alive through a buffer reference (0 none)
	bool fz_start = false, fz_end = false;
	bool deferred = false;
	uint64_t pend_add = 0, pend_del = 0;	// deferred buffers: changes not yet reported
	MCb cbs[MAXCB];
};
struct Ref {
	int id;
	char *mem = nullptr;	// page-aligned, read-only while referenced
	size_t maplen = 0, len = 0;
	int cleanups = 0;
	bool is_seg = false;
	struct evbuffer_file_segment *seg = nullptr;
	int fd = -1;
	std::string content;	// what the bytes must read as
};

struct Run {
	const Plan *plan;
	struct event_base *base = nullptr;
	struct evbuffer *b[NBUF];
	MBuf m[NBUF];
	std::vector<Ref *> refs;
	uint64_t ctr = 1;
	int sp[2] = {-1, -1};		// socketpair for read/write ops: library side sp[0], harness side sp[1]
	bool faulted = false;		// an allocation failure has fired in this pass
	int mode = 0;			// 0 model, 1 alloc sweep pass with a failure armed
	bool in_dispatch = false, nested_mutation = false;
	int ops = 0, maxchains = 0, cb_both = 0, partials = 0, ref_reads = 0, cleanups_seen = 0;
	bool fail_inside_op = false;
	bool cycle_made = false;	// a reference to buffer X was moved into X itself (possibly through other buffers)
	std::map<int, std::set<int>> keeps;	// evbuffer generation -> generations it keeps alive through buffer references (never shrinks: conservative)
	bool in_loop = false;
	int pending_drain[NBUF] = {0, 0, 0, 0};
	int gen[NBUF] = {1, 2, 3, 4};	// identity of the evbuffer object in each slot (changes on free_and_new)
	int next_gen = 5;	// drains done by callbacks during the current call: applied to the model after the call's own effect
};
static Run *R;

static std::string payload(size_t n, int flavour) {
	std::string s(n, 0);
	for (size_t i = 0; i < n; i++) {
		uint64_t c = R->ctr++;
		unsigned char ch = (unsigned char)(33 + (c * 7 + (c >> 8) * 3) % 90);
		if (flavour) {
			uint64_t r = mix64(c) % 97;
			if (r < 3 && (flavour & 1)) ch = '\n';
			else if (r < 6 && (flavour & 1)) ch = '\r';
			else if (r < 7 && (flavour & 2)) ch = 0;
		}
		s[i] = (char)ch;
	}
	return s;
}

static std::string real_content(struct evbuffer *b) {
	size_t len = evbuffer_get_length(b);
	std::string out;
	int n = evbuffer_peek(b, -1, nullptr, nullptr, 0);
	if (n <= 0) return out;
	std::vector<struct evbuffer_iovec> v(n);
	int n2 = evbuffer_peek(b, -1, nullptr, v.data(), n);
	for (int i = 0; i < n2 && i < n; i++) out.append((const char *)v[i].iov_base, v[i].iov_len);
	(void)len;
	return out;
}

static bool reaches(int from, int to, int depth = 0) {
	if (from == to) return true;
	if (depth > 16) return true;
	auto it = R->keeps.find(from);
	if (it == R->keeps.end()) return false;
	for (int n : it->second) if (reaches(n, to, depth + 1)) return true;
	return false;
}
// would putting bytes with these tags into buffer slot k close a cycle of buffer references?
static bool closes_cycle(int k, const std::vector<int> &tags, size_t n) {
	for (size_t i = 0; i < tags.size() && i < n; i++) { int v = tags[i] >> 20; if (v && reaches(v, R->gen[k])) return true; }
	return false;
}
static void note_moved(int k, const std::vector<int> &tags, size_t n) {
	for (size_t i = 0; i < tags.size() && i < n; i++) { int v = tags[i] >> 20; if (v) R->keeps[R->gen[k]].insert(v); }
}
static const char *PROP() { return R->plan->prop.c_str(); }
static std::string rule(const char *r) {
	// rules of this harness are attributed to the property whose clause they state
	return std::string(r);
}

static bool compare_buf(int k, const char *after) {
	struct evbuffer *b = R->b[k];
	MBuf &m = R->m[k];
	size_t len = evbuffer_get_length(b);
	if (len != m.data.size()) {
		violation(R->mode ? "C14.length" : "C12.length", "after %s: buffer %d length %zu, model %zu", after, k, len, m.data.size());
		return false;
	}
	std::string rc = real_content(b);
	if (rc != m.data) {
		size_t i = 0;
		while (i < rc.size() && i < m.data.size() && rc[i] == m.data[i]) i++;
		bool tagged = i < m.tag.size() && m.tag[i] > 0;
		violation(R->mode ? "C14.content" : (tagged ? "C15.content" : "C12.content"), "after %s: buffer %d differs from the model at offset %zu of %zu (got 0x%02x want 0x%02x)", after, k, i,
		    m.data.size(), i < rc.size() ? (unsigned char)rc[i] : 0, i < m.data.size() ? (unsigned char)m.data[i] : 0);
		return false;
	}
	const char *bad = shim_evbuffer_validate(b);
	if (bad) { violation(R->mode ? "C14.chain-invariant" : "C12.chain-invariant", "after %s: buffer %d: %s", after, k, bad); return false; }
	int nc = shim_evbuffer_nchains_data(b);
	if (nc > R->maxchains) R->maxchains = nc;
	return true;
}

// ---- model mutation helpers: they also account what each enabled callback must be told
static bool any_cb(MBuf &m) { for (auto &c : m.cbs) if (c.exists) return true; return false; }
// Ideal semantics: a callback is told exactly the changes made while it was registered and enabled.
// Deferred buffers accumulate changes (only while some callback is registered) until the loop runs the
// deferred pass; what the implementation may legitimately add or drop around (de)registration and
// enable/disable between change and pass is tracked as slack / unreported.
static void m_change(int k, size_t a, size_t d) {
	MBuf &m = R->m[k];
	// the library forgets unreported counts when a change finds no callback registered; a call that changes nothing
	// (e.g. evbuffer_add of 0 bytes) returns before that point, so it forgets nothing
	if (m.deferred) { if (any_cb(m)) { m.pend_add += a; m.pend_del += d; } else if (a || d) m.pend_add = m.pend_del = 0; }
	for (auto &c : m.cbs) if (c.exists && c.enabled) {
		c.exp_add += a; c.exp_del += d;
		if (m.deferred && !c.nodefer) { c.unrep_add += a; c.unrep_del += d; }
	}
}
static void m_added(int k, size_t n) { m_change(k, n, 0); }
static void m_deleted(int k, size_t n) { m_change(k, 0, n); }
static void m_deferred_dispatch() {
	for (int k = 0; k < NBUF; k++) {
		MBuf &m = R->m[k];
		if (!m.deferred || (!m.pend_add && !m.pend_del)) continue;
		int told = 0;
		for (auto &c : m.cbs) if (c.exists && c.enabled && !c.nodefer) { c.unrep_add = c.unrep_del = 0; told++; }
		if (told && m.pend_add && m.pend_del) probe("deferred-aggregated");
		m.pend_add = m.pend_del = 0;
	}
}
static void m_cb_slack(int k, MCb &c) { MBuf &m = R->m[k]; if (m.deferred) { c.slack_add += m.pend_add; c.slack_del += m.pend_del; } }
static void m_cb_drop_unreported(MCb &c) { c.exp_add -= c.unrep_add; c.exp_del -= c.unrep_del; c.unrep_add = c.unrep_del = 0; }
static void m_append(int k, const std::string &s, int tag = 0) { MBuf &m = R->m[k]; m.data += s; m.tag.insert(m.tag.end(), s.size(), tag); m_added(k, s.size()); }
static void m_prepend(int k, const std::string &s, int tag = 0) { MBuf &m = R->m[k]; m.data.insert(0, s); m.tag.insert(m.tag.begin(), s.size(), tag); m_added(k, s.size()); }
static void m_drain(int k, size_t n) { MBuf &m = R->m[k]; n = std::min(n, m.data.size()); m.data.erase(0, n); m.tag.erase(m.tag.begin(), m.tag.begin() + n); m_deleted(k, n); }

static bool nodefer_safe_mode() { return suppressed("nodefer-on-deferred-buffer"); }
// ---- callbacks (C13)
struct CbArg { int k, c; };
static CbArg cbargs[NBUF][MAXCB];
static void buf_cb(struct evbuffer *b, const struct evbuffer_cb_info *info, void *arg) {
	CbArg *a = (CbArg *)arg;
	MBuf &m = R->m[a->k];
	MCb &c = m.cbs[a->c];
	tr("cb buf%d cb%d orig=%zu add=%zu del=%zu", a->k, a->c, info->orig_size, info->n_added, info->n_deleted);
	if (stop()) return;
	if (!c.exists) { violation("C13.removed-callback-called", "buffer %d callback %d ran after it was removed", a->k, a->c); return; }
	if (!c.enabled) { violation("C13.disabled-callback-called", "buffer %d callback %d ran while disabled", a->k, a->c); return; }
	if (m.deferred && !c.nodefer && !R->in_loop) { violation("C13.deferred-ran-synchronously", "buffer %d: deferred callback %d ran outside the event loop", a->k, a->c); return; }
	size_t now = evbuffer_get_length(b);
	if (!R->nested_mutation && info->orig_size + info->n_added - info->n_deleted != now) {
		violation("C13.inconsistent-report", "buffer %d cb %d: orig %zu + added %zu - deleted %zu != length %zu", a->k, a->c, info->orig_size, info->n_added, info->n_deleted, now);
		return;
	}
	c.calls++;
	c.got_add += info->n_added;
	c.got_del += info->n_deleted;
	if (info->n_added && info->n_deleted) R->cb_both++;
	if (c.mutate == 1 && info->n_added > 0 && now > 0 && !m.fz_start) {
		R->nested_mutation = true;
		probe("callback-mutates-buffer");
		evbuffer_drain(b, 1);
		if (R->in_loop) m_drain(a->k, 1); else R->pending_drain[a->k]++;
	} else if (c.mutate == 2) {
		probe("callback-removes-itself");
		evbuffer_remove_cb_entry(b, c.ent);
		c.exists = false;
		c.mutate = 0;
	}
}
static void check_cb_sums(const char *after) {
	for (int k = 0; k < NBUF && !stop(); k++) {
		MBuf &m = R->m[k];
		for (int c = 0; c < MAXCB; c++) {
			MCb &cb = m.cbs[c];
			if (!cb.exists) continue;
			if (m.deferred && !cb.nodefer) continue;	// compared after a flush
			if (cb.got_add < cb.exp_add || cb.got_del < cb.exp_del || cb.got_add > cb.exp_add + cb.slack_add || cb.got_del > cb.exp_del + cb.slack_del) {
				violation(m.deferred && cb.nodefer ? (nodefer_safe_mode() ? "C13.sums:nodefer-callback-single-change-regime" : "C13.sums:nodefer-on-deferred-buffer") : "C13.sums", "after %s: buffer %d cb %d was told added/deleted %llu/%llu in total, the changes while it was enabled were %llu/%llu", after, k, c,
				    (unsigned long long)cb.got_add, (unsigned long long)cb.got_del, (unsigned long long)cb.exp_add, (unsigned long long)cb.exp_del);
				return;
			}
		}
	}
}
static void check_deferred_sums(const char *after) {
	for (int k = 0; k < NBUF && !stop(); k++) {
		MBuf &m = R->m[k];
		if (!m.deferred) continue;
		for (int c = 0; c < MAXCB; c++) {
			MCb &cb = m.cbs[c];
			if (!cb.exists || cb.nodefer) continue;
			uint64_t ea = cb.exp_add - cb.unrep_add, ed = cb.exp_del - cb.unrep_del;	// a disabled callback keeps its unreported share
			if (cb.got_add < ea || cb.got_del < ed || cb.got_add > cb.exp_add + cb.slack_add || cb.got_del > cb.exp_del + cb.slack_del) {
				violation("C13.deferred-sums", "after %s: buffer %d deferred cb %d was told %llu/%llu in total, changes while enabled were %llu/%llu", after, k, c,
				    (unsigned long long)cb.got_add, (unsigned long long)cb.got_del, (unsigned long long)cb.exp_add, (unsigned long long)cb.exp_del);
				return;
			}
		}
	}
}

// ---- references (C15)
static void ref_cleanup(const void *data, size_t len, void *arg) {
	Ref *r = (Ref *)arg;
	(void)data; (void)len;
	r->cleanups++;
	R->cleanups_seen++;
	tr("cb cleanup ref%d", r->id);
	if (r->cleanups > 1) { violation("C15.cleanup-twice", "cleanup of reference %d ran %d times", r->id, r->cleanups); return; }
	// from now on nobody may depend on the memory: scribble it so that a stale user reads garbage
	if (r->mem) { mprotect(r->mem, r->maplen, PROT_READ | PROT_WRITE); memset(r->mem, 0xEE, r->maplen); }
}
static void seg_cleanup(struct evbuffer_file_segment const *seg, int flags, void *arg) {
	Ref *r = (Ref *)arg;
	(void)seg; (void)flags;
	r->cleanups++;
	R->cleanups_seen++;
	tr("cb segment cleanup ref%d", r->id);
	if (r->cleanups > 1) violation("C15.cleanup-twice", "cleanup of file segment %d ran %d times", r->id, r->cleanups);
}
static void check_refs(const char *after) {
	// when no buffer holds a byte depending on a reference any more, its cleanup must have run
	for (Ref *r : R->refs) {
		if (stop()) return;
		bool held = false;
		for (int k = 0; k < NBUF; k++) for (int t : R->m[k].tag) if ((t & 0xfffff) == r->id) { held = true; break; }
		if (r->is_seg) continue;	// segments are released by evbuffer_file_segment_free + last chain: checked at teardown
		// "after the last dependent byte is gone", not "at once": a buffer that was the source of
		// add_buffer_reference() stays alive until its referrers are gone. Exactly-once is checked at teardown.
		(void)after;
		if (held && r->cleanups > 0) {
			// legal only if every such byte was copied out of the referenced memory; then content still matches (checked by compare_buf)
		}
	}
}

// With the NODEFER-on-deferred known finding listed, the combination is still exercised, but only in the
// regime where the unchanged tree is exact: one change, then the deferred pass, then the next change.
static bool sensitive(int k) { MBuf &m = R->m[k]; if (!m.deferred) return false; for (auto &c : m.cbs) if (c.exists && c.nodefer) return true; return false; }
static void flush_now() {
	if (!R->base) return;
	R->in_loop = true;
	for (int i = 0; i < 3; i++) { m_deferred_dispatch(); event_base_loop(R->base, EVLOOP_NONBLOCK); }
	R->in_loop = false;
}
// ---------------------------------------------------------------------------
struct OpResult { bool ok; };

static int bsel(int64_t v) { return (int)(((v % NBUF) + NBUF) % NBUF); }
static size_t len_arg(int64_t v) { return (size_t)(v < 0 ? 0 : v); }

// Execute one op against the real buffers and the model. In sweep mode (R->mode==1) an allocation
// failure may fire inside: then the op may fail (state unchanged) or succeed (full effect).
static void exec_op(const Op &op) {
	int k = bsel(op.a[0]);
	struct evbuffer *b = R->b[k];
	MBuf &m = R->m[k];
	R->ops++;
	uint64_t fails_before = mon::alloc_failures_fired();
	// snapshot for all-or-nothing comparison
	MBuf pre[NBUF];
	bool sweep = R->mode == 1;
	if (sweep) for (int i = 0; i < NBUF; i++) pre[i] = R->m[i];
	uint64_t ctr_before = R->ctr;
	bool op_failed = false;	// the API reported failure
	char name[64];
	snprintf(name, sizeof name, "%s(buf%d)", opnames[op.code], k);
	R->nested_mutation = false;
	if (nodefer_safe_mode()) {
		bool simple = op.code == OP_ADD || op.code == OP_PREPEND || op.code == OP_PRINTF || op.code == OP_DRAIN || op.code == OP_CB_ADD || op.code == OP_CB_REMOVE ||
		    op.code == OP_CB_FLAGS || op.code == OP_FLUSH || op.code == OP_COPYOUT || op.code == OP_COPYOUT_FROM || op.code == OP_PEEK || op.code == OP_SEARCH ||
		    op.code == OP_SEARCH_EOL || op.code == OP_PTR || op.code == OP_FREEZE || op.code == OP_UNFREEZE || op.code == OP_EXPAND;
		bool touches_sensitive = sensitive(k);
		if (op.code == OP_ADD_BUFFER || op.code == OP_PREPEND_BUFFER || op.code == OP_REMOVE_BUFFER || op.code == OP_ADD_BUFREF) touches_sensitive = touches_sensitive || sensitive(bsel(op.a[1]));
		if (touches_sensitive && !simple) return;
	}

	switch (op.code) {
	case OP_ADD: {
		std::string s = payload(len_arg(op.a[1]), (int)op.a[2]);
		int r = API(evbuffer_add(b, s.data(), s.size()));
		tr("api add buf%d n=%zu -> %d", k, s.size(), r);
		int want = m.fz_end ? -1 : 0;
		if (r == 0) m_append(k, s);
		op_failed = r != 0;
		if (!sweep && r != want) violation("C12.result", "evbuffer_add(%zu bytes) returned %d, model %d", s.size(), r, want);
		break;
	}
	case OP_PREPEND: {
		std::string s = payload(len_arg(op.a[1]), (int)op.a[2]);
		int r = API(evbuffer_prepend(b, s.data(), s.size()));
		tr("api prepend buf%d n=%zu -> %d", k, s.size(), r);
		int want = s.empty() ? 0 : (m.fz_start ? -1 : 0);
		if (r == 0) m_prepend(k, s);
		op_failed = r != 0;
		if (!sweep && r != want) violation("C12.result", "evbuffer_prepend(%zu bytes) returned %d, model %d", s.size(), r, want);
		break;
	}
	case OP_PRINTF: {
		int n = (int)(op.a[1] % 3000);
		std::string s = payload(n, 0);
		int r = API(evbuffer_add_printf(b, "%d:%s|", n, s.c_str()));
		char pfx[32];
		snprintf(pfx, sizeof pfx, "%d:", n);
		std::string full = std::string(pfx) + s + "|";
		tr("api add_printf buf%d n=%zu -> %d", k, full.size(), r);
		int want = m.fz_end ? -1 : (int)full.size();
		if (r >= 0) m_append(k, full);
		op_failed = r < 0;
		if (!sweep && r != want) violation("C12.result", "evbuffer_add_printf returned %d, model %d", r, want);
		break;
	}
	case OP_EXPAND: {
		int r = API(evbuffer_expand(b, len_arg(op.a[1])));
		tr("api expand buf%d n=%lld -> %d", k, (long long)op.a[1], r);
		op_failed = r != 0;
		if (!sweep && r != 0) violation("C12.result", "evbuffer_expand returned %d", r);
		break;
	}
	case OP_RESERVE: {
		size_t size = len_arg(op.a[1]);
		int nv = 1 + (int)(op.a[2] % 4);
		struct evbuffer_iovec v[4];
		int n = API(evbuffer_reserve_space(b, (ev_ssize_t)size, v, nv));
		tr("api reserve buf%d size=%zu nvecs=%d -> %d", k, size, nv, n);
		if (n < 0) {
			op_failed = true;
			if (!sweep && !m.fz_end) violation("C12.result", "evbuffer_reserve_space(%zu,%d) failed", size, nv);
			break;
		}
		if (m.fz_end) { violation("C12.result", "evbuffer_reserve_space succeeded on a buffer frozen at the end"); break; }
		size_t total = 0;
		for (int i = 0; i < n; i++) total += v[i].iov_len;
		if (total < size) { violation("C12.reserve-short", "reserve_space(%zu) returned %d extents with only %zu bytes", size, n, total); break; }
		// use a fraction of the space
		size_t use = size == 0 ? 0 : (size_t)(op.a[3] % (size + 1));
		std::string s = payload(use, 0);
		size_t off = 0;
		int used = 0;
		for (int i = 0; i < n; i++) {
			size_t take = std::min(v[i].iov_len, use - off);
			memcpy(v[i].iov_base, s.data() + off, take);
			v[i].iov_len = take;
			off += take;
			used = i + 1;
			if (off == use && (op.a[4] & 1)) break;
		}
		int r = API(evbuffer_commit_space(b, v, used));
		tr("api commit buf%d used=%zu vecs=%d -> %d", k, use, used, r);
		if (r == 0) m_append(k, s);
		else { op_failed = true; violation("C12.result", "evbuffer_commit_space of %d reserved extents (%zu bytes) failed", used, use); }
		break;
	}
	case OP_IOVEC: {
		int nv = 1 + (int)(op.a[2] % 4);
		struct evbuffer_iovec v[4];
		std::string parts[4], all;
		for (int i = 0; i < nv; i++) { parts[i] = payload(len_arg(op.a[1]) / (i + 1), 0); v[i].iov_base = (void *)parts[i].data(); v[i].iov_len = parts[i].size(); all += parts[i]; }
		size_t r = API(evbuffer_add_iovec(b, v, nv));
		tr("api add_iovec buf%d total=%zu -> %zu", k, all.size(), r);
		size_t want = m.fz_end ? 0 : all.size();
		// add_iovec may add a prefix of the vectors (documented to return the bytes added)
		if (r <= all.size()) {
			size_t acc = 0; bool boundary = r == 0;
			for (int i = 0; i < nv; i++) { acc += parts[i].size(); if (acc == r) boundary = true; }
			if (!boundary) violation(sweep ? "C14.result" : "C12.result", "evbuffer_add_iovec returned %zu which is not a whole number of vectors", r);
			else m_append(k, all.substr(0, r));
		}
		op_failed = false;	// the return value says exactly how much was added; the model follows it
		if (!sweep && r != want) violation("C12.result", "evbuffer_add_iovec returned %zu, model %zu", r, want);
		break;
	}
	case OP_ADD_BUFFER: case OP_PREPEND_BUFFER: {
		int s = bsel(op.a[1]);
		MBuf &ms = R->m[s];
		if (s != k && closes_cycle(k, ms.tag, ms.tag.size())) {
			if (suppressed("buffer-reference-cycle")) break;
			probe("buffer-reference-moved-into-its-source"); R->cycle_made = true;
		}
		if (s != k) note_moved(k, ms.tag, ms.tag.size());
		bool pre_ = op.code == OP_PREPEND_BUFFER;
		int r = pre_ ? API(evbuffer_prepend_buffer(b, R->b[s])) : API(evbuffer_add_buffer(b, R->b[s]));
		tr("api %s dst=buf%d src=buf%d -> %d", pre_ ? "prepend_buffer" : "add_buffer", k, s, r);
		int want = 0;
		if (ms.data.empty() || s == k) want = 0;
		else if ((pre_ ? m.fz_start : m.fz_end) || ms.fz_start) want = -1;
		if (r == 0 && s != k && !ms.data.empty()) {
			std::string d = ms.data;
			std::vector<int> t = ms.tag;
			size_t n = d.size();
			m_deleted(s, n);
			ms.data.clear(); ms.tag.clear();
			if (pre_) { m.data.insert(0, d); m.tag.insert(m.tag.begin(), t.begin(), t.end()); }
			else { m.data += d; m.tag.insert(m.tag.end(), t.begin(), t.end()); }
			m_added(k, n);
		}
		op_failed = r != 0;
		if (!sweep && r != want) violation("C12.result", "%s returned %d, model %d", name, r, want);
		break;
	}
	case OP_REMOVE_BUFFER: {
		int d = bsel(op.a[1]);
		MBuf &md = R->m[d];
		size_t n = len_arg(op.a[2]);
		if (d != k && closes_cycle(d, m.tag, n)) {
			if (suppressed("buffer-reference-cycle")) break;
			probe("buffer-reference-moved-into-its-source"); R->cycle_made = true;
		}
		if (d != k) note_moved(d, m.tag, n);
		int r = API(evbuffer_remove_buffer(b, R->b[d], n));
		tr("api remove_buffer src=buf%d dst=buf%d n=%zu -> %d", k, d, n, r);
		int want;
		if (n == 0 || d == k) want = 0;
		else if (md.fz_end || m.fz_start) want = -1;
		else want = (int)std::min(n, m.data.size());
		if (r > 0 && d != k) {
			size_t mv = (size_t)r;
			if (mv > m.data.size()) { violation("C12.result", "evbuffer_remove_buffer moved %d bytes out of %zu", r, m.data.size()); break; }
			std::string x = m.data.substr(0, mv);
			std::vector<int> t(m.tag.begin(), m.tag.begin() + mv);
			m.data.erase(0, mv); m.tag.erase(m.tag.begin(), m.tag.begin() + mv);
			m_deleted(k, mv);
			md.data += x; md.tag.insert(md.tag.end(), t.begin(), t.end());
			m_added(d, mv);
		}
		op_failed = r < 0;
		if (!sweep && r != want) violation("C12.result", "evbuffer_remove_buffer(%zu) returned %d, model %d", n, r, want);
		if (sweep && r > want) violation("C14.result", "evbuffer_remove_buffer(%zu) returned %d, at most %d can move", n, r, want);
		break;
	}
	case OP_ADD_BUFREF: {
		int s = bsel(op.a[1]);
		MBuf &ms = R->m[s];
		if (s != k && reaches(R->gen[s], R->gen[k])) {
			if (suppressed("buffer-reference-cycle")) break;
			probe("buffer-reference-moved-into-its-source"); R->cycle_made = true;
		}
		int r = API(evbuffer_add_buffer_reference(b, R->b[s]));
		if (r == 0 && s != k && !ms.data.empty()) R->keeps[R->gen[k]].insert(R->gen[s]);
		tr("api add_buffer_reference dst=buf%d src=buf%d -> %d", k, s, r);
		bool special = false;
		for (int t : ms.tag) if (t != 0) special = true;	// reference / segment / multicast chains cannot be referenced again (some of them)
		if (r == 0 && !ms.data.empty() && s != k) {
			m.data += ms.data;
			for (int t : ms.tag) m.tag.push_back((t & 0xfffff) | (R->gen[s] << 20));	// bytes that keep buffer `s` alive
			m_added(k, ms.data.size());
			probe("buffer-reference");
		}
		op_failed = r != 0;
		if (!sweep && !special) {
			int want = ms.data.empty() ? 0 : ((m.fz_end || s == k) ? -1 : 0);
			if (r != want) violation("C12.result", "evbuffer_add_buffer_reference returned %d, model %d", r, want);
		}
		break;
	}
	case OP_ADD_REF: {
		size_t n = 1 + len_arg(op.a[1]) % 20000;
		size_t offset = (op.a[2] & 1) ? (size_t)(op.a[3] % n) : 0;
		Ref *r = new Ref();
		r->id = (int)R->refs.size() + 1;
		r->maplen = ((n + 4095) / 4096) * 4096;
		r->mem = (char *)mmap(nullptr, r->maplen, PROT_READ | PROT_WRITE, MAP_PRIVATE | MAP_ANONYMOUS, -1, 0);
		std::string s = payload(n, (int)op.a[4]);
		memcpy(r->mem, s.data(), n);
		mprotect(r->mem, r->maplen, PROT_READ);	// referenced chains are never modified in place
		r->len = n;
		r->content = s;
		R->refs.push_back(r);
		int rc;
		if (op.a[2] & 1) rc = API(evbuffer_add_reference_with_offset(b, r->mem, offset, n - offset, ref_cleanup, r));
		else rc = API(evbuffer_add_reference(b, r->mem, n, ref_cleanup, r));
		tr("api add_reference buf%d n=%zu off=%zu -> %d", k, n, offset, rc);
		int want = m.fz_end ? -1 : 0;
		if (rc == 0) m_append(k, s.substr(offset), r->id);
		else {
			// not taken: the caller still owns the memory, cleanup must not run
			if (r->cleanups) violation("C15.cleanup-on-failure", "evbuffer_add_reference failed but ran the cleanup");
			r->cleanups = 1;	// retire: never expected again
			mprotect(r->mem, r->maplen, PROT_READ | PROT_WRITE);
		}
		op_failed = rc != 0;
		if (!sweep && rc != want) violation("C12.result", "evbuffer_add_reference returned %d, model %d", rc, want);
		break;
	}
	case OP_DRAIN: {
		size_t n = len_arg(op.a[1]);
		int r = API(evbuffer_drain(b, n));
		tr("api drain buf%d n=%zu -> %d", k, n, r);
		int want = m.data.empty() ? 0 : (m.fz_start ? -1 : 0);
		if (r == 0) m_drain(k, n);
		op_failed = r != 0;
		if (r != want) violation("C12.result", "evbuffer_drain(%zu) returned %d, model %d", n, r, want);
		break;
	}
	case OP_REMOVE: case OP_COPYOUT: {
		size_t n = len_arg(op.a[1]);
		std::string out(n + 1, '\x7f');
		bool rm = op.code == OP_REMOVE;
		ev_ssize_t r = rm ? (ev_ssize_t)API(evbuffer_remove(b, &out[0], n)) : API(evbuffer_copyout(b, &out[0], n));
		tr("api %s buf%d n=%zu -> %zd", rm ? "remove" : "copyout", k, n, r);
		size_t avail = std::min(n, m.data.size());
		ev_ssize_t want = avail == 0 ? 0 : (m.fz_start ? -1 : (ev_ssize_t)avail);
		if (r != want) { violation("C12.result", "%s(%zu) returned %zd, model %zd", name, n, r, want); break; }
		if (r > 0) {
			if (memcmp(out.data(), m.data.data(), r) != 0) { bool tg = m.tag[0] > 0; violation(tg ? "C15.read-content" : "C12.read-content", "%s returned bytes that differ from the model", name); break; }
			if (m.tag[0] > 0) R->ref_reads++;
			if (rm) m_drain(k, r);
		}
		if (out[n] != '\x7f') violation("C12.overrun", "%s wrote past the %zu bytes it was given", name, n);
		break;
	}
	case OP_COPYOUT_FROM: {
		size_t pos = m.data.empty() ? 0 : (size_t)(op.a[2] % (m.data.size() + 1));
		size_t n = len_arg(op.a[1]);
		struct evbuffer_ptr p;
		if (evbuffer_ptr_set(b, &p, pos, EVBUFFER_PTR_SET) != 0) { violation("C12.ptr", "evbuffer_ptr_set(%zu) failed with length %zu", pos, m.data.size()); break; }
		std::string out(n + 1, '\x7f');
		ev_ssize_t r = API(evbuffer_copyout_from(b, &p, &out[0], n));
		tr("api copyout_from buf%d pos=%zu n=%zu -> %zd", k, pos, n, r);
		size_t avail = std::min(n, m.data.size() - pos);
		ev_ssize_t want = avail == 0 ? 0 : (m.fz_start ? -1 : (ev_ssize_t)avail);
		if (r != want) { violation("C12.result", "evbuffer_copyout_from(pos %zu, %zu) returned %zd, model %zd", pos, n, r, want); break; }
		if (r > 0 && memcmp(out.data(), m.data.data() + pos, r) != 0) violation("C12.read-content", "evbuffer_copyout_from returned bytes that differ from the model");
		break;
	}
	case OP_PULLUP: {
		ev_ssize_t n = op.a[2] & 1 ? -1 : (ev_ssize_t)len_arg(op.a[1]);
		unsigned char *p = API(evbuffer_pullup(b, n));
		tr("api pullup buf%d n=%zd -> %s", k, n, p ? "ptr" : "NULL");
		size_t want_n = n < 0 ? m.data.size() : (size_t)n;
		bool want_ok = want_n > 0 && want_n <= m.data.size();
		if (p && !want_ok) { violation("C12.result", "evbuffer_pullup(%zd) returned data with only %zu bytes buffered", n, m.data.size()); break; }
		if (!p && want_ok) { op_failed = true; if (!sweep) violation("C12.result", "evbuffer_pullup(%zd) returned NULL with %zu bytes buffered", n, m.data.size()); break; }
		if (p && memcmp(p, m.data.data(), want_n) != 0) { violation(m.tag[0] > 0 ? "C15.read-content" : "C12.read-content", "evbuffer_pullup(%zd): contiguous bytes differ from the model", n); break; }
		if (p && m.tag[0] > 0) R->ref_reads++;
		if (p && want_n > 1) probe("pullup");
		break;
	}
	case OP_PEEK: {
		size_t pos = m.data.empty() ? 0 : (size_t)(op.a[2] % (m.data.size() + 1));
		bool use_pos = op.a[3] & 1;
		ev_ssize_t len = (op.a[3] & 2) ? -1 : (ev_ssize_t)len_arg(op.a[1]);
		int nv = (int)(op.a[4] % 5);
		struct evbuffer_ptr p;
		if (use_pos && evbuffer_ptr_set(b, &p, pos, EVBUFFER_PTR_SET) != 0) { violation("C12.ptr", "evbuffer_ptr_set(%zu) failed", pos); break; }
		struct evbuffer_iovec v[5];
		int r = API(evbuffer_peek(b, len, use_pos ? &p : nullptr, v, nv));
		tr("api peek buf%d len=%zd pos=%zd nvec=%d -> %d", k, len, use_pos ? (ssize_t)pos : -1, nv, r);
		size_t from = use_pos ? pos : 0;
		size_t avail = m.data.size() - from;
		std::string got;
		for (int i = 0; i < r && i < nv; i++) got.append((const char *)v[i].iov_base, v[i].iov_len);
		if (got.size() > avail || memcmp(got.data(), m.data.data() + from, got.size()) != 0) { violation("C12.read-content", "evbuffer_peek extents do not spell the buffered bytes from offset %zu", from); break; }
		if (nv > 0 && (len < 0 ? r < nv : r <= nv)) {	// all extents fit (with len < 0 a full vector array says nothing)
			size_t need = len < 0 ? avail : std::min<size_t>(len, avail);
			if (got.size() < need) violation("C12.result", "evbuffer_peek(len %zd) returned %d extents covering %zu bytes, %zu are available", len, r, got.size(), need);
		}
		break;
	}
	case OP_SEARCH: {
		size_t start = m.data.empty() ? 0 : (size_t)(op.a[2] % (m.data.size() + 1));
		size_t wl = 1 + (size_t)(op.a[1] % 4);
		std::string what;
		size_t src = m.data.empty() ? 0 : (size_t)(op.a[3] % m.data.size());
		if (!m.data.empty() && (op.a[4] & 1)) what = m.data.substr(src, wl);	// something that occurs
		else what = std::string(wl, (char)(33 + op.a[3] % 90));
		if (what.empty()) what = "x";
		bool use_start = op.a[4] & 2, use_end = op.a[4] & 4;
		size_t end = start + (size_t)(op.a[5] % (m.data.size() - start + 1));
		struct evbuffer_ptr ps, pe, res;
		if (use_start && evbuffer_ptr_set(b, &ps, start, EVBUFFER_PTR_SET) != 0) { violation("C12.ptr", "ptr_set failed"); break; }
		if (use_end && evbuffer_ptr_set(b, &pe, end, EVBUFFER_PTR_SET) != 0) { violation("C12.ptr", "ptr_set failed"); break; }
		if (use_end) res = API(evbuffer_search_range(b, what.data(), what.size(), use_start ? &ps : nullptr, &pe));
		else res = API(evbuffer_search(b, what.data(), what.size(), use_start ? &ps : nullptr));
		size_t from = use_start ? start : 0;
		size_t f = m.data.find(what, from);
		ev_ssize_t want = f == std::string::npos ? -1 : (ev_ssize_t)f;
		if (use_end && want >= 0 && (size_t)want + what.size() > end) want = -1;
		tr("api search buf%d len=%zu from=%zu -> %zd", k, what.size(), from, (ssize_t)res.pos);
		if (res.pos != want) violation("C12.search", "evbuffer_search%s for a %zu-byte pattern from %zu%s returned %zd, model %zd", use_end ? "_range" : "", what.size(), from, use_end ? " with an end" : "", (ssize_t)res.pos, (ssize_t)want);
		else if (want >= 0) probe("search-hit");
		break;
	}
	case OP_SEARCH_EOL: case OP_READLN: {
		static const enum evbuffer_eol_style styles[] = {EVBUFFER_EOL_ANY, EVBUFFER_EOL_CRLF, EVBUFFER_EOL_CRLF_STRICT, EVBUFFER_EOL_LF, EVBUFFER_EOL_NUL};
		int st = (int)(op.a[1] % 5);
		bool readln = op.code == OP_READLN;
		size_t start = (!readln && (op.a[3] & 1) && !m.data.empty()) ? (size_t)(op.a[2] % (m.data.size() + 1)) : 0;
		bool use_start = !readln && (op.a[3] & 1);
		if (use_start && (op.a[3] & 2)) {
			// half of the searches with a start pointer begin at or right after a line-end byte: a start inside a CR LF pair, on a
			// lone LF, or just past a terminator is where a search that looks behind its own start goes wrong (seeded change C12-A)
			std::vector<size_t> at;
			for (size_t i = 0; i < m.data.size(); i++) { char c = m.data[i]; if (c == '\n' || c == '\r' || c == 0) { at.push_back(i); at.push_back(i + 1); } }
			std::vector<size_t> lf_after_cr;
			for (size_t i = 1; i < m.data.size(); i++) if (m.data[i] == '\n' && m.data[i - 1] == '\r') lf_after_cr.push_back(i);
			if (!lf_after_cr.empty() && (op.a[2] / 7) % 3 == 0) { start = lf_after_cr[(size_t)(op.a[2] % lf_after_cr.size())]; probe("search-starts-inside-crlf"); }
			else if (!at.empty()) { start = at[(size_t)(op.a[2] % at.size())]; probe("search-starts-at-line-end"); }
		}
		// reference: position and length of the first end-of-line at or after `start`
		const std::string &d = m.data;
		ev_ssize_t wpos = -1;
		size_t wlen = 0;
		switch (st) {
		case 0: {
			size_t f = d.find_first_of("\r\n", start);
			if (f != std::string::npos) { wpos = f; size_t e = f; while (e < d.size() && (d[e] == '\r' || d[e] == '\n')) e++; wlen = e - f; }
			break;
		}
		case 1: {
			size_t f = d.find('\n', start);
			if (f != std::string::npos) { if (f > start && d[f - 1] == '\r') { wpos = f - 1; wlen = 2; } else { wpos = f; wlen = 1; } }
			break;
		}
		case 2: { size_t f = d.find("\r\n", start); if (f != std::string::npos) { wpos = f; wlen = 2; } break; }
		case 3: { size_t f = d.find('\n', start); if (f != std::string::npos) { wpos = f; wlen = 1; } break; }
		case 4: { size_t f = d.find('\0', start); if (f != std::string::npos) { wpos = f; wlen = 1; } break; }
		}
		if (!readln) {
			struct evbuffer_ptr ps, res;
			if (use_start && evbuffer_ptr_set(b, &ps, start, EVBUFFER_PTR_SET) != 0) { violation("C12.ptr", "ptr_set failed"); break; }
			size_t el = 777;
			res = API(evbuffer_search_eol(b, use_start ? &ps : nullptr, &el, styles[st]));
			tr("api search_eol buf%d style=%d from=%zu -> %zd/%zu", k, st, start, (ssize_t)res.pos, el);
			if (use_start && start == d.size()) { if (res.pos != -1) violation("C12.search-eol", "search_eol from the end of the buffer found something"); break; }
			if (res.pos != wpos || (wpos >= 0 && el != wlen) || (wpos < 0 && el != 0))
				violation("C12.search-eol", "evbuffer_search_eol(style %d, from %zu) returned pos %zd eol_len %zu, model pos %zd eol_len %zu", st, start, (ssize_t)res.pos, el, (ssize_t)wpos, wlen);
			break;
		}
		size_t nread = 999;
		char *line = API(evbuffer_readln(b, &nread, styles[st]));
		tr("api readln buf%d style=%d -> %s n=%zu", k, st, line ? "line" : "NULL", nread);
		bool want_ok = wpos >= 0 && !m.fz_start;
		if (!line) {
			op_failed = true;
			if (want_ok && !sweep) violation("C12.result", "evbuffer_readln(style %d) returned NULL, model has a line of %zd bytes", st, (ssize_t)wpos);
			if (nread != 0) violation("C12.result", "evbuffer_readln returned NULL but n_read_out=%zu", nread);
			break;
		}
		if (!want_ok) { violation("C12.result", "evbuffer_readln(style %d) returned a line the model does not have", st); free(line); break; }
		if (nread != (size_t)wpos || memcmp(line, d.data(), wpos) != 0 || line[wpos] != 0)
			violation("C12.read-content", "evbuffer_readln(style %d) returned %zu bytes, model line is %zd bytes (or content differs)", st, nread, (ssize_t)wpos);
		{
			extern void h_evbuf_free_line(char *);
			h_evbuf_free_line(line);
		}
		m_drain(k, wpos);
		m_drain(k, wlen);
		break;
	}
	case OP_PTR: {
		size_t pos = (size_t)(op.a[1] % (m.data.size() + 3));
		struct evbuffer_ptr p;
		int r = API(evbuffer_ptr_set(b, &p, pos, EVBUFFER_PTR_SET));
		int want = pos <= m.data.size() ? 0 : -1;
		if (r != want || (r == 0 && p.pos != (ev_ssize_t)pos) || (r != 0 && p.pos != -1)) { violation("C12.ptr", "evbuffer_ptr_set(SET %zu) with length %zu returned %d pos %zd", pos, m.data.size(), r, (ssize_t)p.pos); break; }
		if (r == 0) {
			size_t add = (size_t)(op.a[2] % (m.data.size() + 3));
			int r2 = API(evbuffer_ptr_set(b, &p, add, EVBUFFER_PTR_ADD));
			int want2 = pos + add <= m.data.size() ? 0 : -1;
			if (r2 != want2 || (r2 == 0 && p.pos != (ev_ssize_t)(pos + add))) violation("C12.ptr", "evbuffer_ptr_set(ADD %zu) from %zu with length %zu returned %d pos %zd", add, pos, m.data.size(), r2, (ssize_t)p.pos);
		}
		break;
	}
	case OP_FREEZE: case OP_UNFREEZE: {
		int front = (int)(op.a[1] & 1);
		int r = op.code == OP_FREEZE ? API(evbuffer_freeze(b, front)) : API(evbuffer_unfreeze(b, front));
		(front ? m.fz_start : m.fz_end) = op.code == OP_FREEZE;
		tr("api %s buf%d front=%d -> %d", opnames[op.code], k, front, r);
		if (r != 0) violation("C12.result", "evbuffer_(un)freeze returned %d", r);
		break;
	}
	case OP_CB_ADD: {
		int c = (int)(op.a[1] % MAXCB);
		MCb &cb = m.cbs[c];
		if (cb.exists) break;
		cbargs[k][c] = CbArg{k, c};
		struct evbuffer_cb_entry *e = API(evbuffer_add_cb(b, buf_cb, &cbargs[k][c]));
		if (!e) { op_failed = true; if (!sweep) violation("C13.add-cb", "evbuffer_add_cb failed"); break; }
		cb = MCb();
		cb.exists = true;
		cb.ent = e;
		m_cb_slack(k, cb);
		cb.mutate = (int)(op.a[2] % 8) == 1 ? 1 : ((int)(op.a[2] % 8) == 2 ? 2 : 0);
		if (cb.mutate && nodefer_safe_mode() && sensitive(k)) cb.mutate = 0;
		if (cb.mutate) {
			bool other = false;
			for (int i = 0; i < MAXCB; i++) if (i != c && m.cbs[i].exists && m.cbs[i].mutate && m.cbs[i].mutate != cb.mutate) other = true;
			if (other) { if (suppressed("callback-removed-during-nested-dispatch")) cb.mutate = 0; else probe("self-removing-callback-with-mutating-sibling"); }
		}
		tr("api cb_add buf%d cb%d mutate=%d", k, c, cb.mutate);
		break;
	}
	case OP_CB_REMOVE: {
		int c = (int)(op.a[1] % MAXCB);
		MCb &cb = m.cbs[c];
		if (!cb.exists) break;
		int r = API(evbuffer_remove_cb_entry(b, cb.ent));
		tr("api cb_remove buf%d cb%d -> %d", k, c, r);
		if (r != 0) violation("C13.remove-cb", "evbuffer_remove_cb_entry returned %d", r);
		cb.exists = false;
		break;
	}
	case OP_CB_FLAGS: {
		int c = (int)(op.a[1] % MAXCB);
		MCb &cb = m.cbs[c];
		if (!cb.exists) break;
		int which = (int)(op.a[2] % 4);
		int nd = shim_evbuffer_cb_nodefer_flag();
		if (which == 0) { API(evbuffer_cb_clear_flags(b, cb.ent, EVBUFFER_CB_ENABLED)); if (cb.enabled) m_cb_drop_unreported(cb); cb.enabled = false; probe("callback-disabled"); }
		else if (which == 1) { API(evbuffer_cb_set_flags(b, cb.ent, EVBUFFER_CB_ENABLED)); if (!cb.enabled) m_cb_slack(k, cb); cb.enabled = true; }
		else if (which == 2) {
			if (m.deferred && nodefer_safe_mode()) {
				bool mut = false;
				for (auto &x : m.cbs) if (x.exists && x.mutate) mut = true;
				if (mut) break;
				flush_now();
				if (!cb.exists) break;	// it removed itself during the flush
				probe("nodefer-on-deferred-buffer-single-change-regime");
			}
			API(evbuffer_cb_set_flags(b, cb.ent, nd));
			if (!cb.nodefer) { m_cb_drop_unreported(cb); m_cb_slack(k, cb); if (m.deferred) probe("nodefer-on-deferred-buffer"); }
			cb.nodefer = true; probe("callback-nodefer");
		} else { if (m.deferred && nodefer_safe_mode()) { flush_now(); if (!cb.exists) break; } API(evbuffer_cb_clear_flags(b, cb.ent, nd)); if (cb.nodefer) m_cb_slack(k, cb); cb.nodefer = false; }
		tr("api cb_flags buf%d cb%d which=%d", k, c, which);
		break;
	}
	case OP_FLUSH: {
		if (!R->base) break;
		R->in_loop = true;
		m_deferred_dispatch();
		int r = API(event_base_loop(R->base, EVLOOP_NONBLOCK));
		// a deferred callback that mutates the buffer schedules another round
		for (int i = 0; i < 4; i++) { m_deferred_dispatch(); API(event_base_loop(R->base, EVLOOP_NONBLOCK)); }
		R->in_loop = false;
		tr("api flush_loop -> %d", r);
		check_deferred_sums("event loop");
		break;
	}
	case OP_READ: {
		// queue bytes on the peer, script the system call results, read
		size_t queued = len_arg(op.a[1]) % 9000;
		int howmuch = (op.a[2] & 1) ? -1 : (int)(op.a[3] % 6000);
		std::string s = payload(queued, 0);
		size_t off = 0;
		while (off < s.size()) { ssize_t w = __real_write(R->sp[1], s.data() + off, s.size() - off); if (w <= 0) break; off += w; }
		s.resize(off);
		int script = (int)(op.a[4] % 6);
		int64_t k1 = op.a[5];
		vk::script_clear(R->sp[0]);
		if (script == 1) vk::script_read(R->sp[0], {vk::ScriptItem::BYTES, 1 + k1 % 4096});
		else if (script == 2) vk::script_read(R->sp[0], {vk::ScriptItem::ERR, EINTR});
		else if (script == 3) vk::script_read(R->sp[0], {vk::ScriptItem::ERR, EAGAIN});
		else if (script == 4) vk::script_read(R->sp[0], {vk::ScriptItem::ERR, ECONNRESET});
		else if (script == 5) vk::script_fionread(R->sp[0], (k1 & 1) ? -1 : (int64_t)(k1 % 20000));
		size_t before = m.data.size();
		int r = API(evbuffer_read(b, R->sp[0], howmuch));
		int e = errno;
		tr("api read buf%d queued=%zu howmuch=%d script=%d -> %d", k, off, howmuch, script, r);
		vk::script_clear(R->sp[0]);
		if (r > 0) {
			if ((size_t)r > s.size() || (howmuch >= 0 && r > howmuch)) { violation("C16.read-count", "evbuffer_read(howmuch %d) returned %d with %zu bytes queued", howmuch, r, s.size()); break; }
			if (m.fz_end) { violation("C16.read-frozen", "evbuffer_read appended to a buffer frozen at the end"); break; }
			m_append(k, s.substr(0, r));
			if ((size_t)r < s.size()) { R->partials++; std::string rest(s.size() - r, 0); size_t g = 0; while (g < rest.size()) { ssize_t x = __real_read(R->sp[0], &rest[g], rest.size() - g); if (x <= 0) break; g += x; } }
		} else {
			op_failed = true;
			if (evbuffer_get_length(b) != before) { violation("C16.read-failed-but-changed", "evbuffer_read returned %d (errno %d) but the length changed from %zu to %zu", r, e, before, evbuffer_get_length(b)); break; }
			// drain what we queued so the next op starts clean
			std::string rest(s.size(), 0); size_t g = 0; while (g < rest.size()) { ssize_t x = __real_read(R->sp[0], &rest[g], rest.size() - g); if (x <= 0) break; g += x; }
			if (r == 0 && !s.empty() && script == 0 && howmuch != 0 && !m.fz_end && !sweep) violation("C16.read-count", "evbuffer_read returned 0 (EOF) with %zu bytes queued", s.size());
		}
		break;
	}
	case OP_WRITE: {
		ev_ssize_t howmuch = (op.a[2] & 1) ? -1 : (ev_ssize_t)(op.a[1] % 9000);
		int script = (int)(op.a[3] % 5);
		vk::script_clear(R->sp[0]);
		if (script == 1) vk::script_write(R->sp[0], {vk::ScriptItem::BYTES, 1 + op.a[4] % 5000});
		else if (script == 2) vk::script_write(R->sp[0], {vk::ScriptItem::ERR, EINTR});
		else if (script == 3) vk::script_write(R->sp[0], {vk::ScriptItem::ERR, EAGAIN});
		else if (script == 4) vk::script_write(R->sp[0], {vk::ScriptItem::ERR, EPIPE});
		size_t before = m.data.size();
		int r = (op.a[2] & 2) ? API(evbuffer_write(b, R->sp[0])) : API(evbuffer_write_atmost(b, R->sp[0], howmuch));
		if (op.a[2] & 2) howmuch = -1;
		tr("api write buf%d howmuch=%zd script=%d -> %d", k, (ssize_t)howmuch, script, r);
		vk::script_clear(R->sp[0]);
		// whatever reached the peer
		std::string got;
		{
			char tmp[16384];
			for (;;) { ssize_t x = __real_read(R->sp[1], tmp, sizeof tmp); if (x <= 0) break; got.append(tmp, x); }
		}
		size_t lim = howmuch < 0 ? before : std::min<size_t>(howmuch, before);
		if (r > 0) {
			if ((size_t)r > lim) { violation("C16.write-count", "evbuffer_write_atmost(%zd) returned %d with %zu bytes buffered", (ssize_t)howmuch, r, before); break; }
			if (got.size() != (size_t)r || memcmp(got.data(), m.data.data(), r) != 0) { violation("C16.write-content", "the peer received %zu bytes, evbuffer_write reported %d; or they are not the buffer's prefix", got.size(), r); break; }
			if (m.fz_start) { violation("C16.write-frozen", "evbuffer_write drained a buffer frozen at the start"); break; }
			if ((size_t)r < lim) R->partials++;
			if (m.tag[0] > 0) R->ref_reads++;
			m_drain(k, r);
		} else {
			op_failed = true;
			if (!got.empty()) { violation("C16.write-content", "evbuffer_write returned %d but the peer received %zu bytes", r, got.size()); break; }
			if (evbuffer_get_length(b) != before) { violation("C16.write-failed-but-changed", "evbuffer_write returned %d but the length changed", r); break; }
		}
		break;
	}
	case OP_ADD_FILE: {
		// a file segment over a memfd with position-coded content
		size_t flen = 1 + len_arg(op.a[1]) % 30000;
		size_t off = (size_t)(op.a[2] % flen);
		size_t len = 1 + (size_t)(op.a[3] % (flen - off));
		unsigned flags = 0;
		int fsel = (int)(op.a[4] % 6);
		if (fsel == 1) flags |= EVBUF_FS_DISABLE_MMAP;
		if (fsel == 2) flags |= EVBUF_FS_DISABLE_SENDFILE;
		if (fsel == 3) flags |= EVBUF_FS_DISABLE_MMAP | EVBUF_FS_DISABLE_SENDFILE;
		if (fsel == 4) flags |= EVBUF_FS_DISABLE_LOCKING;
		int fd;
		{
			vk::HarnessScope hs;
			fd = memfd_create("seg", MFD_CLOEXEC);
		}
		std::string content = payload(flen, 0);
		if (fd < 0 || __real_write(fd, content.data(), content.size()) != (ssize_t)content.size()) { if (fd >= 0) close(fd); break; }
		Ref *r = new Ref();
		r->id = (int)R->refs.size() + 1;
		r->is_seg = true;
		r->fd = fd;
		R->refs.push_back(r);
		// segment covers [segoff, segoff+seglen) of the file; the buffer gets [off2, off2+len2) of the segment
		size_t segoff = (op.a[5] & 1) ? off : 0;
		size_t seglen = (op.a[5] & 1) ? flen - off : flen;
		struct evbuffer_file_segment *seg = API(evbuffer_file_segment_new(fd, segoff, (op.a[5] & 2) ? -1 : (ev_off_t)seglen, flags | EVBUF_FS_CLOSE_ON_FREE));
		if (!seg) {
			op_failed = true;
			{ vk::HarnessScope hs; close(fd); }
			r->fd = -1;
			r->cleanups = 1;
			if (!sweep) violation("C15.segment-new", "evbuffer_file_segment_new failed");
			break;
		}
		evbuffer_file_segment_add_cleanup_cb(seg, seg_cleanup, r);
		r->seg = seg;
		size_t off2 = off - segoff, len2 = len;
		int rc = API(evbuffer_add_file_segment(b, seg, off2, (op.a[5] & 4) && off2 + len2 == seglen ? -1 : (ev_off_t)len2));
		tr("api add_file_segment buf%d flen=%zu segoff=%zu off=%zu len=%zu flags=%u -> %d", k, flen, segoff, off2, len2, flags, rc);
		int want = m.fz_end ? -1 : 0;
		if (rc == 0) { m_append(k, content.substr(off, len), r->id); probe("file-segment"); }
		op_failed = rc != 0;
		if (!sweep && rc != want) violation("C15.add-segment", "evbuffer_add_file_segment returned %d, model %d", rc, want);
		// on failure evbuffer_add_file_segment drops the caller's reference itself (evbuffer_add_file relies on it)
		if (rc == 0) APIV(evbuffer_file_segment_free(seg));	// the buffer keeps its own reference
		r->seg = nullptr;
		break;
	}
	case OP_RENEW: {
		// free the buffer (with whatever it holds) and start a new one
		tr("api free_and_new buf%d", k);
		APIV(evbuffer_free(b));
		R->b[k] = evbuffer_new();
		R->m[k] = MBuf();
		R->gen[k] = R->next_gen++;
		if (!R->b[k]) { violation("C12.new", "evbuffer_new failed"); return; }
		if (R->plan->c("locking") ) evbuffer_enable_locking(R->b[k], nullptr);
		if ((op.a[1] & 1) && R->base) { evbuffer_defer_callbacks(R->b[k], R->base); R->m[k].deferred = true; }
		break;
	}
	}
	if (stop()) return;
	for (int i = 0; i < NBUF; i++) { while (R->pending_drain[i] > 0) { m_drain(i, 1); R->pending_drain[i]--; } }
	bool fired = mon::alloc_failures_fired() != fails_before;
	if (fired) { R->faulted = true; R->fail_inside_op = true; }
	if (sweep && fired && op_failed) {
		// all-or-nothing: the failed call must have left every buffer as it was
		MBuf post[NBUF];
		for (int i = 0; i < NBUF; i++) { post[i] = R->m[i]; R->m[i].data = pre[i].data; R->m[i].tag = pre[i].tag; }
		(void)ctr_before;
		bool same = true;
		for (int i = 0; i < NBUF; i++) {
			if (evbuffer_get_length(R->b[i]) != pre[i].data.size() || real_content(R->b[i]) != pre[i].data) same = false;
		}
		if (!same) {
			// the op failed: was a partial effect left behind?
			int bi = 0;
			for (int i = 0; i < NBUF; i++) if (evbuffer_get_length(R->b[i]) != pre[i].data.size() || real_content(R->b[i]) != pre[i].data) bi = i;
			violation("C14.partial-effect", "%s failed on an allocation failure but buffer %d changed: length %zu -> %zu", name, bi, pre[bi].data.size(), evbuffer_get_length(R->b[bi]));
			return;
		}
		for (int i = 0; i < NBUF; i++) for (int c = 0; c < MAXCB; c++) R->m[i].cbs[c].exp_add = pre[i].cbs[c].exp_add, R->m[i].cbs[c].exp_del = pre[i].cbs[c].exp_del;
	}
	for (int i = 0; i < NBUF && !stop(); i++) compare_buf(i, name);
	if (!stop()) check_cb_sums(name);
	if (!stop() && nodefer_safe_mode() && sensitive(k) && op.code != OP_FLUSH) { flush_now(); check_deferred_sums("automatic flush"); }
	if (!stop()) check_refs(name);
}

void h_evbuf_free_line(char *line) {
	// evbuffer_readln allocates with the library allocator (mm_malloc): release through the same seam
	extern void (*h_evbuf_mm_free)(void *);
	h_evbuf_mm_free(line);
}
void (*h_evbuf_mm_free)(void *) = nullptr;

// one pass over the plan; fail_at > 0 arms the fail_at-th allocation from the start of the pass
static void run_pass(const Plan &p, uint64_t fail_at, uint64_t *allocs_out) {
	Run run;
	R = &run;
	run.plan = &p;
	run.mode = fail_at ? 1 : 0;
	bool need_base = p.c("deferred") || p.c("use_base");
	if (need_base) {
		struct event_config *cfg = event_config_new();
		event_config_set_flag(cfg, EVENT_BASE_FLAG_IGNORE_ENV);
		run.base = event_base_new_with_config(cfg);
		event_config_free(cfg);
	}
	{
		vk::HarnessScope hs;
		if (socketpair(AF_UNIX, SOCK_STREAM | SOCK_NONBLOCK, 0, run.sp) < 0) run.sp[0] = run.sp[1] = -1;
	}
	for (int k = 0; k < NBUF; k++) {
		run.b[k] = evbuffer_new();
		if (p.c("locking")) evbuffer_enable_locking(run.b[k], nullptr);
		if (p.c("deferred") & (1 << k)) { evbuffer_defer_callbacks(run.b[k], run.base); run.m[k].deferred = true; }
	}
	uint64_t a0 = mon::alloc_count();
	if (fail_at) mon::alloc_fail_at(fail_at, p.c("fail_sticky") != 0);
	for (auto &op : p.ops) {
		if (stop()) break;
		exec_op(op);
	}
	mon::alloc_fail_clear();
	if (allocs_out) *allocs_out = mon::alloc_count() - a0;
	// teardown: flush deferred callbacks, free buffers, every reference cleaned exactly once
	if (run.base && !stop()) { run.in_loop = true; for (int i = 0; i < 6; i++) { m_deferred_dispatch(); event_base_loop(run.base, EVLOOP_NONBLOCK); } run.in_loop = false; check_deferred_sums("final event loop"); }
	for (int k = 0; k < NBUF; k++) if (run.b[k]) evbuffer_free(run.b[k]);
	if (run.base) { run.in_loop = true; for (int i = 0; i < 3; i++) event_base_loop(run.base, EVLOOP_NONBLOCK); run.in_loop = false; event_base_free(run.base); }
	if (!stop()) for (Ref *r : run.refs) {
		if (r->cleanups != 1) { violation(run.cycle_made && r->cleanups == 0 ? "C15.cleanup-count:reference-cycle" : "C15.cleanup-count", "%s %d: cleanup ran %d time(s) by the time every buffer was freed", r->is_seg ? "file segment" : "reference", r->id, r->cleanups); break; }
	}
	for (Ref *r : run.refs) { if (r->mem) munmap(r->mem, r->maplen); delete r; }
	{
		vk::HarnessScope hs;
		if (run.sp[0] >= 0) { close(run.sp[0]); close(run.sp[1]); }
	}
	if (!stop()) {
		if (mon::live_blocks_run() != 0) violation(run.cycle_made ? "C15.leak:reference-cycle" : fail_at ? "C14.leak" : "C12.leak", "%lld block(s) still allocated after every buffer was freed: %s", (long long)mon::live_blocks_run(), mon::live_blocks_desc(5).c_str());
		else if (vk::open_fd_count_lib() != 0) violation("C15.fd-leak", "fds still open after teardown: %s", vk::open_fd_list_lib().c_str());
		else if (mon::locks_enabled && mon::held() != 0) violation("C08.lock-held-at-end", "%d lock acquisition(s) held at the end", mon::held());
	}
	// statistics for the non-triviality rules, accumulated over passes
	static thread_local int dummy;
	(void)dummy;
	const std::string &prop = p.prop;
	if (!stop()) {
		if (prop == "C12") G.nontrivial = G.nontrivial || (run.ops >= 10 && run.maxchains >= 3);
		else if (prop == "C13") G.nontrivial = G.nontrivial || run.cb_both > 0 || G.cnt.count("probe.deferred-aggregated");
		else if (prop == "C14" || prop == "C08") G.nontrivial = G.nontrivial || (fail_at && run.fail_inside_op);
		else if (prop == "C15") G.nontrivial = G.nontrivial || (run.ref_reads > 0 && run.cleanups_seen > 0);
		else if (prop == "C16") G.nontrivial = G.nontrivial || run.partials > 0;
		else G.nontrivial = G.nontrivial || run.ops >= 10;
	}
	R = nullptr;
}

static void execute(const Plan &p) {
	uint64_t allocs = 0;
	run_pass(p, 0, &allocs);
	if (stop() || !p.c("alloc_sweep")) return;
	// C14: one pass per allocation index reached by the fault-free pass
	uint64_t n_max = std::min<uint64_t>(allocs, 400);
	count("sweep.positions", (int64_t)n_max);
	for (uint64_t n = 1; n <= n_max && !stop(); n++) {
		tr("sweep fail allocation #%llu of %llu", (unsigned long long)n, (unsigned long long)allocs);
		run_pass(p, n, nullptr);
	}
}

// ---------------------------------------------------------------------------
static int64_t gen_len(Rng &r, bool big) {
	static const int64_t edges[] = {0, 1, 2, 255, 256, 511, 512, 975, 976, 977, 1023, 1024, 1025, 2047, 2048, 4095, 4096, 4097, 8192};
	switch (r.below(5)) {
	case 0: return edges[r.below(sizeof edges / sizeof edges[0])];
	case 1: return r.range(0, 64);
	case 2: return r.range(0, 2000);
	case 3: return big ? r.range(0, 300000) : r.range(0, 6000);
	default: return r.range(0, 600);
	}
}

static void generate(Plan &p, Rng &r) {
	const std::string &prop = p.prop;
	bool thorough = p.tier == "thorough";
	p.cfg["locking"] = r.chance(0.3);
	if (prop == "C13") { p.cfg["deferred"] = r.chance(0.5) ? r.below(16) : 0; }
	else if (r.chance(0.1)) p.cfg["deferred"] = r.below(16);
	if (p.cfg["deferred"]) p.cfg["use_base"] = 1;
	if (prop == "C14") { p.cfg["alloc_sweep"] = 1; p.cfg["fail_sticky"] = r.chance(0.25); }
	if (prop == "C08") { p.cfg["alloc_sweep"] = 1; p.cfg["fail_sticky"] = r.chance(0.25); p.cfg["locking"] = 1; }	// every error path of a locked buffer
	struct W { int code; int w; };
	std::vector<W> ws = {
		{OP_ADD, 14}, {OP_PREPEND, 6}, {OP_PRINTF, 2}, {OP_EXPAND, 3}, {OP_RESERVE, 5}, {OP_IOVEC, 3}, {OP_ADD_BUFFER, 4}, {OP_PREPEND_BUFFER, 3},
		{OP_REMOVE_BUFFER, 5}, {OP_ADD_BUFREF, 2}, {OP_ADD_REF, 2}, {OP_DRAIN, 8}, {OP_REMOVE, 5}, {OP_COPYOUT, 3}, {OP_COPYOUT_FROM, 3}, {OP_PULLUP, 5},
		{OP_PEEK, 4}, {OP_SEARCH, 4}, {OP_SEARCH_EOL, 4}, {OP_READLN, 3}, {OP_PTR, 2}, {OP_FREEZE, 1}, {OP_UNFREEZE, 2}, {OP_CB_ADD, 1}, {OP_CB_REMOVE, 0},
		{OP_CB_FLAGS, 0}, {OP_FLUSH, 0}, {OP_READ, 2}, {OP_WRITE, 2}, {OP_ADD_FILE, 1}, {OP_RENEW, 1},
	};
	auto bump = [&](int code, int w) { for (auto &x : ws) if (x.code == code) x.w = w; };
	if (prop == "C13") { bump(OP_CB_ADD, 8); bump(OP_CB_REMOVE, 3); bump(OP_CB_FLAGS, 6); bump(OP_FLUSH, p.cfg["deferred"] ? 8 : 0); bump(OP_SEARCH, 1); bump(OP_PEEK, 1); }
	if (prop == "C14") { bump(OP_READ, 3); bump(OP_CB_ADD, 2); bump(OP_ADD_BUFREF, 4); bump(OP_ADD_REF, 4); bump(OP_ADD_FILE, 2); bump(OP_SEARCH, 1); bump(OP_PEEK, 1); bump(OP_PTR, 0); }
	if (prop == "C15") { bump(OP_ADD_REF, 12); bump(OP_ADD_BUFREF, 8); bump(OP_ADD_FILE, 10); bump(OP_PULLUP, 8); bump(OP_REMOVE, 8); bump(OP_WRITE, 6); bump(OP_RENEW, 3); bump(OP_SEARCH, 1); bump(OP_SEARCH_EOL, 1); }
	if (prop == "C16") { bump(OP_READ, 16); bump(OP_WRITE, 16); bump(OP_ADD_REF, 4); bump(OP_ADD_FILE, 3); bump(OP_RESERVE, 6); bump(OP_SEARCH, 0); bump(OP_SEARCH_EOL, 0); bump(OP_PTR, 0); }
	int total = 0;
	for (auto &x : ws) total += x.w;
	int nops = (prop == "C14" || prop == "C08") ? (int)r.range(3, 25) : (thorough ? (int)r.range(10, 150) : (int)r.range(5, 60));
	bool big = thorough && r.chance(0.2);
	int flav = r.chance(0.4) ? (int)r.range(1, 3) : 0;
	for (int i = 0; i < nops; i++) {
		int x = (int)r.below(total), code = 0;
		for (auto &w : ws) { if (x < w.w) { code = w.code; break; } x -= w.w; }
		Op o;
		o.code = code;
		o.a[0] = r.chance(0.6) ? 0 : r.below(NBUF);
		o.a[1] = gen_len(r, big);
		switch (code) {
		case OP_ADD: case OP_PREPEND: o.a[2] = flav; break;
		case OP_ADD_BUFFER: case OP_PREPEND_BUFFER: case OP_ADD_BUFREF: o.a[1] = r.below(NBUF); break;
		case OP_REMOVE_BUFFER: o.a[1] = r.below(NBUF); o.a[2] = gen_len(r, big); break;
		case OP_SEARCH_EOL: case OP_READLN: o.a[1] = r.below(5); o.a[2] = r.below(100000); o.a[3] = r.below(4); break;
		case OP_FREEZE: case OP_UNFREEZE: o.a[1] = r.below(2); break;
		case OP_CB_ADD: o.a[1] = r.below(MAXCB); o.a[2] = r.below(8); break;
		case OP_CB_REMOVE: o.a[1] = r.below(MAXCB); break;
		case OP_CB_FLAGS: o.a[1] = r.below(MAXCB); o.a[2] = r.below(4); break;
		case OP_RENEW: o.a[1] = r.below(2); break;
		default:
			o.a[2] = r.below(1000000); o.a[3] = r.below(1000000); o.a[4] = r.below(64); o.a[5] = r.below(1000000);
			if (code == OP_ADD_REF) o.a[4] = flav;
			break;
		}
		p.ops.push_back(o);
	}
}

static std::vector<int64_t> cfg_simpler(const std::string &key, int64_t cur) {
	if (cur != 0 && key != "alloc_sweep") return {0};
	return {};
}

static void process_init(int cls) {
	(void)cls;
	struct evbuffer *b = evbuffer_new();
	evbuffer_add(b, "x\n", 2);
	size_t n;
	char *l = evbuffer_readln(b, &n, EVBUFFER_EOL_LF);
	extern void h_evbuf_set_free();
	h_evbuf_set_free();
	h_evbuf_mm_free(l);
	evbuffer_free(b);
	struct event_base *eb = event_base_new();
	event_base_free(eb);
}
void h_evbuf_set_free() { h_evbuf_mm_free = event_mm_free_; }

int main(int argc, char **argv) {
	static Harness h = {"h_evbuf", opnames, OP_N, generate, execute, cfg_simpler, process_init};
	return harness_main(argc, argv, h);
}
