// H2f: fork harness — C11 (events keep working in a forked child after event_reinit). World R with the real fork():
// the run process builds a base with I/O (pipes), timer and signal events in plan-chosen states (added, active, just
// deleted), forks, and the two single-threaded processes then run in lock-step: the parent may send the waiting child a
// signal, the child calls event_reinit and executes its slice of the plan against its own copy of the model (fork
// copies the harness together with the library), reports its verdict, its trace hash and the state of the shared pipes,
// may signal the parent, and exits; the parent then executes the rest of the plan. Who runs when is fixed by the plan, so
// one seed is one interleaving.
#include <algorithm>
#include <cerrno>
#include <csignal>
#include <cstring>
#include <map>
#include <set>
#include <fcntl.h>
#include <sys/epoll.h>
#include <sys/wait.h>
#include <unistd.h>
#include <event2/event.h>
#include <event2/util.h>
#include "sim/sim.hpp"
#include "vk/vk.hpp"
#include "mon/mon.hpp"
extern "C" {
#include "shim/shim.h"
}

extern "C" {
ssize_t __real_write(int, const void *, size_t);
ssize_t __real_read(int, void *, size_t);
int __real_close(int);
int __real_pipe2(int[2], int);
int __real_open(const char *, int, ...);
ssize_t __real_pread(int, void *, size_t, off_t);
pid_t __real_getpid(void);
}

using namespace sim;

enum { OP_NEW_IO, OP_NEW_TIMER, OP_NEW_SIG, OP_ADD, OP_DEL, OP_ACTIVE, OP_WRITE, OP_DRAIN, OP_RAISE, OP_LOOP, OP_ADVANCE, OP_FREE, OP_N };
static const char *const opnames[OP_N] = {"new_io", "new_timer", "new_sig", "add", "del", "active", "write", "drain", "raise", "loop", "advance", "free"};

#define MAXFD 4
#define MAXEV 10
#define NSIGS 2
static const int SIGS[NSIGS] = {SIGUSR1, SIGUSR2};

struct Ev {
	struct event *ev = nullptr;
	int kind = 0;		// 0 io, 1 timer, 2 signal
	int k = 0;		// pipe index / signal index
	bool persist = false;
	int64_t interval_ns = 0, deadline_ns = 0;
	bool added = false, active_pending = false;
	int fired = 0;		// callbacks in the current loop op
	long ncalls_seen = 0;
};
struct Run {
	const Plan *plan = nullptr;
	struct event_base *base = nullptr;
	int rd[MAXFD], wr[MAXFD];
	bool has_data[MAXFD] = {false, false, false, false};
	int nfd = 1;
	Ev evs[MAXEV];
	long pending_sig[NSIGS] = {0, 0};	// deliveries to this process that its loop has not handled yet
	bool uncertain_sig[NSIGS] = {false, false};	// a signal event was added or deleted while a delivery was pending: either outcome
	bool in_child = false;
	int epfd = -1;
	int loops = 0, checked = 0;
};
static Run *R;
#define V(...) violation(__VA_ARGS__)

static int sig_events_added(int s) { int n = 0; for (auto &e : R->evs) if (e.ev && e.kind == 2 && e.k == s && e.added) n++; return n; }

static void ev_cb(evutil_socket_t fd, short what, void *arg) {
	if (!R) return;
	Ev &e = *(Ev *)arg;
	int idx = (int)(&e - R->evs);
	tr("cb ev=%d kind=%d what=0x%x %s", idx, e.kind, (unsigned)what, R->in_child ? "child" : "parent");
	e.fired++;
	if (e.kind == 2) { if ((int)fd != SIGS[e.k]) V("C11.wrong-signal", "signal event for %d called with %d", SIGS[e.k], (int)fd); e.ncalls_seen++; }
	if (e.kind == 0 && !(what & EV_READ)) V("C11.io-flags", "read event %d called with flags 0x%x", idx, (unsigned)what);
	if (e.kind == 1 && !(what & EV_TIMEOUT)) V("C11.timer-flags", "timer event %d called with flags 0x%x", idx, (unsigned)what);
}

static std::string epoll_interest(int epfd) {
	char path[64], buf[8192];
	snprintf(path, sizeof path, "/proc/self/fdinfo/%d", epfd);
	int fd;
	{ vk::HarnessScope hs; fd = __real_open(path, O_RDONLY); }
	if (fd < 0) return "?";
	ssize_t n = __real_pread(fd, buf, sizeof buf - 1, 0);
	__real_close(fd);
	if (n <= 0) return "?";
	buf[n] = 0;
	std::map<int, unsigned> m;
	for (char *p = buf; (p = strstr(p, "tfd:")); p += 4) {
		int tfd = 0; unsigned ev = 0;
		if (sscanf(p, "tfd: %d events: %x", &tfd, &ev) == 2) {
			for (int k = 0; k < R->nfd; k++) if (R->rd[k] == tfd) m[k] = ev & (EPOLLIN | EPOLLOUT);
			if (tfd == shim_base_notify_fd(R->base, 0)) m[100] = ev & (EPOLLIN | EPOLLOUT);	// the wake-up fd of a notifiable base (worker classes with locks)
		}
	}
	std::string s;
	for (auto &kv : m) { char b[32]; snprintf(b, sizeof b, "pipe%d:%x ", kv.first, kv.second); s += b; }
	return s;
}
static std::string model_interest() {
	std::map<int, unsigned> m;
	for (auto &e : R->evs) if (e.ev && e.kind == 0 && e.added) m[e.k] |= EPOLLIN;
	if (shim_base_notify_fd(R->base, 0) >= 0) m[100] = EPOLLIN;
	std::string s;
	for (auto &kv : m) { char b[32]; snprintf(b, sizeof b, "pipe%d:%x ", kv.first, kv.second); s += b; }
	return s;
}

// one loop op: two non-blocking iterations, then the callbacks that ran are compared with the model
static void do_loop() {
	Run &r = *R;
	const char *who = r.in_child ? "child" : "parent";
	for (auto &e : r.evs) e.fired = 0;
	std::set<int> must, may;	// must fire at least once / may fire
	for (int i = 0; i < MAXEV; i++) {
		Ev &e = r.evs[i];
		if (!e.ev) continue;
		if (e.active_pending) must.insert(i);
		if (!e.added) continue;
		if (e.kind == 0 && r.has_data[e.k]) must.insert(i);
		if (e.kind == 1 && G.now_ns >= e.deadline_ns) must.insert(i);
		if (e.kind == 2 && r.pending_sig[e.k] > 0) must.insert(i);
	}
	for (int it = 0; it < 2 && !stop(); it++) {
		int rv = API(event_base_loop(r.base, EVLOOP_ONCE | EVLOOP_NONBLOCK));
		if (rv < 0) { V("C11.loop-failed", "%s: event_base_loop returned %d", who, rv); return; }
	}
	r.loops++;
	for (int i = 0; i < MAXEV && !stop(); i++) {
		Ev &e = r.evs[i];
		if (!e.ev) continue;
		bool expected = must.count(i) != 0;
		if (e.kind == 2 && r.uncertain_sig[e.k]) { if (e.fired > 0) { e.active_pending = false; } continue; }
		if (expected && e.fired == 0) { V("C11.event-did-not-fire", "%s: event %d (%s%s) was %s and its condition holds, yet its callback did not run in two loop iterations", who, i, e.kind == 0 ? "read on a pipe with data" : e.kind == 1 ? "timer past its deadline" : "signal with a delivery pending", e.persist ? ", persistent" : "", e.active_pending ? "made active before" : "added"); return; }
		if (!expected && e.fired > 0) { V("C11.unexpected-callback", "%s: event %d (kind %d, %s) ran %d time(s) although %s", who, i, e.kind, e.added ? "added" : "not added", e.fired, e.kind == 2 ? "no signal was delivered to this process" : e.kind == 0 ? "its pipe is empty" : "its deadline has not come or it is not pending"); return; }
		if (expected) r.checked++;
		if (e.kind == 2) { if (e.fired > r.pending_sig[e.k]) { V("C11.signal-callbacks-exceed-deliveries", "%s: signal event %d ran %d times for %ld deliver(ies) to this process", who, i, e.fired, r.pending_sig[e.k]); return; } }
		else if (e.fired > 1 && !e.persist) { V("C11.fired-twice", "%s: event %d (kind %d, not persistent) ran %d times in one loop op", who, i, e.kind, e.fired); return; }
		if (e.fired > 0) {
			e.active_pending = false;
			if (!e.persist) e.added = false;
			else if (e.kind == 1) { e.deadline_ns += e.interval_ns; if (e.deadline_ns < G.now_ns) e.deadline_ns = G.now_ns + e.interval_ns; }	// a persistent timer is re-armed relative to the instant it was scheduled for, unless that has passed too
		}
	}
	for (int s = 0; s < NSIGS; s++) { r.pending_sig[s] = 0; r.uncertain_sig[s] = false; }
	// (with the changelist the kernel's set lags behind until the next wait: compared only without it)
	if (r.epfd >= 0 && !stop() && r.plan->c("backend") % 4 != 1) {
		std::string k = epoll_interest(r.epfd), w = model_interest();
		if (k != w) V("C11.epoll-interest", "%s: the kernel's epoll set is {%s} but the added events imply {%s}", who, k.c_str(), w.c_str());
	}
}

static void exec_op(const Op &op) {
	Run &r = *R;
	if (stop()) return;
	switch (op.code) {
	case OP_NEW_IO: case OP_NEW_TIMER: case OP_NEW_SIG: {
		int i = -1;
		for (int j = 0; j < MAXEV; j++) if (!r.evs[j].ev) { i = j; break; }
		if (i < 0) break;
		Ev &e = r.evs[i];
		e = Ev();
		e.kind = op.code == OP_NEW_IO ? 0 : op.code == OP_NEW_TIMER ? 1 : 2;
		e.persist = op.a[1] & 1;
		if (e.kind == 0) { e.k = (int)(op.a[0] % r.nfd); e.ev = event_new(r.base, r.rd[e.k], EV_READ | (e.persist ? EV_PERSIST : 0), ev_cb, &e); }
		else if (e.kind == 1) { e.persist = false; e.interval_ns = (1 + op.a[0] % 5) * 100 * 1000000LL; e.ev = event_new(r.base, -1, 0, ev_cb, &e); }	// one-shot timers only: the re-arming rules of persistent and hand-activated timers are C01's subject (H1), here they would only duplicate that model
		else { e.k = (int)(op.a[0] % NSIGS); e.ev = event_new(r.base, SIGS[e.k], EV_SIGNAL | EV_PERSIST, ev_cb, &e); e.persist = true; }
		tr("api new ev=%d kind=%d k=%d persist=%d", i, e.kind, e.k, e.persist);
		break;
	}
	case OP_ADD: {
		Ev &e = r.evs[op.a[0] % MAXEV];
		if (!e.ev) break;
		struct timeval tv = {(long)(e.interval_ns / NS), (long)(e.interval_ns % NS / 1000)};
		int rv = API(event_add(e.ev, e.kind == 1 ? &tv : nullptr));
		tr("api add ev=%d -> %d", (int)(op.a[0] % MAXEV), rv);
		// (an I/O event that is active at this moment is not inserted by event_add: upstream behaviour, modelled in H1)
		if (rv == 0 && e.kind == 0 && e.active_pending && !e.added) break;
		if (rv == 0) { if (e.kind == 2 && !e.added && r.pending_sig[e.k] > 0) r.uncertain_sig[e.k] = true; e.added = true; if (e.kind == 1) { e.deadline_ns = G.now_ns + e.interval_ns; e.active_pending = false; } }	// re-arming a timer takes back an activation for EV_TIMEOUT that has not run yet
		break;
	}
	case OP_DEL: {
		Ev &e = r.evs[op.a[0] % MAXEV];
		if (!e.ev) break;
		// taking away the last event for a signal with a delivery still pending would let the default action kill the process
		// (signalfd mode unblocks the signal): the plan's doing, not the library's
		if (e.kind == 2 && e.added && r.pending_sig[e.k] > 0 && sig_events_added(e.k) == 1) break;
		int rv = API(event_del(e.ev));
		tr("api del ev=%d -> %d", (int)(op.a[0] % MAXEV), rv);
		if (e.kind == 2 && e.added && r.pending_sig[e.k] > 0) r.uncertain_sig[e.k] = true;
		e.added = false; e.active_pending = false;
		break;
	}
	case OP_ACTIVE: {
		Ev &e = r.evs[op.a[0] % MAXEV];
		if (!e.ev || e.kind != 0) break;
		APIV(event_active(e.ev, EV_READ, 1));
		tr("api active ev=%d", (int)(op.a[0] % MAXEV));
		e.active_pending = true;
		break;
	}
	case OP_FREE: {
		Ev &e = r.evs[op.a[0] % MAXEV];
		if (!e.ev) break;
		if (e.kind == 2 && e.added && r.pending_sig[e.k] > 0 && sig_events_added(e.k) == 1) break;
		if (e.kind == 2 && e.added && r.pending_sig[e.k] > 0) r.uncertain_sig[e.k] = true;
		tr("api free ev=%d", (int)(op.a[0] % MAXEV));
		APIV(event_free(e.ev));
		e = Ev();
		break;
	}
	case OP_WRITE: { int k = (int)(op.a[0] % r.nfd); char c = 'x'; if (!r.has_data[k] && __real_write(r.wr[k], &c, 1) == 1) r.has_data[k] = true; tr("io write pipe=%d", k); break; }
	case OP_DRAIN: { int k = (int)(op.a[0] % r.nfd); char b[64]; while (__real_read(r.rd[k], b, sizeof b) > 0) {} r.has_data[k] = false; tr("io drain pipe=%d", k); break; }
	case OP_RAISE: {
		int s = (int)(op.a[0] % NSIGS);
		if (sig_events_added(s) == 0) break;	// nobody manages it here: the default action would kill the process
		kill(__real_getpid(), SIGS[s]);
		r.pending_sig[s]++;
		tr("api raise sig=%d", SIGS[s]);
		break;
	}
	case OP_LOOP: do_loop(); break;
	case OP_ADVANCE: vk::advance_running(std::max<int64_t>(1, op.a[0] % 1000) * 1000000); break;
	}
}

static void teardown() {
	Run &r = *R;
	// deliveries still pending are consumed first (see OP_DEL)
	for (int k = 0; k < 3; k++) event_base_loop(r.base, EVLOOP_ONCE | EVLOOP_NONBLOCK);
	for (auto &e : r.evs) if (e.ev) { event_free(e.ev); e.ev = nullptr; }
	event_base_free(r.base);
	r.base = nullptr;
	for (int s = 0; s < NSIGS; s++) signal(SIGS[s], SIG_DFL);
}

static void execute(const Plan &p) {
	Run run;
	R = &run;
	run.plan = &p;
	run.nfd = (int)std::min<int64_t>(MAXFD, std::max<int64_t>(1, p.c("nfd", 2)));
	for (int k = 0; k < run.nfd; k++) { int pp[2]; if (__real_pipe2(pp, O_NONBLOCK | O_CLOEXEC) < 0) { run.nfd = k; break; } run.rd[k] = pp[0]; run.wr[k] = pp[1]; }
	vk::wait_cap = 3000;
	int backend = (int)(p.c("backend") % 4);
	vk::hooks.wait_enter = [](int kind, int64_t, int epfd) { if (R && kind == vk::W_EPOLL) R->epfd = epfd; };
	struct event_config *cfg = event_config_new();
	static const char *const methods[] = {"epoll", "poll", "select"};
	int meth = backend <= 1 ? 0 : backend - 1;
	for (int i = 0; i < 3; i++) if (i != meth) event_config_avoid_method(cfg, methods[i]);
	int flags = EVENT_BASE_FLAG_IGNORE_ENV;
	if (backend == 1) flags |= EVENT_BASE_FLAG_EPOLL_USE_CHANGELIST;
	if (p.c("signalfd")) flags |= EVENT_BASE_FLAG_USE_SIGNALFD;
	event_config_set_flag(cfg, flags);
	run.base = event_base_new_with_config(cfg);
	event_config_free(cfg);
	if (!run.base) { violation("C11.base-new", "no base"); R = nullptr; return; }
	tr("cfg backend=%s sig=%s", event_base_get_method(run.base), event_base_get_signal_method(run.base));

	size_t fork_at = std::min<size_t>((size_t)p.c("fork_at"), p.ops.size()), child_len = std::min<size_t>((size_t)p.c("child_len"), p.ops.size() - fork_at);
	for (size_t i = 0; i < fork_at && !stop(); i++) exec_op(p.ops[i]);

	bool forked = false, child_ok = false;
	if (!stop()) {
		std::string before = run.epfd >= 0 ? epoll_interest(run.epfd) : "";
		int go[2], rep[2];
		if (__real_pipe2(go, O_CLOEXEC) == 0 && __real_pipe2(rep, O_CLOEXEC) == 0) {
			fflush(stdout); fflush(stderr);
			pid_t pid = fork();
			if (pid == 0) {
				// ---- child ----
				run.in_child = true;
				alarm(30);
				__real_close(go[1]); __real_close(rep[0]);
				int at_fork[NSIGS];
				for (int s = 0; s < NSIGS; s++) at_fork[s] = sig_events_added(s);	// also what the waiting parent has
				uint64_t h0 = G.hash;
				// a signal delivered before the fork was delivered to the parent: it is the parent's loop that owes the callback
				for (int s = 0; s < NSIGS; s++) { run.pending_sig[s] = 0; run.uncertain_sig[s] = false; }
				int rv = API(event_reinit(run.base));
				tr("api reinit -> %d", rv);
				if (rv != 0) violation("C11.reinit-failed", "event_reinit returned %d in the child", rv);
				run.epfd = -1;	// the child's backend has a new kernel object: learnt again at its first wait
				char c = 'R';
				(void)!__real_write(rep[1], &c, 1);	// reinitialised: from now on a signal sent to this pid is this process's alone
				while (__real_read(go[0], &c, 1) < 0 && errno == EINTR) {}
				if (p.c("sig_to_child")) { int s = (int)(p.c("sig_to_child") - 1) % NSIGS; if (at_fork[s] > 0) run.pending_sig[s]++; }
				for (size_t i = fork_at; i < fork_at + child_len && !stop(); i++) exec_op(p.ops[i]);
				if (!stop()) do_loop();
				if (p.c("sig_to_parent") && !stop()) { int s = (int)(p.c("sig_to_parent") - 1) % NSIGS; if (at_fork[s] > 0) kill(getppid(), SIGS[s]); }
				char out[1400];
				int n;
				if (stop()) n = snprintf(out, sizeof out, "V\t%s\t%s\n", G.rule.c_str(), G.detail.substr(0, 1000).c_str());
				else { unsigned bits = 0; for (int k = 0; k < run.nfd; k++) if (run.has_data[k]) bits |= 1u << k; n = snprintf(out, sizeof out, "OK\t%u\t%llx\t%d\t%d\n", bits, (unsigned long long)(G.hash ^ h0), run.checked, run.loops); }
				(void)!__real_write(rep[1], out, (size_t)n);
				_exit(0);
			}
			__real_close(go[0]); __real_close(rep[1]);
			if (pid > 0) {
				forked = true;
				fault("fork");
				// the child reinitialises and says so; then a signal for the child alone may be sent (only if the child manages
				// that signal: it inherited the parent's events, so the parent's count tells), then it is told to go on
				char c = 0;
				ssize_t rn;
				while ((rn = __real_read(rep[0], &c, 1)) < 0 && errno == EINTR) {}
				int sig_sent = -1, expect_death = -1;
				if (rn == 1 && c == 'R' && p.c("sig_to_child")) {
					int s = (int)(p.c("sig_to_child") - 1) % NSIGS;
					if (sig_events_added(s) > 0) { kill(pid, SIGS[s]); sig_sent = s; fault("signal-to-child-only"); tr("api kill child sig=%d", SIGS[s]); }
					// nobody manages this signal (never added, or its last event deleted before the fork): after event_reinit the child
					// must still have the default disposition, i.e. the signal ends it
					else if (p.c("sig_unmanaged")) { kill(pid, SIGS[s]); expect_death = s; fault("unmanaged-signal-to-child"); tr("api kill child sig=%d (unmanaged)", SIGS[s]); }
				}
				(void)sig_sent;
				c = 'g';
				(void)!__real_write(go[1], &c, 1);
				std::string msg;
				char buf[512];
				ssize_t n;
				while ((n = __real_read(rep[0], buf, sizeof buf)) > 0 || (n < 0 && errno == EINTR)) if (n > 0) msg.append(buf, (size_t)n);
				int st = 0;
				while (waitpid(pid, &st, 0) < 0 && errno == EINTR) {}
				tr("child exit status=0x%x report=%s", st, msg.substr(0, 200).c_str());
				if (expect_death >= 0) {
					if (WIFSIGNALED(st) && WTERMSIG(st) == SIGS[expect_death]) { probe("child-ended-by-unmanaged-signal"); msg = "OK\t" + std::to_string([&]() { unsigned b = 0; for (int k = 0; k < run.nfd; k++) if (run.has_data[k]) b |= 1u << k; return b; }()) + "\t0\t1\t1\n"; }
					else { violation("C11.unmanaged-signal-swallowed", "signal %d, which no event manages, was sent to the child after event_reinit: the default action should have ended it, but it went on (wait status 0x%x, report '%s')", SIGS[expect_death], st, msg.substr(0, 60).c_str()); msg = "OK\t0\t0\t0\t0\n"; }
				}
				if (msg.compare(0, 2, "V\t") == 0) {
					size_t t2 = msg.find('\t', 2);
					std::string rule = msg.substr(2, t2 == std::string::npos ? std::string::npos : t2 - 2), det = t2 == std::string::npos ? "" : msg.substr(t2 + 1);
					if (!det.empty() && det.back() == '\n') det.pop_back();
					violation(rule.c_str(), "in the child: %s", det.c_str());
				} else if (msg.compare(0, 3, "OK\t") == 0) {
					unsigned bits = 0; unsigned long long hh = 0; int chk = 0, lp = 0;
					sscanf(msg.c_str(), "OK\t%u\t%llx\t%d\t%d", &bits, &hh, &chk, &lp);
					for (int k = 0; k < run.nfd; k++) run.has_data[k] = (bits >> k) & 1;
					run.checked += chk;
					child_ok = lp > 0;
				} else violation("C11.child-died", "the child ended without a report (wait status 0x%x): crashed, hung past its 30-second alarm or was killed by a signal meant for the parent", st);
				// (a child that was ended by an unmanaged signal never got as far as signalling its parent)
				if (p.c("sig_to_parent") && !stop() && expect_death < 0) { int s = (int)(p.c("sig_to_parent") - 1) % NSIGS; if (sig_events_added(s) > 0) { run.pending_sig[s]++; fault("signal-to-parent-only"); } }
				// the parent's registrations are what they were
				if (!stop() && run.epfd >= 0) { std::string after = epoll_interest(run.epfd); if (after != before) violation("C11.parent-registrations-changed", "the parent's epoll set was {%s} before the fork and is {%s} after the child reinitialised, ran and exited", before.c_str(), after.c_str()); }
			} else violation("C11.fork-failed", "fork: %s", strerror(errno));
			__real_close(go[1]); __real_close(rep[0]);
		}
	}
	for (size_t i = fork_at + child_len; i < p.ops.size() && !stop(); i++) exec_op(p.ops[i]);
	if (!stop()) do_loop();
	teardown();
	{ vk::HarnessScope hs; for (int k = 0; k < run.nfd; k++) { close(run.rd[k]); close(run.wr[k]); } }
	if (!stop()) {
		if (mon::live_blocks_run() != 0) violation("C11.leak", "%lld block(s) live after event_base_free: %s", (long long)mon::live_blocks_run(), mon::live_blocks_desc(5).c_str());
		else if (vk::open_fd_count_lib() != 0) violation("C11.fd-leak", "library fds still open: %s", vk::open_fd_list_lib().c_str());
	}
	if (!stop()) G.nontrivial = forked && child_ok && run.checked > 0;
	R = nullptr;
}

static void generate(Plan &p, Rng &r) {
	bool thorough = p.tier == "thorough";
	p.cfg["backend"] = r.below(4);
	p.cfg["signalfd"] = r.below(2);
	p.cfg["nfd"] = r.range(1, MAXFD);
	int npre = (int)r.range(3, thorough ? 25 : 14), nchild = (int)r.range(0, thorough ? 14 : 8), npost = (int)r.range(1, thorough ? 14 : 8);
	p.cfg["fork_at"] = npre;
	p.cfg["child_len"] = nchild;
	p.cfg["sig_to_child"] = r.chance(0.4) ? r.range(1, NSIGS) : 0;
	p.cfg["sig_to_parent"] = r.chance(0.3) ? r.range(1, NSIGS) : 0;
	p.cfg["sig_unmanaged"] = r.chance(0.3);
	auto gen = [&](bool pre) {
		Op o;
		int x = (int)r.below(100);
		if (pre && x < 30) { o.code = x < 14 ? OP_NEW_IO : x < 22 ? OP_NEW_TIMER : OP_NEW_SIG; o.a[0] = r.below(16); o.a[1] = r.below(2); }
		else if (x < 45) { o.code = OP_ADD; o.a[0] = r.below(MAXEV); }
		else if (x < 55) { o.code = OP_DEL; o.a[0] = r.below(MAXEV); }
		else if (x < 62) { o.code = OP_ACTIVE; o.a[0] = r.below(MAXEV); }
		else if (x < 72) { o.code = OP_WRITE; o.a[0] = r.below(MAXFD); }
		else if (x < 78) { o.code = OP_DRAIN; o.a[0] = r.below(MAXFD); }
		else if (x < 85) { o.code = OP_RAISE; o.a[0] = r.below(NSIGS); }
		else if (x < 93) { o.code = OP_LOOP; }
		else if (x < 97) { o.code = OP_ADVANCE; o.a[0] = r.pick(std::vector<int64_t>{1, 100, 250, 999}); }
		else { o.code = pre ? OP_NEW_IO : OP_FREE; o.a[0] = r.below(MAXEV); o.a[1] = r.below(2); }
		return o;
	};
	for (int i = 0; i < npre; i++) { Op o = gen(true); if (i < 3) { o.code = i == 0 ? OP_NEW_IO : i == 1 ? OP_NEW_SIG : OP_NEW_TIMER; o.a[0] = r.below(16); o.a[1] = r.below(2); } p.ops.push_back(o); }
	for (int i = 0; i < nchild + npost; i++) p.ops.push_back(gen(false));
}

static std::vector<int64_t> cfg_simpler(const std::string &key, int64_t cur) {
	if (key == "fork_at" || key == "child_len") return {};
	if (key == "nfd") return cur > 1 ? std::vector<int64_t>{1} : std::vector<int64_t>{};
	if (cur != 0) return {0};
	return {};
}

int main(int argc, char **argv) {
	static Harness h = {"h_fork", opnames, OP_N, generate, execute, cfg_simpler, nullptr};
	return harness_main(argc, argv, h);
}
