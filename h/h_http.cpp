// H5: HTTP harness — server side: C23 (request framing and parsing), C25 (size limits), C26 (what the library writes);
// client side: C24 (response framing and parsing), C27 (every request completes exactly once). World S: an evhttp server
// on a simulated listening socket fed by scripted clients, and evhttp_connections talking to scripted servers; every
// stream is sent under a plan-chosen segmentation, and a twin connection carries the same bytes cut differently.
#include <algorithm>
#include <cerrno>
#include <cstring>
#include <deque>
#include <map>
#include <set>
#include <sys/socket.h>
#include <netinet/in.h>
#include <errno.h>
#include <unistd.h>
#include <event2/event.h>
#include <event2/buffer.h>
#include <event2/http.h>
#include <event2/http_struct.h>
#include <event2/keyvalq_struct.h>
#include <event2/util.h>
#include "sim/sim.hpp"
#include "vk/vk.hpp"
#include "mon/mon.hpp"
#include "ref/http9112.hpp"

using namespace sim;

enum { OP_REQ, OP_REPLY, OP_SEND, OP_LOOP, OP_ADVANCE, OP_CLIENT_CLOSE, OP_CREQ, OP_SRESP, OP_CANCEL, OP_CONN_FREE, OP_N };
static const char *const opnames[OP_N] = {"request_bytes", "reply_recipe", "send", "loop", "advance", "client_close", "make_request", "server_response", "cancel", "connection_free"};

#define NCONN 4
#define NSHAPES 36

typedef std::vector<std::pair<std::string, std::string>> Hdrs;

struct Delivered { std::string method, uri; int major, minor; Hdrs headers; std::string body; };
struct Recipe { int style = 0; int status = 200; std::string reason; Hdrs headers; std::string body; int nchunks = 1; int empty_at = -1; };	// empty_at: an empty evbuffer is passed to evhttp_send_reply_chunk before that chunk
struct Reply { Recipe r; std::string method; };

// a scripted client of the evhttp server
struct SConn {
	vk::Endpoint *ep = nullptr;
	bool open = false, connecting = false, closed_by_server = false, closed_by_client = false;
	std::string stream;			// every byte queued for this connection
	size_t sent = 0;			// how much of it has been handed to the network
	size_t want = 0;			// how much the plan has asked to send so far (matters when the rest is held back)
	int twin_of = -1;
	uint64_t cutseed = 0;
	std::vector<Delivered> delivered;	// what the server's callback saw from this connection, in order
	std::vector<Reply> replies;		// what the callback answered, in order
	std::string in;				// response bytes received
	int port = 0;
	size_t in_highwater = 0;
	int undecided = -1;	// the sent bytes end inside message number 'undecided', which already exceeds a limit for certain
	std::string undecided_why;
	int owed = -1;	// first valid message that was not delivered although everything before it was
	bool was_reset = false;	// the server closed with unread input: the network may have dropped the tail of what it wrote
	std::vector<std::pair<h9::Msg, bool>> msgs;	// reference reading of the stream: (message, was it delivered to the callback)
};

// client side: a request made through the library
struct CReq {
	struct evhttp_request *req = nullptr;
	int conn = 0;
	std::string method, uri;
	int ncb = 0, nerr = 0;
	bool cancelled = false, freed_with_conn = false;
	bool got_response = false;
	int status = -1;
	Hdrs headers;
	std::string body;
	int errcode = -1;
	bool submitted = false;
	bool chain = false;		// its completion callback makes one more request on the same connection
	int chained_from = -1;
};
// client side: a scripted server connection accepted from the library
struct SrvConn {
	vk::Endpoint *ep = nullptr; std::string in; bool open = true; int lconn = 0;
	std::string out;		// every response byte the scripted server sent on this connection
	bool fin = false, rst = false;	// the scripted server ended the connection after those bytes (orderly / reset)
	std::vector<int> reqs;		// requests read here, in order (index into creqs, -1 if the target is not one of ours)
};
struct CConn {
	struct evhttp_connection *evcon = nullptr;
	vk::Endpoint *listener = nullptr;
	std::vector<SrvConn *> accepted;
	std::deque<std::string> responses;	// scripted response byte strings, one per request read
	std::deque<std::pair<int, int>> resp_mode;	// (close_at, gap): close after that many bytes of the response (-1 no), pause
	bool freed = false;
	bool autofree = false;		// evhttp_connection_free_on_completion(): the library frees it; alive as long as its block is
	uint64_t seq = 0;		// allocation serial of the connection object
	int refuse_left = 0;		// connect attempts still to be refused
	int twin_of = -1;
	std::vector<std::string> methods_seen;	// methods of the requests the scripted server has read, in order
	std::string resp_stream;		// all response bytes sent so far on the current accepted connection
};

struct Run {
	const Plan *plan = nullptr;
	struct event_base *base = nullptr;
	struct evhttp *http = nullptr;
	SConn sc[NCONN];
	std::deque<Recipe> recipes;
	std::map<std::pair<int, std::string>, Recipe> chosen;
	size_t max_headers = 0, max_body = 0;
	bool stalled = false;
	int delivered_total = 0, compared = 0, limit_hits = 0, responses_parsed = 0, client_compared = 0;
	bool long_stall = false;	// the harness let a second or more pass without running the loop: a timeout may be due together with the data
	// client side
	CConn cc[NCONN];
	std::vector<CReq> creqs;
	int completed = 0, faults_during_request = 0, cmp_responses = 0;
	bool base_gone = false;
};
static Run *R;

static bool fam(const char *id) { const std::string &p = R->plan->prop; return p == id || (p != "C23" && p != "C24" && p != "C25" && p != "C26" && p != "C27"); }
#define V(idstr, ...) do { if (fam(idstr)) violation(__VA_ARGS__); } while (0)

static std::string esc(const std::string &s, size_t max = 60) {
	std::string o;
	for (size_t i = 0; i < s.size() && i < max; i++) { unsigned char c = s[i]; if (c == '\r') o += "\\r"; else if (c == '\n') o += "\\n"; else if (c < 0x20 || c >= 0x7f) { char b[8]; snprintf(b, sizeof b, "\\x%02x", c); o += b; } else o += c; }
	if (s.size() > max) o += "...";
	return o;
}
static const char *cmd_name(enum evhttp_cmd_type t) {
	switch (t) {
	case EVHTTP_REQ_GET: return "GET"; case EVHTTP_REQ_POST: return "POST"; case EVHTTP_REQ_HEAD: return "HEAD"; case EVHTTP_REQ_PUT: return "PUT";
	case EVHTTP_REQ_DELETE: return "DELETE"; case EVHTTP_REQ_OPTIONS: return "OPTIONS"; case EVHTTP_REQ_TRACE: return "TRACE"; case EVHTTP_REQ_CONNECT: return "CONNECT";
	case EVHTTP_REQ_PATCH: return "PATCH"; case EVHTTP_REQ_PROPFIND: return "PROPFIND"; case EVHTTP_REQ_PROPPATCH: return "PROPPATCH"; case EVHTTP_REQ_MKCOL: return "MKCOL";
	case EVHTTP_REQ_LOCK: return "LOCK"; case EVHTTP_REQ_UNLOCK: return "UNLOCK"; case EVHTTP_REQ_COPY: return "COPY"; case EVHTTP_REQ_MOVE: return "MOVE";
	default: return "?";
	}
}
static Hdrs hdrs_of(struct evkeyvalq *q) { Hdrs h; for (struct evkeyval *kv = q->tqh_first; kv; kv = kv->next.tqe_next) h.emplace_back(kv->key, kv->value); return h; }
static std::string buf_str(struct evbuffer *b) { size_t n = evbuffer_get_length(b); std::string s(n, '\0'); if (n) evbuffer_copyout(b, &s[0], n); return s; }

// the value a reader derives from a value the API accepted with line folding in it (each fold reads as one space)
static std::string unfold(const std::string &v) {
	if (v.find('\n') == std::string::npos) return v;
	std::string out;
	size_t p = 0;
	bool first = true;
	while (p <= v.size()) {
		size_t e = v.find('\n', p);
		if (e == std::string::npos) e = v.size();
		std::string piece = v.substr(p, e - p);
		if (!piece.empty() && piece.back() == '\r') piece.pop_back();
		out += first ? h9::trim(piece) : " " + h9::trim(piece);
		first = false;
		p = e + 1;
	}
	return out;
}
static bool hdrs_equal(const Hdrs &a, const Hdrs &b, std::string *why) {
	if (a.size() != b.size()) { if (why) *why = std::to_string(a.size()) + " vs " + std::to_string(b.size()) + " header fields"; return false; }
	for (size_t i = 0; i < a.size(); i++) if (h9::lower(a[i].first) != h9::lower(b[i].first) || a[i].second != b[i].second) { if (why) *why = "field " + std::to_string(i) + ": '" + esc(a[i].first) + ": " + esc(a[i].second) + "' vs '" + esc(b[i].first) + ": " + esc(b[i].second) + "'"; return false; }
	return true;
}

// ---------------------------------------------------------------------------
// server side
static void send_more(int ci, size_t upto);

static void gen_cb(struct evhttp_request *req, void *) {
	if (!R) return;
	struct evhttp_connection *evcon = evhttp_request_get_connection(req);
	char *addr = nullptr;
	ev_uint16_t port = 0;
	if (evcon) evhttp_connection_get_peer(evcon, (const char **)&addr, &port);
	int ci = -1;
	for (int i = 0; i < NCONN; i++) if (R->sc[i].port == port && R->sc[i].ep) ci = i;
	Delivered d;
	d.method = cmd_name(evhttp_request_get_command(req));
	d.uri = evhttp_request_get_uri(req) ? evhttp_request_get_uri(req) : "";
	d.major = req->major; d.minor = req->minor;
	d.headers = hdrs_of(evhttp_request_get_input_headers(req));
	d.body = buf_str(evhttp_request_get_input_buffer(req));
	tr("cb request conn=%d %s '%s' HTTP/%d.%d hdrs=%zu body=%zu", ci, d.method.c_str(), esc(d.uri, 40).c_str(), d.major, d.minor, d.headers.size(), d.body.size());
	if (stop()) { evhttp_send_error(req, 500, nullptr); return; }
	if (ci < 0) { V("C23", "C23.request-from-nowhere", "a request arrived from peer port %d, which is no client of this run", port); evhttp_send_error(req, 500, nullptr); return; }
	SConn &c = R->sc[ci];
	c.delivered.push_back(d);
	R->delivered_total++;
	Recipe rc;
	// twins must be answered alike, or what follows on them legitimately differs: the first of a group to deliver a message picks the recipe
	auto key = std::make_pair(c.twin_of >= 0 ? c.twin_of : ci, d.uri);
	auto ch = R->chosen.find(key);
	if (ch != R->chosen.end()) rc = ch->second;
	else { if (!R->recipes.empty()) { rc = R->recipes.front(); R->recipes.pop_front(); } R->chosen[key] = rc; }
	Reply rp; rp.r = rc; rp.method = d.method;
	// headers the application adds; a refused header must not appear on the wire
	Hdrs accepted;
	for (auto &h : rc.headers) {
		int r = API(evhttp_add_header(evhttp_request_get_output_headers(req), h.first.c_str(), h.second.c_str()));
		if (r == 0) accepted.emplace_back(h.first, unfold(h.second)); else probe("header-refused-by-api");
	}
	rp.r.headers = accepted;
	c.replies.push_back(rp);
	switch (rc.style % 3) {
	case 0: {
		struct evbuffer *b = evbuffer_new();
		evbuffer_add(b, rc.body.data(), rc.body.size());
		APIV(evhttp_send_reply(req, rc.status, rc.reason.empty() ? nullptr : rc.reason.c_str(), b));
		evbuffer_free(b);
		break;
	}
	case 1: APIV(evhttp_send_error(req, rc.status, rc.reason.empty() ? nullptr : rc.reason.c_str())); c.replies.back().r.body = "\x01"; break;	// body is the library's own page
	default: {
		APIV(evhttp_send_reply_start(req, rc.status, rc.reason.empty() ? nullptr : rc.reason.c_str()));
		size_t n = std::max(1, rc.nchunks), per = (rc.body.size() + n - 1) / n, off = 0;
		struct evbuffer *b = evbuffer_new();
		int ci_chunk = 0;
		while (off < rc.body.size()) {
			if (ci_chunk++ == rc.empty_at) { APIV(evhttp_send_reply_chunk(req, b)); probe("empty-chunk-mid-reply"); }	// b is empty here: must not end the reply
			size_t k = std::min(per ? per : 1, rc.body.size() - off); evbuffer_add(b, rc.body.data() + off, k); APIV(evhttp_send_reply_chunk(req, b)); off += k;
		}
		evbuffer_free(b);
		APIV(evhttp_send_reply_end(req));
		probe("chunked-reply");
		break;
	}
	}
}

static void sconn_connect(int ci) {
	SConn &c = R->sc[ci];
	if (c.open || c.connecting || c.closed_by_server || c.closed_by_client) return;
	sockaddr_in sa = vk::addr4(0x7f000001, 8080);
	vk::EndpointCbs cb;
	cb.on_connected = [ci](vk::Endpoint *e) { SConn &c = R->sc[ci]; c.open = true; c.connecting = false; c.port = vk::ep_local_port(e); send_more(ci, R->plan->c("hold_back") ? c.want : c.stream.size()); };
	cb.on_connect_failed = [ci](vk::Endpoint *, int) { R->sc[ci].connecting = false; R->sc[ci].closed_by_server = true; };
	cb.on_data = [ci](vk::Endpoint *, const std::string &d) { R->sc[ci].in += d; };
	cb.on_eof = [ci](vk::Endpoint *e) { SConn &c = R->sc[ci]; c.closed_by_server = true; c.open = false; vk::ep_close(e); tr("client%d: server closed after %zu bytes: ..%s", ci, c.in.size(), esc(c.in.size() > 200 ? c.in.substr(c.in.size() - 200) : c.in, 400).c_str()); };
	cb.on_reset = [ci](vk::Endpoint *) { SConn &c = R->sc[ci]; c.closed_by_server = true; c.was_reset = true; c.open = false; tr("client%d: reset", ci); };
	c.connecting = true;
	c.ep = vk::ep_connect((sockaddr *)&sa, sizeof sa, cb);
}
static void send_more(int ci, size_t upto) {
	SConn &c = R->sc[ci];
	if (!c.open || c.sent >= upto) return;
	std::string part = c.stream.substr(c.sent, upto - c.sent);
	// segmentation: a pure function of (cut seed, absolute stream offset), so that twins differ only in their seed
	std::vector<size_t> cuts;
	int mode = (int)(c.cutseed % 5);
	for (size_t k = 1; k < part.size(); k++) {
		uint64_t h = mix(c.cutseed, c.sent + k);
		bool cut = mode == 0 ? false : mode == 1 ? true : mode == 2 ? h % 3 == 0 : mode == 3 ? h % 17 == 0 : (part[k - 1] == '\r' || part[k - 1] == '\n' || part[k] == '\r');
		if (cut) cuts.push_back(k);
	}
	vk::ep_send_cut(c.ep, part, cuts, 1000);
	c.sent = upto;
}

static const char *const methods[] = {"GET", "POST", "HEAD", "PUT", "DELETE", "OPTIONS", "TRACE", "CONNECT", "PATCH", "PROPFIND", "BREW", "get", "G\x01T"};

// one request message from the grammar (valid and adversarial); the reference decides what it means
static std::string make_request(int shape, int64_t p, int idx) {
	std::string m = methods[p % 10], target = "/r" + std::to_string(idx), ver = "HTTP/1.1", hdr = "Host: test\r\n", body;
	auto cl = [&](const std::string &b) { return "Content-Length: " + std::to_string(b.size()) + "\r\n"; };
	std::string b1 = std::string((size_t)(p % 50), 'b'), b2 = "hello world " + std::to_string(p);
	switch (shape % NSHAPES) {
	case 0: break;																// plain
	case 1: m = "POST"; hdr += cl(b2); body = b2; break;
	case 2: m = "POST"; hdr += "Transfer-Encoding: chunked\r\n"; body = "5\r\nhello\r\n" + std::string(p % 2 ? "3;ext=1\r\nabc\r\n" : "") + "0\r\n\r\n"; break;
	case 3: m = "POST"; hdr += "Transfer-Encoding: chunked\r\n"; body = "a\r\n0123456789\r\n0\r\nX-Trailer: t\r\n\r\n"; break;
	case 4: m = "PUT"; hdr += cl(b1) + cl(b1); body = b1; break;									// repeated identical CL
	case 5: m = "POST"; hdr += "Content-Length: 3\r\nContent-Length: 5\r\n"; body = "abcde"; break;					// conflicting CL
	case 6: m = "POST"; hdr += "Content-Length: +5\r\n"; body = "abcde"; break;							// signed CL
	case 7: m = "POST"; hdr += "Content-Length:  5 \r\n"; body = "abcde"; break;							// OWS around the value (valid)
	case 8: m = "POST"; hdr += "Content-Length: 5\r\nTransfer-Encoding: chunked\r\n"; body = "3\r\nabc\r\n0\r\n\r\n"; break;	// both
	case 9: m = "POST"; hdr += "Transfer-Encoding: gzip\r\nContent-Length: 5\r\n"; body = "abcde"; break;				// TE not ending in chunked
	case 10: m = "POST"; hdr += "Transfer-Encoding: chunked, gzip\r\n"; body = "3\r\nabc\r\n0\r\n\r\n"; break;
	case 11: hdr += "X-Space : v\r\n"; break;												// whitespace before the colon
	case 12: hdr += "X-Fold: a\r\n b\r\n"; break;											// obs-fold
	case 13: m = "HEAD"; hdr += cl(b2); body = b2; break;										// HEAD announcing a body
	case 14: m = "TRACE"; hdr += cl(b2); body = b2; break;
	case 15: ver = "HTTP/1.0"; hdr = ""; break;
	case 16: ver = "HTTP/1.0"; hdr = "Connection: keep-alive\r\n"; m = "POST"; hdr += cl(b2); body = b2; break;
	case 17: m = methods[10 + p % 3]; break;												// extension / lower-case / control-char method
	case 18: target = "/a b"; break;													// space in the target
	case 19: ver = p % 2 ? "HTTP/2.0" : "HTTP/1.x"; break;
	case 20: m = "POST"; hdr += "Transfer-Encoding: chunked\r\n"; body = "zz\r\nabc\r\n0\r\n\r\n"; break;				// bad chunk size
	case 21: m = "POST"; hdr += "Transfer-Encoding: chunked\r\n"; body = "3\r\nabcX\r\n0\r\n\r\n"; break;				// chunk data not followed by CRLF
	case 22: hdr += "Expect: 100-continue\r\n"; m = "POST"; hdr += cl(b2); body = b2; break;
	case 23: hdr += "X-Long: " + std::string((size_t)(p % 9000), 'x') + "\r\n"; break;					// around the header limit
	case 24: for (int k = 0; k < (int)(p % 300); k++) hdr += "X-" + std::to_string(k) + ": v\r\n"; break;
	case 25: m = "POST"; body = std::string((size_t)(p % 9000), 'y'); hdr += cl(body); break;					// around the body limit
	case 26: m = "POST"; hdr += "Transfer-Encoding: chunked\r\n"; { size_t n = (size_t)(p % 9000); char b[32]; snprintf(b, sizeof b, "%zx\r\n", n); body = std::string(b) + std::string(n, 'z') + "\r\n0\r\n\r\n"; } break;
	case 27: hdr += "Connection: close\r\n"; break;
	case 28: hdr = "Host: test\n"; return m + " " + target + " " + ver + "\n" + hdr + "\n";					// bare LF line ends
	case 29: hdr += "Content-Length: 0x10\r\n"; m = "POST"; body = "0123456789abcdef"; break;					// hex CL
	case 30: m = "POST"; hdr += "Transfer-Encoding: chunked\r\n"; body = std::string(p % 2 ? "0x5" : "0X5") + "\r\nhello\r\n0\r\n\r\n"; break;	// chunk size with a 0x prefix
	case 31: m = "POST"; hdr += "Transfer-Encoding: chunked\r\n"; body = std::string(p % 3 == 0 ? "+5" : p % 3 == 1 ? "-5" : "5 5") + "\r\nhello\r\n0\r\n\r\n"; break;	// signed / spaced chunk size
	case 32: m = "POST"; hdr += "Transfer-Encoding: chunked\r\n"; body = "0005\r\nhello\r\nA\r\n0123456789\r\n000\r\n\r\n"; break;	// leading zeros, upper-case digit (valid)
	case 33: hdr += "X-Fold: one\r\n two\r\n\tthree\r\nX-After: z\r\n"; break;							// obs-fold over three lines
	case 34: hdr += "Connection: keep-alive, close\r\n"; break;									// close as one of several options
	default: m = "POST"; hdr += "Transfer-Encoding: chunked\r\n"; body = "5\r\nhello\r\n0\r\nX-T1: a\r\n b\r\nX-T2: c\r\n\r\n"; break;	// folded trailer field
	}
	return m + " " + target + " " + ver + "\r\n" + hdr + "\r\n" + body;
}

static bool known_method(const std::string &m) { static const char *const k[] = {"GET", "POST", "HEAD", "PUT", "DELETE", "OPTIONS", "TRACE", "CONNECT", "PATCH", "PROPFIND", "PROPPATCH", "MKCOL", "LOCK", "UNLOCK", "COPY", "MOVE"}; for (auto x : k) if (m == x) return true; return false; }

static void check_server_conn(int ci) {
	SConn &c = R->sc[ci];
	if (c.stream.empty()) return;
	bool limits = R->max_headers || R->max_body;
	// reference reading of everything that was sent; every message carries its stream offset in its target ("/r<offset>"),
	// which ties a delivered request to the message it came from
	std::string sent = c.stream.substr(0, c.sent);
	size_t pos = 0, next_delivered = 0;
	bool must_deliver = true;	// false once a message the server was free to refuse went undelivered (the connection may have ended there)
	c.msgs.clear();
	c.owed = -1;
	c.undecided = -1;
	std::set<size_t> claimed;
	while (pos < sent.size()) {
		h9::Msg m = h9::parse_request(sent, pos);
		if (m.v == h9::INCOMPLETE) {
			// the stream stops inside this message (the rest is held back): if what arrived already exceeds a limit, the server
			// has to say so now rather than wait for the rest (judged in check_responses)
			bool all_delivered = true;
			for (auto &pm : c.msgs) if (!pm.second) all_delivered = false;
			std::string why;
			if (limits && all_delivered && must_deliver && !c.closed_by_client && h9::over_limit_prefix(sent, pos, R->max_headers, R->max_body, &why)) { c.undecided = (int)c.msgs.size(); c.undecided_why = why; R->limit_hits++; probe("limit-exceeded-by-unfinished-message"); }
			break;
		}
		if (m.v != h9::REJECT && !known_method(m.method)) h9::weaken(m, h9::EITHER, "a method this server does not implement");
		size_t i = c.msgs.size();
		// the delivered request made from this message, if any
		int di = -1;
		for (size_t k = 0; k < c.delivered.size(); k++) if (!claimed.count(k) && c.delivered[k].uri == m.target && !m.target.empty()) { di = (int)k; break; }
		c.msgs.push_back({m, di >= 0});
		if (di >= 0) {
			claimed.insert((size_t)di);
			if ((size_t)di < next_delivered) { V("C23", "C23.order", "connection %d: message %zu was delivered before an earlier message of the stream", ci, i); return; }
			next_delivered = (size_t)di + 1;
		}
		if (m.v == h9::REJECT) {
			if (di >= 0) V("C23", "C23.rejectable-message-delivered", "connection %d, message %zu: %s (RFC 9112: must be rejected), yet the callback got '%s %s' with a %zu-byte body", ci, i, m.why.c_str(), c.delivered[di].method.c_str(), esc(c.delivered[di].uri, 30).c_str(), c.delivered[di].body.size());
			break;
		}
		bool over = (R->max_headers && m.header_bytes > R->max_headers) || (R->max_body && m.body.size() > R->max_body);
		if (over) {
			R->limit_hits++;
			if (di >= 0) V("C25", "C25.oversized-message-delivered", "connection %d, message %zu: header section %zu bytes (limit %zu), body %zu bytes (limit %zu): delivered to the callback", ci, i, m.header_bytes, R->max_headers, m.body.size(), R->max_body);
			break;
		}
		if (di < 0) {
			// a valid request after delivered ones: owed to the callback unless the server announced the end of the connection
			// in an earlier response (judged in check_responses, once the responses are read)
			if (m.v == h9::ACCEPT && must_deliver && !limits && !c.closed_by_client && !G.capped && c.owed < 0) c.owed = (int)i;
			must_deliver = false;
		} else {
			const Delivered &d = c.delivered[di];
			R->compared++;
			std::string why;
			bool same = d.method == m.method && d.uri == m.target && d.major == m.major && d.minor == m.minor && d.body == m.body;
			if (!same) why = "got '" + d.method + " " + esc(d.uri, 30) + " HTTP/" + std::to_string(d.major) + "." + std::to_string(d.minor) + "' body " + std::to_string(d.body.size()) + " bytes; the stream says '" + m.method + " " + esc(m.target, 30) + " HTTP/" + std::to_string(m.major) + "." + std::to_string(m.minor) + "' body " + std::to_string(m.body.size()) + " bytes";
			else {
				same = hdrs_equal(d.headers, m.headers, &why);
				if (!same && !m.trailers.empty()) { Hdrs all = m.headers; all.insert(all.end(), m.trailers.begin(), m.trailers.end()); std::string w2; if (hdrs_equal(d.headers, all, &w2)) same = true; }	// trailer fields merged into the header list: allowed
			}
			if (!same) { V("C23", "C23.request-differs", "connection %d, message %zu%s: %s", ci, i, m.v == h9::EITHER ? (" (" + m.why + ")").c_str() : "", why.c_str()); return; }
			if ((size_t)di < c.replies.size() && c.replies[di].r.style % 3 == 1) must_deliver = false;	// evhttp_send_error() answers with Connection: close
			if (m.method == "CONNECT") { probe("connect-delivered"); return; }	// after CONNECT the bytes belong to a tunnel, not to this parser
		}
		pos += m.consumed;
		if (!m.keep_alive) break;
	}
	// a delivered request that no message of the stream accounts for: bytes of a body or of a rejected message read as a request
	for (size_t k = 0; k < c.delivered.size(); k++) if (!claimed.count(k)) {
		V("C23", "C23.extra-request", "connection %d: the callback got '%s %s' (%zu-byte body), which is none of the %zu messages the client sent", ci, c.delivered[k].method.c_str(), esc(c.delivered[k].uri, 40).c_str(), c.delivered[k].body.size(), c.msgs.size());
		return;
	}
}

static void check_twins() {
	for (int i = 0; i < NCONN; i++) {
		SConn &a = R->sc[i];
		if (a.twin_of < 0) continue;
		SConn &b = R->sc[a.twin_of];
		if (a.sent != b.sent || a.closed_by_client || b.closed_by_client) continue;
		size_t n = std::min(a.delivered.size(), b.delivered.size());
		for (size_t k = 0; k < n; k++) {
			const Delivered &x = a.delivered[k], &y = b.delivered[k];
			std::string why;
			if (x.method != y.method || x.uri != y.uri || x.body != y.body || x.major != y.major || x.minor != y.minor || !hdrs_equal(x.headers, y.headers, &why)) {
				V("C23", "C23.segmentation-dependent", "connections %d and %d carried the same %zu bytes cut differently; request %zu was delivered as '%s %s' (%zu-byte body) on one and '%s %s' (%zu-byte body) on the other %s", a.twin_of, i, a.sent, k, y.method.c_str(), esc(y.uri, 30).c_str(), y.body.size(), x.method.c_str(), esc(x.uri, 30).c_str(), x.body.size(), why.c_str());
				return;
			}
		}
		if (a.delivered.size() != b.delivered.size() && !R->max_headers && !R->max_body)
			V("C23", "C23.segmentation-dependent", "connections %d and %d carried the same %zu bytes cut differently; %zu requests were delivered on one, %zu on the other", a.twin_of, i, a.sent, b.delivered.size(), a.delivered.size());
		probe("twin-compared");
	}
}

// C26: what the server wrote, read back by the reference response parser
static void check_responses(int ci) {
	SConn &c = R->sc[ci];
	size_t pos = 0, k = 0;	// k: next reply made by the callback
	size_t answered = 0;	// responses read in full
	bool said_close = false;	// some response so far announced that the connection ends with it
	struct Owed { SConn &c; int ci; size_t &answered; bool &said_close; ~Owed() {
		if (c.owed < 0 || stop()) return;
		if (said_close || answered < (size_t)c.owed || c.was_reset) return;	// the server ended the connection in the open, or never got that far
		const h9::Msg &m = c.msgs[c.owed].first;
		V("C23", "C23.request-not-delivered", "connection %d, message %d ('%s %s', %zu header fields, %zu-byte body) is a valid request, everything before it was delivered and answered without 'Connection: close', yet the callback never ran for it", ci, c.owed, m.method.c_str(), esc(m.target, 30).c_str(), m.headers.size(), m.body.size());
	} } owed_guard{c, ci, answered, said_close};
	struct Undecided { SConn &c; int ci; size_t &answered; bool &said_close; size_t &pos; ~Undecided() {
		if (c.undecided < 0 || stop() || G.capped) return;
		if (said_close || c.closed_by_server || c.was_reset || answered < (size_t)c.undecided) return;
		if (pos < c.in.size()) return;	// something came after the answers to the complete messages: the verdict
		V("C25", "C25.undecided-beyond-limit", "connection %d: %zu bytes were sent and the unfinished message %d already has %s; the server neither answered nor closed, it is waiting for more", ci, c.sent, c.undecided, c.undecided_why.c_str());
	} } undecided_guard{c, ci, answered, said_close, pos};
	if (!c.in.empty()) tr("client%d received %zu bytes: %s", ci, c.in.size(), esc(c.in, 400).c_str());
	// one response per message of the stream, in order: the callback's for a delivered message, the library's own otherwise
	for (size_t i = 0; i < c.msgs.size() && pos < c.in.size(); i++) {
		bool mine = c.msgs[i].second;
		if (mine && k >= c.replies.size()) return;
		std::string method = mine ? c.replies[k].method : c.msgs[i].first.method;
		h9::Msg m = h9::parse_response(c.in, pos, method, c.closed_by_server && !c.was_reset);
		if (m.v == h9::INCOMPLETE) return;
		R->responses_parsed++;
		if (m.v == h9::REJECT) { V("C26", "C26.response-unparsable", "connection %d, response to message %zu does not parse (%s): %s", ci, i, m.why.c_str(), esc(c.in.substr(pos), 80).c_str()); return; }
		{	// the library's own answer to Expect: 100-continue comes before the final response, once
			bool expects = false;
			for (auto &h : c.msgs[i].first.headers) if (h9::lower(h.first) == "expect" && h9::lower(h.second) == "100-continue") expects = true;
			if (m.status == 100 && m.headers.empty() && expects && !c.msgs[i].first.interim_seen) { c.msgs[i].first.interim_seen = true; pos += m.consumed; i--; probe("interim-100-continue"); continue; }
		}
		if (!m.keep_alive || m.close_delimited || m.tunnel) said_close = true;
		answered = i + 1;
		if (!mine) { pos += m.consumed; probe("library-made-response"); if (m.close_delimited || m.tunnel) break; continue; }
		const Reply &rp = c.replies[k++];
		if (m.status != rp.r.status) { V("C26", "C26.status", "connection %d, response to message %zu: status %d on the wire, the callback sent %d", ci, i, m.status, rp.r.status); return; }
		bool reason_has_break = rp.r.reason.find_first_of("\r\n") != std::string::npos;	// not a reason phrase: the library substitutes its own; what matters is that nothing of it shows up as a header (checked below)
		if (!rp.r.reason.empty() && !reason_has_break && m.reason != rp.r.reason) { V("C26", "C26.reason", "connection %d, response to message %zu: reason '%s' on the wire, the callback gave '%s'", ci, i, esc(m.reason).c_str(), esc(rp.r.reason).c_str()); return; }
		// every header the application added appears once with its value; the rest is the documented automatic set
		static const char *const autos[] = {"date", "content-length", "transfer-encoding", "connection", "content-type", "keep-alive"};
		Hdrs rest;
		for (auto &h : m.headers) { bool a = false; for (auto n : autos) if (h9::lower(h.first) == n) a = true; bool own = false; for (auto &w : rp.r.headers) if (h9::lower(w.first) == h9::lower(h.first)) own = true; if (!a || own) rest.push_back(h); }
		std::string why;
		bool hdr_ok = hdrs_equal(rest, rp.r.headers, &why);
		if (!hdr_ok && rp.r.style % 3 == 1) {	// evhttp_send_error() builds the response afresh: the fields added before may be dropped, none may be invented
			hdr_ok = true;
			for (auto &h : rest) { bool known = false; for (auto n : autos) if (h9::lower(h.first) == n) known = true; for (auto &w : rp.r.headers) if (h9::lower(w.first) == h9::lower(h.first) && w.second == h.second) known = true; if (!known) hdr_ok = false; }
		}
		if (!hdr_ok) { V("C26", "C26.headers", "connection %d, response to message %zu: header fields on the wire differ from what the callback added: %s", ci, i, why.c_str()); return; }
		bool nobody = rp.method == "HEAD" || (m.status >= 100 && m.status < 200) || m.status == 204 || m.status == 304;
		if (m.tunnel) { probe("connect-tunnel"); break; }	// what follows belongs to the tunnel, not to HTTP
		if (rp.r.body != "\x01" && !nobody && m.body != rp.r.body) { V("C26", "C26.body", "connection %d, response to message %zu: body of %zu bytes on the wire, the callback supplied %zu bytes", ci, i, m.body.size(), rp.r.body.size()); return; }
		if (nobody && !m.body.empty()) { V("C26", "C26.body-where-none-allowed", "connection %d, response to message %zu (%s, status %d) carries a %zu-byte body", ci, i, rp.method.c_str(), m.status, m.body.size()); return; }
		pos += m.consumed;
		if (m.close_delimited) break;
	}
}

// ---------------------------------------------------------------------------
// client side
static const char *const cmethods[] = {"GET", "POST", "HEAD", "PUT", "DELETE"};
static const enum evhttp_cmd_type ctypes[] = {EVHTTP_REQ_GET, EVHTTP_REQ_POST, EVHTTP_REQ_HEAD, EVHTTP_REQ_PUT, EVHTTP_REQ_DELETE};

static void exec_ctx_ops(int ri);

// is the connection object still there? (a connection marked free-on-completion is freed by the library)
static bool conn_alive(CConn &L) {
	if (!L.evcon || L.freed) return false;
	if (L.autofree && mon::block_seq(L.evcon) != L.seq) { L.evcon = nullptr; L.freed = true; probe("connection-freed-by-library"); return false; }
	return true;
}
static int submit_request(int li, int mi, size_t bodylen, const std::string &uri, bool chain, int from);

static void creq_cb(struct evhttp_request *req, void *arg) {
	int ri = (int)(intptr_t)arg;
	if (!R) return;
	CReq &q = R->creqs[ri];
	tr("cb response req=%d %s code=%d", ri, req ? "ok" : "null", req ? evhttp_request_get_response_code(req) : -1);
	if (stop()) return;
	if (R->base_gone) { V("C27", "C27.callback-after-base-free", "request %d: completion callback after the event base was freed", ri); return; }
	q.ncb++;
	q.req = nullptr;
	if (q.ncb > 1) { V("C27", "C27.completion-twice", "request %d: completion callback number %d", ri, q.ncb); return; }
	if (q.cancelled) V("C27", "C27.callback-after-cancel", "request %d: completion callback although evhttp_cancel_request had been called", ri);
	R->completed++;
	if (req && evhttp_request_get_response_code(req) != 0) {
		q.got_response = true;
		q.status = evhttp_request_get_response_code(req);
		q.headers = hdrs_of(evhttp_request_get_input_headers(req));
		q.body = buf_str(evhttp_request_get_input_buffer(req));
	}
	// a request made from inside the completion callback, on the same connection (which is alive here even when it is
	// about to be freed on completion: the library looks at its queue again after the callback)
	if (req && R->creqs[ri].chain && R->creqs.size() < 64 && !R->cc[R->creqs[ri].conn].freed && R->cc[R->creqs[ri].conn].evcon) {
		int li = R->creqs[ri].conn;
		probe("request-chained-from-callback");
		submit_request(li, 0, 0, "/c" + std::to_string(R->creqs.size()), false, ri);
	}
}
static void creq_err(enum evhttp_request_error e, void *arg) {
	int ri = (int)(intptr_t)arg;
	if (!R) return;
	CReq &q = R->creqs[ri];
	tr("cb error req=%d err=%d", ri, (int)e);
	if (stop()) return;
	q.nerr++;
	q.errcode = (int)e;
	if (q.nerr > 1) V("C27", "C27.error-callback-twice", "request %d: error callback number %d", ri, q.nerr);
}

// one response message from the grammar
static std::string make_response(int shape, int64_t p, const std::string &method) {
	std::string status = "200 OK", hdr, body = "body-" + std::to_string(p % 1000), ver = "HTTP/1.1";
	auto cl = [&](const std::string &b) { return "Content-Length: " + std::to_string(b.size()) + "\r\n"; };
	(void)method;
	switch (shape % 20) {
	case 0: hdr = cl(body); break;
	case 1: hdr = "Transfer-Encoding: chunked\r\n"; { std::string b = body; char sz[16]; snprintf(sz, sizeof sz, "%zx\r\n", b.size()); body = std::string(sz) + b + "\r\n0\r\n\r\n"; } break;
	case 2: hdr = "Connection: close\r\n"; break;										// close-delimited
	case 3: status = "204 No Content"; hdr = ""; body = ""; break;
	case 4: status = "304 Not Modified"; hdr = cl(body); body = ""; break;
	case 5: return "HTTP/1.1 100 Continue\r\n\r\nHTTP/1.1 200 OK\r\n" + cl(body) + "\r\n" + body;				// interim response first
	case 6: hdr = cl(body) + cl(body); break;
	case 7: hdr = "Content-Length: 3\r\nContent-Length: 4\r\n"; break;							// conflicting
	case 8: hdr = "Content-Length: -1\r\n"; break;
	case 9: hdr = "Transfer-Encoding: chunked\r\n"; body = "zz\r\nabc\r\n0\r\n\r\n"; break;
	case 10: ver = "HTTP/1.0"; hdr = ""; break;										// 1.0: close-delimited
	case 11: status = "404 Not Found"; hdr = cl(body); break;
	case 12: hdr = cl(body) + "X-Fold: a\r\n b\r\n"; break;
	case 13: hdr = "Content-Length: " + std::to_string(body.size() + 10) + "\r\n"; break;					// shorter body than announced (then close)
	case 14: return "HTP/1.1 200 OK\r\n\r\n";
	case 15: hdr = cl(body) + "X-Big: " + std::string((size_t)(p % 5000), 'h') + "\r\n"; break;
	case 16: body = std::string((size_t)(p % 20000), 'B'); hdr = cl(body); break;
	case 17: hdr = "Transfer-Encoding: chunked\r\n"; body = "4\r\nabcd\r\n0\r\nTrailer-X: y\r\n\r\n"; break;
	case 18: status = "200"; hdr = cl(body); break;										// no reason phrase, no space
	default: hdr = cl(body) + (p % 2 ? "Connection: close\r\n" : "Connection: keep-alive\r\n"); break;
	}
	return ver + " " + status + "\r\n" + hdr + "\r\n" + body;
}

// the scripted server has received bytes on an accepted connection: answer each complete request with the next script item
static void srv_on_data(int li, SrvConn *sc, const std::string &d) {
	CConn &L = R->cc[li];
	sc->in += d;
	for (;;) {
		h9::Msg m = h9::parse_request(sc->in, 0);
		if (m.v == h9::INCOMPLETE) break;
		if (m.v == h9::REJECT) { V("C26", "C26.request-unparsable", "the library wrote a request that does not parse (%s): %s", m.why.c_str(), esc(sc->in, 80).c_str()); sc->in.clear(); break; }
		sc->in.erase(0, m.consumed);
		L.methods_seen.push_back(m.method);
		sc->reqs.push_back(m.target.size() > 2 && m.target.compare(0, 2, "/c") == 0 ? atoi(m.target.c_str() + 2) : -1);
		{	// every request on the wire is one the application made, with the method and target it gave
			int ri = sc->reqs.back();
			if (ri < 0 || ri >= (int)R->creqs.size() || R->creqs[ri].conn != li) V("C26", "C26.request-not-made", "connection %d: the server read '%s %s', a request the application never made on it", li, m.method.c_str(), esc(m.target, 50).c_str());
			else if (R->creqs[ri].uri != m.target || R->creqs[ri].method != m.method) V("C26", "C26.request-differs", "request %d was made as '%s %s', the server read '%s %s'", ri, R->creqs[ri].method.c_str(), esc(R->creqs[ri].uri, 60).c_str(), m.method.c_str(), esc(m.target, 60).c_str());
		}
		tr("srv%d request %s %s body=%zu", li, m.method.c_str(), esc(m.target, 30).c_str(), m.body.size());
		if (L.responses.empty()) { probe("server-silent"); continue; }	// no script: the server stays silent (timeouts)
		std::string resp = L.responses.front(); L.responses.pop_front();
		std::pair<int, int> mode = L.resp_mode.front(); L.resp_mode.pop_front();
		std::string part = mode.first >= 0 ? resp.substr(0, std::min<size_t>((size_t)mode.first, resp.size())) : resp;
		std::vector<size_t> cuts;
		uint64_t seed = (uint64_t)mode.second;
		for (size_t k = 1; k < part.size(); k++) if (mix(seed, L.resp_stream.size() + k) % (1 + seed % 7) == 0 && seed % 5 != 0) cuts.push_back(k);
		if (!part.empty()) vk::ep_send_cut(sc->ep, part, cuts, 1000);
		L.resp_stream += part;
		sc->out += part;
		if (mode.first >= 0) { if (mode.second & 1) sc->rst = true; else sc->fin = true; }
		if (mode.first >= 0) { R->faults_during_request++; sc->open = false; if (mode.second & 1) vk::ep_reset(sc->ep); else { vk::ep_shutdown(sc->ep); vk::ep_close(sc->ep); } fault(mode.second & 1 ? "http.server-reset" : "http.server-close-at-byte"); break; }
	}
}

static void cconn_setup(int li, int twin_of) {
	CConn &L = R->cc[li];
	sockaddr_in sa = vk::addr4(0x7f000001, (uint16_t)(8100 + li));
	L.twin_of = twin_of;
	L.listener = vk::ep_listen((sockaddr *)&sa, sizeof sa, [li](vk::Endpoint *conn) {
		SrvConn *sc = new SrvConn{conn, "", true, li};
		R->cc[li].accepted.push_back(sc);
		R->cc[li].resp_stream.clear();
		vk::EndpointCbs cb;
		cb.on_data = [li, sc](vk::Endpoint *, const std::string &d) { if (sc->open) srv_on_data(li, sc, d); };
		cb.on_eof = [sc](vk::Endpoint *e) { if (sc->open) { sc->open = false; vk::ep_close(e); } };
		cb.on_reset = [sc](vk::Endpoint *) { sc->open = false; };
		vk::ep_set_cbs(conn, cb);
		probe("http-connection-accepted");
	});
	L.evcon = API(evhttp_connection_base_new(R->base, nullptr, "127.0.0.1", (ev_uint16_t)(8100 + li)));
}

// C24: what the completion callback got against the reference reading of what the scripted server sent.
// The library never pipelines on a connection, so the responses on an accepted connection belong to the requests read
// on it, in order; each starts where the reference says the previous one ended.
struct Attempt { h9::Msg m; bool rst = false; bool indeterminate = false; };
static h9::Msg ref_final_response(const std::string &s, size_t pos0, const std::string &method, bool eof) {
	size_t pos = pos0;
	for (int k = 0; k < 8; k++) {
		h9::Msg m = h9::parse_response(s, pos, method, eof);
		if (m.v == h9::INCOMPLETE || m.v == h9::REJECT) { m.consumed += pos - pos0; return m; }
		if (m.status >= 100 && m.status < 200 && m.status != 101) { pos += m.consumed; continue; }	// interim responses precede the final one
		m.consumed += pos - pos0;
		return m;
	}
	h9::Msg m; m.v = h9::EITHER; m.why = "a long run of interim responses"; m.indeterminate = true; return m;
}
static bool response_equal(const CReq &q, const h9::Msg &m, bool prefix_ok, std::string *why) {
	if (q.status != m.status) { *why = "status " + std::to_string(q.status) + " vs " + std::to_string(m.status); return false; }
	std::string w;
	bool same = hdrs_equal(q.headers, m.headers, &w);
	if (!same && !m.trailers.empty()) { Hdrs all = m.headers; all.insert(all.end(), m.trailers.begin(), m.trailers.end()); std::string w2; if (hdrs_equal(q.headers, all, &w2)) same = true; }
	if (!same) { *why = "header fields: " + w; return false; }
	if (q.body != m.body && !(prefix_ok && m.body.compare(0, q.body.size(), q.body) == 0)) { *why = "body of " + std::to_string(q.body.size()) + " bytes vs " + std::to_string(m.body.size()) + " bytes in the stream"; return false; }
	return true;
}
static void check_client_conn(int li) {
	CConn &L = R->cc[li];
	std::map<int, std::vector<Attempt>> att;
	for (auto sc : L.accepted) {
		size_t pos = 0;
		bool lost = false;	// the reading of an earlier response on this connection did not end: nothing later can be placed
		for (int ri : sc->reqs) {
			if (ri < 0 || ri >= (int)R->creqs.size()) { lost = true; continue; }
			Attempt a;
			a.rst = sc->rst;
			if (lost) { a.indeterminate = true; att[ri].push_back(a); continue; }
			a.m = ref_final_response(sc->out, pos, R->creqs[ri].method, sc->fin);
			if (a.m.indeterminate) a.indeterminate = true;
			att[ri].push_back(a);
			if ((a.m.v == h9::ACCEPT || a.m.v == h9::EITHER) && !a.m.close_delimited && !a.indeterminate) pos += a.m.consumed; else lost = true;
		}
	}
	int64_t timeout_s = R->plan->c("timeout_s");
	for (size_t i = 0; i < R->creqs.size() && !stop(); i++) {
		const CReq &q = R->creqs[i];
		if (q.conn != li || !q.submitted || q.cancelled || q.freed_with_conn || q.ncb != 1) continue;
		auto it = att.find((int)i);
		static const std::vector<Attempt> none;
		const std::vector<Attempt> &as = it == att.end() ? none : it->second;
		R->client_compared++;
		if (q.got_response) {
			bool ok = false, any_indet = false;
			std::string why, w;
			for (auto &a : as) {
				if (a.indeterminate) { any_indet = true; continue; }
				if (a.m.v != h9::ACCEPT && a.m.v != h9::EITHER) continue;
				if (response_equal(q, a.m, a.rst && a.m.close_delimited, &w)) ok = true; else why = w;
			}
			if (ok || any_indet) { if (ok) probe("client-response-matches"); continue; }
			if (as.empty()) { V("C24", "C24.response-from-nowhere", "request %zu (%s %s): the callback got status %d with a %zu-byte body, but the server never read that request", i, q.method.c_str(), q.uri.c_str(), q.status, q.body.size()); return; }
			const Attempt &last = as.back();
			if (last.m.v == h9::REJECT) V("C24", "C24.rejectable-response-accepted", "request %zu (%s %s): the response must be rejected (%s), yet the callback got status %d, %zu header fields and a %zu-byte body", i, q.method.c_str(), q.uri.c_str(), last.m.why.c_str(), q.status, q.headers.size(), q.body.size());
			else if (last.m.v == h9::INCOMPLETE) V("C24", "C24.incomplete-response-accepted", "request %zu (%s %s): the response was never complete%s, yet the callback got status %d and a %zu-byte body", i, q.method.c_str(), q.uri.c_str(), last.m.close_delimited ? " (it ends when the server closes, which it did not)" : "", q.status, q.body.size());
			else V("C24", "C24.response-differs", "request %zu (%s %s)%s: %s", i, q.method.c_str(), q.uri.c_str(), last.m.v == h9::EITHER ? (" (" + last.m.why + ")").c_str() : "", why.c_str());
			return;
		}
		// a failure: not acceptable for a complete valid response that arrived in good time
		if (as.empty()) continue;
		const Attempt &last = as.back();
		if (!last.indeterminate && !last.rst && last.m.v == h9::ACCEPT && (timeout_s == 0 || timeout_s >= 5) && !G.capped && !(q.errcode == (int)EVREQ_HTTP_TIMEOUT && R->long_stall)) {
			V("C24", "C24.valid-response-failed", "request %zu (%s %s): the server sent a complete valid response (status %d, %zu header fields, %zu-byte body%s), the callback reported failure (error %d)", i, q.method.c_str(), q.uri.c_str(), last.m.status, last.m.headers.size(), last.m.body.size(), last.m.close_delimited ? ", ended by close" : "", q.errcode);
			return;
		}
		probe("client-failure-allowed");
	}
}

static int submit_request(int li, int mi, size_t bodylen, const std::string &uri, bool chain, int from) {
	CConn &L = R->cc[li];
	CReq q;
	int ri = (int)R->creqs.size();
	q.conn = li;
	q.method = cmethods[mi];
	q.uri = uri;
	q.chain = chain;
	q.chained_from = from;
	R->creqs.push_back(q);
	struct evhttp_request *req = API(evhttp_request_new(creq_cb, (void *)(intptr_t)ri));
	if (!req) return -1;
	evhttp_request_set_error_cb(req, creq_err);
	evhttp_add_header(evhttp_request_get_output_headers(req), "Host", "test");
	if (bodylen) { std::string b(bodylen, 'q'); evbuffer_add(evhttp_request_get_output_buffer(req), b.data(), b.size()); }
	R->creqs[ri].req = req;
	int r = API(evhttp_make_request(L.evcon, req, ctypes[mi], uri.c_str()));
	tr("api make_request req=%d conn=%d %s '%s'%s -> %d", ri, li, cmethods[mi], esc(uri, 40).c_str(), from >= 0 ? " (from a callback)" : "", r);
	R->creqs[ri].submitted = r == 0;
	if (r != 0) { R->creqs[ri].req = nullptr; probe("make-request-refused"); }
	return r;
}

static void exec_op(const Op &op) {
	if (stop() || G.capped) return;
	switch (op.code) {
	case OP_REQ: {
		int ci = (int)(op.a[0] % NCONN);
		SConn &c = R->sc[ci];
		if (c.twin_of >= 0) ci = c.twin_of;	// a twin only mirrors
		SConn &m = R->sc[ci];
		if (m.closed_by_client) break;
		std::string msg = make_request((int)op.a[1], op.a[2], (int)m.stream.size());
		m.stream += msg;
		for (int t = 0; t < NCONN; t++) if (R->sc[t].twin_of == ci) R->sc[t].stream += msg;
		break;
	}
	case OP_REPLY: {
		Recipe r;
		r.style = (int)(op.a[0] % 3);
		static const int codes[] = {200, 201, 204, 304, 400, 404, 500, 100, 999, 206};
		r.status = codes[op.a[1] % 10];
		static const char *const reasons[] = {"", "OK", "Fine by me", "A\r\nX-Injected: 1", "tab\there"};
		r.reason = reasons[op.a[2] % 5];
		size_t n = (size_t)(op.a[3] % 5000);
		r.body.assign(n, 'r');
		for (size_t k = 0; k < n; k += 97) r.body[k] = (char)('A' + k % 26);
		r.nchunks = 1 + (int)(op.a[4] % 5);
		r.empty_at = (op.a[4] / 5) % 3 == 0 ? (int)((op.a[4] / 15) % r.nchunks) : -1;
		switch (op.a[5] % 12) {
		case 1: r.headers.emplace_back("X-App", "value " + std::to_string(op.a[3])); break;
		case 2: r.headers.emplace_back("X-App", "a\r\nX-Injected: 1"); break;
		case 3: r.headers.emplace_back("X Bad Name", "v"); break;
		case 4: r.headers.emplace_back("Content-Type", "text/plain"); r.headers.emplace_back("X-Two", "2"); break;
		case 5: r.headers.emplace_back("X-App\r\nX-Injected", "1"); break;
		case 6: r.headers.emplace_back("X-Empty", ""); break;
		case 7: r.headers.emplace_back("X-Fold", "a\r\n b"); break;						// a well-formed folded value
		case 8: r.headers.emplace_back("X-App", "first\r\n second\r\nX-Injected: 1"); break;		// a fold first, an injection after it
		case 9: r.headers.emplace_back("X-App", "a\r\n\r\n b"); break;					// would end the header section
		case 10: r.headers.emplace_back("X-App", "a\n\tb\nX-Injected: 1"); break;
		default: break;
		}
		if (R->recipes.size() < 64) R->recipes.push_back(r);
		break;
	}
	case OP_SEND: {
		int ci = (int)(op.a[0] % NCONN);
		if (R->sc[ci].twin_of >= 0) ci = R->sc[ci].twin_of;
		for (int t = 0; t < NCONN; t++) if (t == ci || R->sc[t].twin_of == ci) {
			SConn &c = R->sc[t];
			if (c.stream.empty() || c.closed_by_client) continue;
			size_t upto = op.a[1] % 4 == 0 ? c.sent + (size_t)(op.a[2] % (c.stream.size() - c.sent + 1)) : c.stream.size();
			c.want = std::max(c.want, upto);
			if (!c.open) { sconn_connect(t); if (!c.open) continue; }
			send_more(t, upto);
		}
		break;
	}
	case OP_LOOP: {
		int iters = (int)std::max<int64_t>(1, op.a[0] % 40);
		for (int k = 0; k < iters && !stop() && !G.capped; k++) {
			R->stalled = false;
			int r = event_base_loop(R->base, EVLOOP_ONCE | EVLOOP_NONBLOCK);
			if (r < 0) break;
			if (vk::events_pending()) vk::advance_running(std::max<int64_t>(0, std::min<int64_t>(vk::next_event_time() - G.now_ns, 50000000)));
			else if (op.a[1]) { if (op.a[1] >= 1000) R->long_stall = true; vk::advance_running(std::min<int64_t>(op.a[1], 60000) * 1000000); }
			else break;
		}
		break;
	}
	case OP_ADVANCE: if (op.a[0] >= 1000) R->long_stall = true; vk::advance_running(std::max<int64_t>(0, op.a[0]) * 1000000); break;
	case OP_CLIENT_CLOSE: {
		SConn &c = R->sc[op.a[0] % NCONN];
		if (!c.open) break;
		c.open = false; c.closed_by_client = true;
		for (int t = 0; t < NCONN; t++) if (R->sc[t].twin_of == (int)(op.a[0] % NCONN)) R->sc[t].closed_by_client = true;
		if (c.twin_of >= 0) R->sc[c.twin_of].closed_by_client = true;
		if (op.a[1] & 1) vk::ep_reset(c.ep); else { vk::ep_shutdown(c.ep); vk::ep_close(c.ep); }
		probe("client-closed");
		break;
	}
	case OP_SRESP: {
		int li = (int)(op.a[0] % NCONN);
		CConn &L = R->cc[li];
		if (!L.evcon) break;
		std::string resp = make_response((int)op.a[1], op.a[2], "");
		int close_at = op.a[3] % 4 == 0 ? (int)(op.a[4] % (resp.size() + 2)) : -1;
		if (L.responses.size() < 32) { L.responses.push_back(resp); L.resp_mode.push_back({close_at, (int)(op.a[5] % 1000)}); }
		break;
	}
	case OP_CREQ: {
		int li = (int)(op.a[0] % NCONN);
		CConn &L = R->cc[li];
		if (!conn_alive(L)) break;
		int ri = (int)R->creqs.size();
		int mi = (int)(op.a[1] % 5);
		std::string uri = "/c" + std::to_string(ri);
		if (R->plan->prop == "C26") switch (op.a[3] % 8) {	// targets that try to smuggle something into the request
		case 5: uri += " x"; break;
		case 6: uri += "\r\nX-Injected: 1"; break;
		case 7: uri += " HTTP/1.1\r\nHost: a\r\n\r\nGET /evil" + std::to_string(ri); break;
		default: break;
		}
		submit_request(li, mi, mi == 1 || mi == 3 ? (size_t)(op.a[2] % 3000) : 0, uri, R->plan->prop == "C27" && op.a[4] % 3 == 0, -1);
		break;
	}
	case OP_CANCEL: {
		std::vector<int> live;
		for (size_t i = 0; i < R->creqs.size(); i++) if (R->creqs[i].submitted && R->creqs[i].ncb == 0 && !R->creqs[i].cancelled && !R->creqs[i].freed_with_conn && R->creqs[i].req) live.push_back((int)i);
		if (live.empty()) break;
		int ri = live[(size_t)op.a[0] % live.size()];
		R->creqs[ri].cancelled = true;
		tr("api cancel req=%d", ri);
		APIV(evhttp_cancel_request(R->creqs[ri].req));
		R->creqs[ri].req = nullptr;
		probe("request-cancelled");
		break;
	}
	case OP_CONN_FREE: {
		CConn &L = R->cc[op.a[0] % NCONN];
		if (!conn_alive(L)) break;
		tr("api connection_free conn=%d", (int)(op.a[0] % NCONN));
		L.freed = true;
		for (auto &q : R->creqs) if (q.conn == (int)(op.a[0] % NCONN) && q.submitted && q.ncb == 0 && !q.cancelled) q.freed_with_conn = true;
		APIV(evhttp_connection_free(L.evcon));
		L.evcon = nullptr;
		probe("connection-freed-with-requests");
		break;
	}
	}
}

static void execute(const Plan &p) {
	Run run;
	R = &run;
	run.plan = &p;
	run.creqs.reserve(512);
	vk::net.sim_sockets = true;
	vk::net.lat_min_ns = p.c("lat_min_us", 100) * 1000;
	vk::net.lat_max_ns = p.c("lat_max_us", 100) * 1000;
	vk::net.connect_lat_ns = p.c("connect_lat_us", 100) * 1000;
	vk::net.sockbuf = (size_t)p.c("sockbuf", 65536);
	vk::wait_cap = 600000;
	static const struct { const char *k; vk::Site s; } sites[] = {
		{"f_read_short", vk::S_READ_SHORT}, {"f_write_short", vk::S_WRITE_SHORT}, {"f_read_eagain", vk::S_READ_EAGAIN}, {"f_write_eagain", vk::S_WRITE_EAGAIN},
	};
	for (auto &s : sites) if (p.c(s.k)) vk::set_fault(s.s, (int)p.c(s.k));
	vk::hooks.stall = []() { if (R && R->base) { R->stalled = true; event_base_loopbreak(R->base); } };
	vk::hooks.capped = []() { if (R && R->base) event_base_loopbreak(R->base); };
	struct event_config *cfg = event_config_new();
	static const char *const methods_[] = {"epoll", "poll", "select"};
	int meth = (int)(p.c("backend") % 3);
	for (int i = 0; i < 3; i++) if (i != meth) event_config_avoid_method(cfg, methods_[i]);
	event_config_set_flag(cfg, EVENT_BASE_FLAG_IGNORE_ENV);
	run.base = event_base_new_with_config(cfg);
	event_config_free(cfg);
	if (!run.base) { violation("C23.base-new", "no event base"); R = nullptr; return; }
	bool client_side = p.c("client_side");
	if (!client_side) {
		run.http = API(evhttp_new(run.base));
		if (!run.http || evhttp_bind_socket(run.http, "127.0.0.1", 8080) != 0) { violation("C23.setup", "cannot start the HTTP server"); if (run.http) evhttp_free(run.http); event_base_free(run.base); R = nullptr; return; }
		evhttp_set_gencb(run.http, gen_cb, nullptr);
		evhttp_set_allowed_methods(run.http, 0xffff);
		run.max_headers = (size_t)p.c("max_headers");
		run.max_body = (size_t)p.c("max_body");
		if (run.max_headers) evhttp_set_max_headers_size(run.http, (ev_ssize_t)run.max_headers);
		if (run.max_body) evhttp_set_max_body_size(run.http, (ev_ssize_t)run.max_body);
		for (int i = 0; i < NCONN; i++) { run.sc[i].cutseed = mix((uint64_t)p.c("cutseed"), i); run.sc[i].twin_of = (i % 2 == 1 && p.c("twins")) ? i - 1 : -1; }
	} else {
		for (int i = 0; i < NCONN; i++) cconn_setup(i, -1);
		for (int i = 0; i < NCONN; i++) if (run.cc[i].evcon) {
			run.cc[i].seq = mon::block_seq(run.cc[i].evcon);
			if (p.c("autofree") && i % 2 == 1 && run.cc[i].seq) { run.cc[i].autofree = true; evhttp_connection_free_on_completion(run.cc[i].evcon); }
			run.cc[i].refuse_left = (int)(p.c("refuse") ? (p.c("refuse") + i) % 4 : 0);
		}
		vk::connect_policy = [](const sockaddr *a, socklen_t) {
			vk::ConnectDecision d;
			int port = a->sa_family == AF_INET ? ntohs(((const sockaddr_in *)a)->sin_port) : 0, li = port - 8100;
			if (R && li >= 0 && li < NCONN && R->cc[li].refuse_left > 0) { R->cc[li].refuse_left--; d.err = ECONNREFUSED; fault("http.connect-refused"); }
			return d;
		};
		int retries = (int)p.c("retries");
		for (int i = 0; i < NCONN; i++) if (run.cc[i].evcon) {
			if (retries) evhttp_connection_set_retries(run.cc[i].evcon, retries);
			if (p.c("timeout_s")) evhttp_connection_set_timeout(run.cc[i].evcon, (int)p.c("timeout_s"));
			struct timeval rt = {0, 1000};
			evhttp_connection_set_initial_retry_tv(run.cc[i].evcon, &rt);
		}
	}
	tr("cfg backend=%s side=%s max_headers=%zu max_body=%zu", event_base_get_method(run.base), client_side ? "client" : "server", run.max_headers, run.max_body);

	for (auto &op : p.ops) { if (stop() || G.capped) break; exec_op(op); }

	// settle
	if (!stop() && !G.capped) {
		for (int s = 0; s < vk::S_NSITES; s++) vk::set_fault((vk::Site)s, 0);
		if (!client_side) {
			if (!p.c("hold_back")) for (int t = 0; t < NCONN; t++) { SConn &c = run.sc[t]; if (!c.stream.empty() && !c.closed_by_client) { if (!c.open) sconn_connect(t); } }
			for (int k = 0; k < 200000 && !stop() && !G.capped; k++) {
				if (!p.c("hold_back")) for (int t = 0; t < NCONN; t++) if (run.sc[t].open) send_more(t, run.sc[t].stream.size());
				event_base_loop(run.base, EVLOOP_NONBLOCK);
				if (!vk::events_pending()) { bool more = false; for (int t = 0; t < NCONN; t++) if (run.sc[t].connecting) more = true; if (!more) break; }
				vk::advance_running(std::max<int64_t>(0, std::min<int64_t>(vk::next_event_time() - G.now_ns, 1000000)));
			}
			for (int k = 0; k < 5; k++) event_base_loop(run.base, EVLOOP_NONBLOCK);
			for (int t = 0; t < NCONN && !stop(); t++) check_server_conn(t);
			if (!stop()) check_twins();
			for (int t = 0; t < NCONN && !stop(); t++) check_responses(t);
		} else {
			// every request still open gets its outcome: the scripted servers stay as they are, time passes (timeouts fire)
			auto open_reqs = [&]() { int n = 0; for (auto &q : run.creqs) if (q.submitted && q.ncb == 0 && !q.cancelled && !q.freed_with_conn) n++; return n; };
			int64_t deadline = G.now_ns + 600 * NS;
			for (int k = 0; k < 300000 && open_reqs() > 0 && !stop() && !G.capped && G.now_ns < deadline; k++) {
				event_base_loop(run.base, EVLOOP_NONBLOCK);
				int64_t next = vk::next_event_time();
				vk::advance_running(std::max<int64_t>(1000, std::min<int64_t>(next == INT64_MAX ? 1000000000 : next - G.now_ns, 1000000000)));
			}
			for (int k = 0; k < 5; k++) event_base_loop(run.base, EVLOOP_NONBLOCK);
			for (size_t i = 0; i < run.creqs.size() && !stop() && !G.capped; i++) {
				CReq &q = run.creqs[i];
				if (!q.submitted || q.cancelled || q.freed_with_conn) continue;
				if (q.ncb == 0 && G.now_ns < deadline) { probe("settle-budget-exhausted"); continue; }	// the 600 seconds did not pass within the step budget: no verdict
				if (q.ncb != 1) { V("C27", "C27.completion-count", "request %zu (%s %s on connection %d): %d completion callbacks after 600 virtual seconds with a 45-second default timeout (error callbacks: %d)", i, q.method.c_str(), q.uri.c_str(), q.conn, q.ncb, q.nerr); break; }
			}
			for (int i = 0; i < NCONN; i++) check_client_conn(i);
		}
	}
	// teardown
	for (int i = 0; i < NCONN; i++) if (conn_alive(run.cc[i])) { for (auto &q : run.creqs) if (q.conn == i && q.submitted && q.ncb == 0 && !q.cancelled) q.freed_with_conn = true; evhttp_connection_free(run.cc[i].evcon); run.cc[i].evcon = nullptr; }
	if (run.http) evhttp_free(run.http);
	for (int k = 0; k < 4; k++) event_base_loop(run.base, EVLOOP_NONBLOCK);
	if (mon::locks_enabled && mon::held() != 0 && !stop()) violation("C08.lock-held-at-end", "%d lock acquisition(s) held at the end", mon::held());
	event_base_free(run.base);
	run.base = nullptr;
	run.base_gone = true;
	for (int i = 0; i < NCONN; i++) for (auto sc : run.cc[i].accepted) delete sc;
	if (!stop() && !G.capped) {
		const char *lp = "C27";
		if (mon::live_blocks_run() != 0) violation((std::string(lp) + ".leak").c_str(), "%lld block(s) allocated by the library still live after the server / connections and the base were freed: %s", (long long)mon::live_blocks_run(), mon::live_blocks_desc(6).c_str());
		else if (vk::open_fd_count_lib() != 0) violation((std::string(lp) + ".fd-leak").c_str(), "library fds still open: %s", vk::open_fd_list_lib().c_str());
	}
	if (!stop()) {
		const std::string &prop = p.prop;
		if (prop == "C23") G.nontrivial = run.compared > 0;
		else if (prop == "C25") G.nontrivial = run.limit_hits > 0 || (run.compared > 0 && (run.max_headers || run.max_body));
		else if (prop == "C26") G.nontrivial = run.responses_parsed > 0 || run.completed > 0;
		else if (prop == "C27") G.nontrivial = run.completed > 0 || run.delivered_total > 0;
		else if (prop == "C24") G.nontrivial = run.client_compared > 0;
		else G.nontrivial = run.delivered_total > 0 || run.completed > 0;
	}
	R = nullptr;
}

static void generate(Plan &p, Rng &r) {
	const std::string &prop = p.prop;
	bool thorough = p.tier == "thorough";
	p.cfg["backend"] = r.below(3);
	p.cfg["lat_min_us"] = r.pick(std::vector<int64_t>{1, 100, 5000});
	p.cfg["lat_max_us"] = p.cfg["lat_min_us"] + (r.chance(0.5) ? 0 : (int64_t)r.below(20000));
	p.cfg["connect_lat_us"] = r.pick(std::vector<int64_t>{0, 100, 5000});
	p.cfg["sockbuf"] = r.pick(std::vector<int64_t>{64, 1024, 65536, 1048576});
	bool client = prop == "C24" || prop == "C27" ? r.chance(prop == "C24" ? 1.0 : 0.7) : (prop == "C26" ? r.chance(0.3) : false);
	p.cfg["client_side"] = client;
	if (r.chance(0.3)) {
		static const char *ks[] = {"f_read_short", "f_write_short", "f_read_eagain", "f_write_eagain"};
		for (auto k : ks) if (r.chance(0.4)) p.cfg[k] = r.pick(std::vector<int64_t>{10, 50, 200});
	}
	int nops = thorough ? (int)r.range(6, 70) : (int)r.range(3, 30);
	if (!client) {
		p.cfg["twins"] = r.chance(0.7);
		p.cfg["cutseed"] = r.below(1000000);
		if (prop == "C25") p.cfg["hold_back"] = r.chance(0.4);	// whatever the plan has not sent stays unsent: unfinished messages
		if (prop == "C25" || r.chance(0.15)) { p.cfg["max_headers"] = r.pick(std::vector<int64_t>{0, 64, 200, 1024, 8192}); p.cfg["max_body"] = r.pick(std::vector<int64_t>{0, 1, 100, 4096, 8999}); }
		for (int i = 0; i < nops; i++) {
			Op o;
			int x = (int)r.below(100);
			if (x < 40) { o.code = OP_REQ; o.a[0] = r.below(NCONN); o.a[1] = prop == "C25" ? r.pick(std::vector<int64_t>{0, 1, 2, 23, 24, 25, 26, 23, 25}) : (r.chance(0.3) ? r.below(4) : r.below(NSHAPES)); o.a[2] = r.below(100000); }
			else if (x < 58) { o.code = OP_REPLY; for (int k = 0; k < 6; k++) o.a[k] = r.below(10000); if (prop != "C26" && r.chance(0.7)) { o.a[0] = 0; o.a[1] = 0; o.a[2] = 0; o.a[5] = 0; } }
			else if (x < 78) { o.code = OP_SEND; o.a[0] = r.below(NCONN); o.a[1] = prop == "C25" ? r.below(2) * 4 : r.below(4); o.a[2] = r.below(100000); }
			else if (x < 93) { o.code = OP_LOOP; o.a[0] = r.range(1, 30); o.a[1] = r.chance(0.3) ? r.pick(std::vector<int64_t>{1, 100, 60000}) : 0; }
			else if (x < 97) { o.code = OP_ADVANCE; o.a[0] = r.pick(std::vector<int64_t>{1, 1000, 49999, 50000, 60000}); }
			else { o.code = OP_CLIENT_CLOSE; o.a[0] = r.below(NCONN); o.a[1] = r.below(2); }
			p.ops.push_back(o);
		}
	} else {
		p.cfg["retries"] = r.chance(0.3) ? r.range(1, 3) : 0;
		p.cfg["timeout_s"] = r.chance(0.5) ? r.pick(std::vector<int64_t>{1, 5, 50}) : 0;
		if (prop == "C27") { p.cfg["autofree"] = r.chance(0.4); p.cfg["refuse"] = r.chance(0.4) ? r.range(1, 3) : 0; }
		for (int i = 0; i < nops; i++) {
			Op o;
			int x = (int)r.below(100);
			if (prop == "C24" && x >= 20 && x < 30) x = 40;	// C24: fewer requests, more scripted responses (a request without a script only times out)
			if (x < 30) { o.code = OP_CREQ; o.a[0] = r.below(NCONN); o.a[1] = r.below(5); o.a[2] = r.below(100000); o.a[3] = r.below(8); o.a[4] = r.below(9); }
			else if (x < 58) { o.code = OP_SRESP; o.a[0] = r.below(NCONN); o.a[1] = prop == "C27" && r.chance(0.5) ? r.pick(std::vector<int64_t>{0, 1, 2, 19}) : r.below(20); o.a[2] = r.below(100000); o.a[3] = prop == "C27" ? r.below(3) : r.below(8); o.a[4] = r.below(100000); o.a[5] = r.below(1000); }
			else if (x < 82) { o.code = OP_LOOP; o.a[0] = r.range(1, 30); o.a[1] = r.chance(0.4) ? r.pick(std::vector<int64_t>{1, 100, 1000, 60000}) : 0; }
			else if (x < 88) { o.code = OP_ADVANCE; o.a[0] = r.pick(std::vector<int64_t>{1, 999, 1000, 4999, 5000, 45000, 50001}); }
			else if (x < 95) { o.code = OP_CANCEL; o.a[0] = r.below(16); }
			else { o.code = OP_CONN_FREE; o.a[0] = r.below(NCONN); }
			p.ops.push_back(o);
		}
	}
}

static std::vector<int64_t> cfg_simpler(const std::string &key, int64_t cur) {
	if (key == "client_side") return {};
	if (key == "lat_min_us" || key == "lat_max_us" || key == "connect_lat_us") return cur != 100 ? std::vector<int64_t>{100} : std::vector<int64_t>{};
	if (key == "sockbuf") return cur != 65536 ? std::vector<int64_t>{65536} : std::vector<int64_t>{};
	if (cur != 0) return {0};
	return {};
}

static void process_init(int cls) {
	(void)cls;
	struct event_base *b = event_base_new();
	struct evhttp *h = evhttp_new(b);
	if (h) evhttp_free(h);
	event_base_free(b);
}

int main(int argc, char **argv) {
	static Harness h = {"h_http", opnames, OP_N, generate, execute, cfg_simpler, process_init};
	return harness_main(argc, argv, h);
}
