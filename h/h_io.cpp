// H2: kernel-facing I/O harness — C04 (readiness reporting), C05 (kernel interest set), C07 (signals).
// World R: real pipes / AF_UNIX socketpairs / signals and the real epoll, poll and select backends
// under the virtual clock. The wrapped wait call is where the oracles look at the kernel.
#include <cerrno>
#include <cstring>
#include <map>
#include <set>
#include <poll.h>
#include <signal.h>
#include <sys/socket.h>
#include <sys/select.h>
#include <sys/epoll.h>
#include <unistd.h>
#include <fcntl.h>
#include <event2/event.h>
#include "sim/sim.hpp"
#include "vk/vk.hpp"
#include "mon/mon.hpp"
#include "shim/shim.h"

using namespace sim;

extern "C" {
int __real_poll(struct pollfd *, nfds_t, int);
ssize_t __real_write(int, const void *, size_t);
ssize_t __real_read(int, void *, size_t);
int __real_close(int);
int __real_socketpair(int, int, int, int[2]);
int __real_pipe2(int[2], int);
int __real_shutdown(int, int);
int __real_dup2(int, int);
int __real_open(const char *, int, ...);
ssize_t __real_pread(int, void *, size_t, off_t);
}

enum {
	OP_NEW, OP_ADD, OP_DEL, OP_FREE, OP_PEER_WRITE, OP_PEER_READ, OP_FILL, OP_PEER_SHUTDOWN, OP_PEER_CLOSE, OP_REOPEN, OP_LOOP,
	OP_SIG_NEW, OP_RAISE, OP_SELF_READ, OP_N
};
static const char *const opnames[OP_N] = {
	"new", "add", "del", "free", "peer_write", "peer_read", "fill_sendbuf", "peer_shutdown_wr", "peer_close", "close_and_reopen", "loop",
	"signal_event_new", "raise", "read_own_end",
};

#define MAXFD 10
#define MAXEV 16
#define NSIGS 3
static const int SIGS[NSIGS] = {SIGUSR1, SIGUSR2, SIGWINCH};

struct FdSlot {
	int a = -1, b = -1;	// a: the library's end; b: the harness's end (-1 once closed)
	int kind = 0;		// 0 unix stream pair, 1 pipe (a = read end), 2 pipe (a = write end)
	bool et = false;
	uint64_t touch = 0;	// bumped by every harness action on this fd (new transition for ET)
};
struct EvSlot {
	struct event *ev = nullptr;
	bool is_sig = false;
	int fd = -1;		// fd slot index / signal index
	short events = 0;
	bool added = false;
	uint64_t seen_touch = 0;	// fd.touch at its last report / add
	bool changed_since_report = true;
	int calls_this_iter = 0;
	short what_this_iter = 0;
	bool deleted_this_iter = false;
	bool added_this_iter = false;	// added after the wait of this iteration: not obliged to fire
	short cond_prev_probe = 0;	// requested conditions that held at the previous wait
	bool fresh_at_wait_skip = false;
	short carry = 0;	// conditions that held when the loop was broken before this (already activated) event could run
	int del_in_cb = 0;	// delete itself in its next callback
	// signals
	long delivered_while_added = 0, calls = 0, batch_deliveries = 0, batch_calls = 0;
	bool fired_oneshot = false;	// a non-persistent signal event fired: it is implicitly deleted once its batch of calls is over
};

struct Run {
	const Plan *plan;
	struct event_base *base = nullptr;
	int backend = 0;
	int features = 0;
	FdSlot fds[MAXFD];
	int nfd = 0;
	EvSlot evs[MAXEV];
	bool in_loop = false;
	int loop_budget = 0, loop_iters = 0;
	// per-iteration probe
	std::map<int, short> probe_must, probe_may;	// by fd slot
	bool have_probe = false;
	bool broke = false;
	int checked_callbacks = 0, interest_checks = 0, distinct_interest_sets = 0;
	std::set<std::string> interest_seen;
	int sig_comparisons = 0, sig_deliveries = 0;
	struct sigaction saved[NSIGS];
	bool sig_installed[NSIGS] = {false, false, false};
	int sig_added_count[NSIGS] = {0, 0, 0};
	std::vector<std::string> fired_log;	// for cross-backend agreement
	int nonint_states = 0;
	long undispatched[NSIGS] = {0, 0, 0};	// deliveries the loop has not processed yet: an event added before that may be told
};
static Run *R;
#define V04(...) do { if (fam("C04")) violation(__VA_ARGS__); } while (0)
#define V07(...) do { if (fam("C07")) violation(__VA_ARGS__); } while (0)
static bool fam(const char *id) { const std::string &p = R->plan->prop; return p == id || (p != "C04" && p != "C05" && p != "C07"); }

static void old_handler(int) {}

// ---- probe: what the kernel says about each library-side fd, independent of the backend under test
static void do_probe() {
	R->probe_must.clear();
	R->probe_may.clear();
	for (int k = 0; k < R->nfd; k++) {
		FdSlot &f = R->fds[k];
		if (f.a < 0) continue;
		struct pollfd p = {f.a, (short)(POLLIN | POLLOUT | POLLRDHUP), 0};
		__real_poll(&p, 1, 0);
		short must = 0, may = 0;
		if (p.revents & POLLIN) must |= EV_READ;
		if (p.revents & POLLOUT) must |= EV_WRITE;
		if (p.revents & POLLRDHUP) must |= EV_CLOSED;
		if (p.revents & (POLLHUP | POLLERR | POLLRDHUP)) may |= EV_READ;
		if (p.revents & (POLLHUP | POLLERR)) may |= EV_WRITE;
		if (p.revents & (POLLHUP | POLLERR)) may |= EV_CLOSED;
		R->probe_must[k] = must;
		R->probe_may[k] = (short)(must | may);
		if (p.revents & (POLLHUP | POLLERR | POLLRDHUP)) R->nonint_states++;
	}
	R->have_probe = true;
}

// ---- C05: the interest set the kernel holds at this wait
static std::map<int, unsigned> model_interest() {	// library fd -> IN/OUT/RDHUP/ET mask in epoll terms
	std::map<int, unsigned> m;
	for (int i = 0; i < MAXEV; i++) {
		EvSlot &e = R->evs[i];
		if (!e.ev || e.is_sig || !e.added) continue;
		FdSlot &f = R->fds[e.fd];
		unsigned mask = 0;
		if (e.events & EV_READ) mask |= EPOLLIN;
		if (e.events & EV_WRITE) mask |= EPOLLOUT;
		if (e.events & EV_CLOSED) mask |= EPOLLRDHUP;
		if (e.events & EV_ET) mask |= EPOLLET;
		m[f.a] |= mask;
	}
	return m;
}
static bool harness_fd(int fd) {
	for (int k = 0; k < R->nfd; k++) if (R->fds[k].a == fd) return true;
	return false;
}
static void note_interest(const std::map<int, unsigned> &m) {
	std::string s;
	char b[32];
	for (auto &kv : m) { snprintf(b, sizeof b, "%d:%x,", kv.first, kv.second); s += b; }
	R->interest_seen.insert(s);
	R->interest_checks++;
}
static void check_epoll_interest(int epfd) {
	char path[64];
	snprintf(path, sizeof path, "/proc/self/fdinfo/%d", epfd);
	int fd;
	{
		vk::HarnessScope hs;
		fd = __real_open(path, O_RDONLY);
	}
	if (fd < 0) return;
	char buf[8192];
	ssize_t n = __real_pread(fd, buf, sizeof buf - 1, 0);
	__real_close(fd);
	if (n <= 0) return;
	buf[n] = 0;
	std::map<int, unsigned> kernel;
	for (char *p = buf; (p = strstr(p, "tfd:")); p += 4) {
		int tfd = 0;
		unsigned ev = 0;
		if (sscanf(p, "tfd: %d events: %x", &tfd, &ev) == 2 && harness_fd(tfd))
			kernel[tfd] = ev & (EPOLLIN | EPOLLOUT | EPOLLRDHUP | EPOLLET);
	}
	std::map<int, unsigned> want = model_interest();
	note_interest(want);
	if (kernel != want) {
		std::string ks, ws;
		char b[48];
		for (auto &kv : kernel) { snprintf(b, sizeof b, " fd%d:0x%x", kv.first, kv.second); ks += b; }
		for (auto &kv : want) { snprintf(b, sizeof b, " fd%d:0x%x", kv.first, kv.second); ws += b; }
		violation("C05.epoll-interest", "kernel epoll set is {%s } but the added events imply {%s }", ks.c_str(), ws.c_str());
	}
}
static void check_poll_interest(const struct pollfd *fds, unsigned n) {
	std::map<int, unsigned> kernel;
	std::set<int> seen;
	for (unsigned i = 0; i < n; i++) {
		if (fds[i].fd < 0 || !harness_fd(fds[i].fd)) continue;
		if (!seen.insert(fds[i].fd).second) { violation("C05.poll-duplicate", "fd %d appears twice in the poll array", fds[i].fd); return; }
		unsigned m = 0;
		if (fds[i].events & POLLIN) m |= EPOLLIN;
		if (fds[i].events & POLLOUT) m |= EPOLLOUT;
		if (fds[i].events & POLLRDHUP) m |= EPOLLRDHUP;
		if (m) kernel[fds[i].fd] = m; else if (fds[i].events == 0) { violation("C05.poll-empty-slot", "fd %d is in the poll array with no events", fds[i].fd); return; }
	}
	std::map<int, unsigned> want = model_interest();
	for (auto &kv : want) kv.second &= ~EPOLLET;
	note_interest(want);
	if (kernel != want) {
		std::string ks, ws;
		char b[48];
		for (auto &kv : kernel) { snprintf(b, sizeof b, " fd%d:0x%x", kv.first, kv.second); ks += b; }
		for (auto &kv : want) { snprintf(b, sizeof b, " fd%d:0x%x", kv.first, kv.second); ws += b; }
		violation("C05.poll-interest", "poll array asks {%s } but the added events imply {%s }", ks.c_str(), ws.c_str());
	}
}
static void check_select_interest(int nfds, const void *rp, const void *wp) {
	const fd_set *r = (const fd_set *)rp, *w = (const fd_set *)wp;
	std::map<int, unsigned> kernel;
	for (int k = 0; k < R->nfd; k++) {
		int fd = R->fds[k].a;
		if (fd < 0) continue;
		unsigned m = 0;
		if (fd < nfds && FD_ISSET(fd, r)) m |= EPOLLIN;
		if (fd < nfds && FD_ISSET(fd, w)) m |= EPOLLOUT;
		if (m) kernel[fd] = m;
	}
	std::map<int, unsigned> want = model_interest();
	for (auto &kv : want) kv.second &= (EPOLLIN | EPOLLOUT);
	for (auto it = want.begin(); it != want.end();) { if (!it->second) it = want.erase(it); else ++it; }
	note_interest(want);
	for (auto &kv : want) if (kv.first >= nfds) { violation("C05.select-nfds", "select called with nfds=%d but fd %d is added", nfds, kv.first); return; }
	if (kernel != want) {
		std::string ks, ws;
		char b[48];
		for (auto &kv : kernel) { snprintf(b, sizeof b, " fd%d:0x%x", kv.first, kv.second); ks += b; }
		for (auto &kv : want) { snprintf(b, sizeof b, " fd%d:0x%x", kv.first, kv.second); ws += b; }
		violation("C05.select-interest", "select sets ask {%s } but the added events imply {%s }", ks.c_str(), ws.c_str());
	}
}

// ---- C04 completeness: evaluated when the iteration is over (next wait or loop return)
static void end_iteration() {
	if (!R->have_probe || stop()) { R->have_probe = false; return; }
	std::string line;
	for (int i = 0; i < MAXEV; i++) {
		EvSlot &e = R->evs[i];
		if (!e.ev || e.is_sig) { continue; }
		bool was_obliged = (e.added || e.calls_this_iter || e.deleted_this_iter) && !e.added_this_iter;
		if (was_obliged && e.fd >= 0 && R->fds[e.fd].a >= 0) {
			short must = R->probe_must[e.fd] & e.events & (EV_READ | EV_WRITE | EV_CLOSED);
			short any = R->probe_may[e.fd] & e.events;
			bool hup_only = !must && (R->probe_may[e.fd] & ~R->probe_must[e.fd]) && (e.events & (EV_READ | EV_WRITE));
			(void)any;
			bool et = e.events & EV_ET;
			if (R->broke && !e.deleted_this_iter && e.calls_this_iter == 0 && e.added) e.carry |= R->probe_may[e.fd] & e.events;
			if (!R->broke && !e.deleted_this_iter && e.calls_this_iter == 0) {
				if (!et && must)
					V04("C04.missed", "ev%d (fd slot %d, events 0x%x, level-triggered) was not reported although the kernel says 0x%x holds", i, e.fd, e.events, must);
				else if (!et && hup_only && R->plan->c("strict_hup"))
					V04("C04.missed-hup", "ev%d on a hung-up fd was not reported at all", i);
				else if (et && (must & ~e.cond_prev_probe) && !e.fresh_at_wait_skip)
					V04("C04.missed-edge", "edge-triggered ev%d was not reported although 0x%x newly holds since the previous wait (kernel says 0x%x)", i, must & ~e.cond_prev_probe, must);
			}
			if (e.calls_this_iter) {
				char b[48];
				snprintf(b, sizeof b, "%d:%x ", i, e.what_this_iter & R->probe_must[e.fd]);
				line += b;
			}
		}
		if (e.fd >= 0 && R->fds[e.fd].a >= 0) e.cond_prev_probe = R->probe_must[e.fd] & e.events;
		e.calls_this_iter = 0;
		e.what_this_iter = 0;
		e.deleted_this_iter = false;
		e.added_this_iter = false;
	}
	R->fired_log.push_back(line);
	R->have_probe = false;
}

static void check_disposition(int s, const char *when);
static void signals_dispatched() { for (int s = 0; s < NSIGS; s++) R->undispatched[s] = 0; }
static void settle_oneshot_signals() {
	for (int i = 0; i < MAXEV; i++) {
		EvSlot &e = R->evs[i];
		if (!e.ev || !e.is_sig || !e.fired_oneshot) continue;
		e.fired_oneshot = false;
		if (e.added) {
			e.added = false;
			R->sig_added_count[e.fd]--;
			if (R->sig_added_count[e.fd] == 0 && R->sig_installed[e.fd] && !stop()) { check_disposition(e.fd, "after a one-shot signal event fired"); probe("last-signal-event-deleted"); }
		}
	}
}
static void on_wait_enter(int kind, int64_t timeout_ns, int epfd) {
	(void)timeout_ns;
	if (!R->in_loop) return;
	end_iteration();
	settle_oneshot_signals();
	if (R->loop_iters >= 1) signals_dispatched();	// the previous iteration ran the internal signal callback
	if (stop()) return;
	// C05
	if (kind == vk::W_EPOLL && fam("C05")) check_epoll_interest(epfd);
	do_probe();
	// signal batches end at a wait
	for (int i = 0; i < MAXEV; i++) {
		EvSlot &e = R->evs[i];
		if (!e.ev || !e.is_sig) continue;
		e.batch_calls = 0;
	}
	R->loop_iters++;
	if (R->loop_iters > R->loop_budget) { event_base_loopbreak(R->base); R->broke = true; }
	else R->broke = false;
	for (int i = 0; i < MAXEV; i++) if (R->evs[i].ev && !R->evs[i].is_sig && R->evs[i].added) {
		EvSlot &e = R->evs[i];
		e.changed_since_report = e.changed_since_report || R->fds[e.fd].touch != e.seen_touch;
	}
}
static void on_wait_exit(int n) { (void)n; }

static void io_cb(evutil_socket_t fd, short what, void *arg) {
	int i = (int)(intptr_t)arg;
	EvSlot &e = R->evs[i];
	tr("cb ev%d fd=%d what=0x%x", i, (int)fd, what);
	if (stop()) return;
	if (!e.ev) { V04("C04.callback-after-free", "callback for freed event slot %d", i); return; }
	if (!e.added && !e.deleted_this_iter) { V04("C04.callback-after-del", "ev%d ran although it is not added", i); return; }
	if (e.deleted_this_iter && !e.added) { V04("C04.callback-after-del", "ev%d ran after event_del() returned", i); return; }
	FdSlot &f = R->fds[e.fd];
	if (fd != f.a) { V04("C04.wrong-fd", "ev%d called with fd %d, registered on %d", i, (int)fd, f.a); return; }
	short cond = what & (EV_READ | EV_WRITE | EV_CLOSED);
	if (what & ~(e.events | EV_ET)) { V04("C04.unrequested-flag", "ev%d asked for 0x%x, was called with 0x%x", i, e.events, what); return; }
	if (!cond) { V04("C04.no-condition", "ev%d called with no I/O condition (0x%x)", i, what); return; }
	if (R->have_probe) {
		short may = R->probe_may[e.fd] | e.carry;	// an activation left over from a broken loop runs first in the next one
		if (e.carry) probe("activation-carried-over-loopbreak");
		e.carry = 0;
		if (cond & ~may) { V04("C04.condition-does-not-hold", "ev%d reported 0x%x but the kernel says only 0x%x can be reported on that fd", i, cond, may); return; }
		R->checked_callbacks++;
	}
	if ((e.events & EV_ET) && !e.changed_since_report && e.calls_this_iter == 0 && R->plan->c("strict_et"))
		V04("C04.spurious-edge", "edge-triggered ev%d reported again with no new transition and no change on its fd", i);
	e.calls_this_iter++;
	e.what_this_iter |= what;
	e.seen_touch = f.touch;
	e.changed_since_report = false;
	if (!(e.events & EV_PERSIST)) e.added = false;
	if (e.del_in_cb && e.added) {
		e.del_in_cb = 0;
		int r = API(event_del(e.ev));
		(void)r;
		e.added = false;
		e.deleted_this_iter = true;
		// other events on this fd are re-armed by the kernel operation (legitimate for ET)
		for (int j = 0; j < MAXEV; j++) if (R->evs[j].ev && !R->evs[j].is_sig && R->evs[j].fd == e.fd) R->evs[j].changed_since_report = true;
	}
}

static void sig_cb(evutil_socket_t sig, short what, void *arg) {
	int i = (int)(intptr_t)arg;
	EvSlot &e = R->evs[i];
	tr("cb sigev%d sig=%d what=0x%x", i, (int)sig, what);
	if (stop()) return;
	if (!e.ev) { V07("C07.callback-after-free", "signal callback for freed slot %d", i); return; }
	if (!(what & EV_SIGNAL)) { V07("C07.flags", "signal event called with 0x%x", what); return; }
	if ((int)sig != SIGS[e.fd]) { V07("C07.wrong-signal", "signal event for %d called with %d", SIGS[e.fd], (int)sig); return; }
	if (!e.added) { V07("C07.callback-after-del", "signal event %d ran after event_del() returned", i); return; }
	e.calls++;
	e.batch_calls++;
	R->sig_comparisons++;
	if (e.calls > e.delivered_while_added)
		V07("C07.more-calls-than-deliveries", "signal event %d was called %ld times for %ld deliveries", i, e.calls, e.delivered_while_added);
	if (!(e.events & EV_PERSIST)) e.fired_oneshot = true;
	if (e.del_in_cb && e.added && !e.fired_oneshot) {
		e.del_in_cb = 0;
		API(event_del(e.ev));
		e.added = false;
		R->sig_added_count[e.fd]--;
		probe("signal-event-deleted-in-its-callback");
	}
}

static void check_disposition(int s, const char *when) {
	// nobody has the signal added any more: the handler we installed must be back, bit for bit
	struct sigaction cur;
	sigaction(SIGS[s], nullptr, &cur);
	const struct sigaction &o = R->saved[s];
	bool same = cur.sa_handler == o.sa_handler && cur.sa_flags == o.sa_flags;
	for (int sg = 1; sg < 65 && same; sg++) if (sigismember(&cur.sa_mask, sg) != sigismember(&o.sa_mask, sg)) { same = false; tr("orc mask differs at signal %d", sg); }
	R->sig_comparisons++;
	if (!same) V07("C07.disposition-not-restored", "%s: handler for signal %d is %p flags 0x%x, before the first add it was %p flags 0x%x", when, SIGS[s],
	    (void *)cur.sa_handler, cur.sa_flags, (void *)o.sa_handler, o.sa_flags);
	sigset_t cm;
	sigprocmask(SIG_BLOCK, nullptr, &cm);
	if (sigismember(&cm, SIGS[s])) V07("C07.mask-not-restored", "%s: signal %d is still blocked", when, SIGS[s]);
}

static int live_ev(int64_t want, bool sig) {
	int idx[MAXEV], n = 0;
	for (int i = 0; i < MAXEV; i++) if (R->evs[i].ev && R->evs[i].is_sig == sig) idx[n++] = i;
	if (!n) return -1;
	return idx[((want % n) + n) % n];
}
static void touch(int k) { R->fds[k].touch++; }

static bool open_pair(int k, int kind) {
	FdSlot &f = R->fds[k];
	int p[2];
	vk::HarnessScope hs;
	if (kind == 0) { if (__real_socketpair(AF_UNIX, SOCK_STREAM | SOCK_NONBLOCK | SOCK_CLOEXEC, 0, p) < 0) return false; f.a = p[0]; f.b = p[1]; }
	else if (kind == 1) { if (__real_pipe2(p, O_NONBLOCK | O_CLOEXEC) < 0) return false; f.a = p[0]; f.b = p[1]; }
	else { if (__real_pipe2(p, O_NONBLOCK | O_CLOEXEC) < 0) return false; f.a = p[1]; f.b = p[0]; }
	f.kind = kind;
	int sz = 4096;
	if (kind == 0) { setsockopt(f.a, SOL_SOCKET, SO_SNDBUF, &sz, sizeof sz); }
	else fcntl(kind == 1 ? f.b : f.a, F_SETPIPE_SZ, 4096);
	return true;
}

static void exec_op(const Op &op) {
	struct event_base *base = R->base;
	switch (op.code) {
	case OP_NEW: {
		int i = (int)(op.a[0] % MAXEV);
		if (R->evs[i].ev || !R->nfd) break;
		int k = (int)(op.a[1] % R->nfd);
		FdSlot &f = R->fds[k];
		if (f.a < 0) break;
		short ev = 0;
		int rw = (int)(op.a[2] & 7);
		if (f.kind == 1) rw &= ~2;	// read end of a pipe
		if (f.kind == 2) rw &= ~1;
		if (rw & 1) ev |= EV_READ;
		if (rw & 2) ev |= EV_WRITE;
		if ((rw & 4) && (R->features & EV_FEATURE_EARLY_CLOSE) && f.kind == 0) ev |= EV_CLOSED;
		if (!ev) ev = f.kind == 2 ? EV_WRITE : EV_READ;
		if (op.a[3] & 1) ev |= EV_PERSIST;
		if (f.et && (R->features & EV_FEATURE_ET)) ev |= EV_ET;
		struct event *e = API(event_new(base, f.a, ev, io_cb, (void *)(intptr_t)i));
		if (!e) { V04("C04.new", "event_new failed"); break; }
		R->evs[i] = EvSlot();
		R->evs[i].ev = e;
		R->evs[i].fd = k;
		R->evs[i].events = ev;
		tr("api new ev%d fdslot=%d fd=%d events=0x%x", i, k, f.a, ev);
		break;
	}
	case OP_SIG_NEW: {
		int i = (int)(op.a[0] % MAXEV);
		if (R->evs[i].ev) break;
		int s = (int)(op.a[1] % NSIGS);
		short ev = EV_SIGNAL | ((op.a[2] & 1) ? EV_PERSIST : 0);
		struct event *e = API(event_new(base, SIGS[s], ev, sig_cb, (void *)(intptr_t)i));
		if (!e) { V07("C07.new", "event_new failed"); break; }
		R->evs[i] = EvSlot();
		R->evs[i].ev = e;
		R->evs[i].is_sig = true;
		R->evs[i].fd = s;
		R->evs[i].events = ev;
		tr("api signal_event_new ev%d sig=%d events=0x%x", i, SIGS[s], ev);
		break;
	}
	case OP_ADD: {
		bool sig = op.a[2] & 1;
		int i = live_ev(op.a[0], sig);
		if (i < 0) i = live_ev(op.a[0], !sig);
		if (i < 0) break;
		EvSlot &e = R->evs[i];
		if (!e.is_sig && R->fds[e.fd].a < 0) break;
		if (e.is_sig && !e.added && R->sig_added_count[e.fd] == 0 && !R->sig_installed[e.fd]) {
			// a recognisable disposition before the first add
			struct sigaction sa;
			memset(&sa, 0, sizeof sa);
			int which = (int)(op.a[1] % 3);
			if (which == 0) sa.sa_handler = SIG_IGN;
			else if (which == 1) { sa.sa_handler = old_handler; sa.sa_flags = SA_RESTART; sigaddset(&sa.sa_mask, SIGTERM); }
			else { sa.sa_handler = old_handler; sa.sa_flags = SA_NODEFER; }
			sigaction(SIGS[e.fd], &sa, nullptr);
			sigaction(SIGS[e.fd], nullptr, &R->saved[e.fd]);
			R->sig_installed[e.fd] = true;
		}
		int r = API(event_add(e.ev, nullptr));
		tr("api add ev%d -> %d", i, r);
		if (r != 0) { violation(e.is_sig ? "C07.add" : "C04.add", "event_add(ev%d) failed", i); break; }
		if (!e.added) {
			e.added = true;
			if (e.is_sig) { R->sig_added_count[e.fd]++; e.delivered_while_added += R->undispatched[e.fd]; }
			else {
				e.added_this_iter = R->in_loop;
				e.seen_touch = R->fds[e.fd].touch;
				e.cond_prev_probe = (short)~0;	// an edge-triggered event added on an already-ready fd need not be told (no new edge)
				for (int j = 0; j < MAXEV; j++) if (R->evs[j].ev && !R->evs[j].is_sig && R->evs[j].fd == e.fd) R->evs[j].changed_since_report = true;
			}
		}
		e.del_in_cb = (int)(op.a[3] % 4 == 1);
		break;
	}
	case OP_DEL: case OP_FREE: {
		bool sig = op.a[2] & 1;
		int i = live_ev(op.a[0], sig);
		if (i < 0) i = live_ev(op.a[0], !sig);
		if (i < 0) break;
		EvSlot &e = R->evs[i];
		bool was = e.added;
		if (op.code == OP_DEL) { int r = API(event_del(e.ev)); tr("api del ev%d -> %d", i, r); if (r != 0) violation(e.is_sig ? "C07.del" : "C04.del", "event_del(ev%d) returned %d", i, r); }
		else { tr("api free ev%d", i); APIV(event_free(e.ev)); }
		if (was) {
			e.added = false;
			e.deleted_this_iter = true;
			if (e.is_sig) {
				R->sig_added_count[e.fd]--;
				if (R->sig_added_count[e.fd] == 0 && R->sig_installed[e.fd]) { check_disposition(e.fd, "after the last event_del"); probe("last-signal-event-deleted"); }
			} else for (int j = 0; j < MAXEV; j++) if (R->evs[j].ev && !R->evs[j].is_sig && R->evs[j].fd == e.fd) R->evs[j].changed_since_report = true;
		}
		if (op.code == OP_FREE) e.ev = nullptr;
		break;
	}
	case OP_PEER_WRITE: {
		if (!R->nfd) break;
		int k = (int)(op.a[0] % R->nfd);
		FdSlot &f = R->fds[k];
		if (f.b < 0 || f.kind == 2) break;
		char buf[64];
		memset(buf, 'x', sizeof buf);
		ssize_t w = __real_write(f.b, buf, 1 + op.a[1] % 64);
		tr("api peer_write k=%d -> %zd", k, w);
		touch(k);
		break;
	}
	case OP_PEER_READ: case OP_SELF_READ: {
		if (!R->nfd) break;
		int k = (int)(op.a[0] % R->nfd);
		FdSlot &f = R->fds[k];
		int fd = op.code == OP_PEER_READ ? f.b : f.a;
		if (fd < 0) break;
		if (op.code == OP_PEER_READ && f.kind == 1) break;
		if (op.code == OP_SELF_READ && f.kind == 2) break;
		char buf[8192];
		ssize_t total = 0, r;
		int rounds = op.a[1] & 1 ? 1 : 64;
		while (rounds-- > 0 && (r = __real_read(fd, buf, sizeof buf)) > 0) total += r;
		tr("api %s k=%d -> %zd", opnames[op.code], k, total);
		touch(k);
		break;
	}
	case OP_FILL: {
		if (!R->nfd) break;
		int k = (int)(op.a[0] % R->nfd);
		FdSlot &f = R->fds[k];
		if (f.a < 0 || f.kind == 1) break;
		char buf[4096];
		memset(buf, 'y', sizeof buf);
		ssize_t total = 0, w;
		int guard = 0;
		while ((w = __real_write(f.a, buf, sizeof buf)) > 0 && guard++ < 1000) total += w;
		tr("api fill_sendbuf k=%d -> %zd", k, total);
		touch(k);
		probe("send-buffer-full");
		break;
	}
	case OP_PEER_SHUTDOWN: {
		if (!R->nfd) break;
		int k = (int)(op.a[0] % R->nfd);
		FdSlot &f = R->fds[k];
		if (f.b < 0 || f.kind != 0) break;
		__real_shutdown(f.b, SHUT_WR);
		tr("api peer_shutdown_wr k=%d", k);
		touch(k);
		probe("peer-half-closed");
		break;
	}
	case OP_PEER_CLOSE: {
		if (!R->nfd) break;
		int k = (int)(op.a[0] % R->nfd);
		FdSlot &f = R->fds[k];
		if (f.b < 0) break;
		{ vk::HarnessScope hs; close(f.b); }
		f.b = -1;
		tr("api peer_close k=%d", k);
		touch(k);
		probe("peer-closed");
		break;
	}
	case OP_REOPEN: {
		// delete every event on the fd, close it, open a new object that lands on the same number, optionally re-add
		if (!R->nfd) break;
		int k = (int)(op.a[0] % R->nfd);
		FdSlot &f = R->fds[k];
		if (f.a < 0) break;
		std::vector<int> had;
		for (int i = 0; i < MAXEV; i++) {
			EvSlot &e = R->evs[i];
			if (e.ev && !e.is_sig && e.fd == k) { if (e.added) { API(event_del(e.ev)); e.added = false; e.deleted_this_iter = true; had.push_back(i); } }
		}
		int olda = f.a;
		{
			vk::HarnessScope hs;
			if (f.b >= 0) close(f.b);
			close(f.a);
			f.a = f.b = -1;
			int kind = (int)(op.a[1] % 3);
			// events were created for the old kind's direction: keep the kind when events exist
			bool any = false;
			for (int i = 0; i < MAXEV; i++) if (R->evs[i].ev && !R->evs[i].is_sig && R->evs[i].fd == k) any = true;
			if (any) kind = f.kind;
			if (!open_pair(k, kind)) break;
			if (f.a != olda) {	// make the new object take the old number
				if (f.b == olda) { int nb = dup(f.b); close(f.b); f.b = nb; }
				__real_dup2(f.a, olda);
				close(f.a);
				f.a = olda;
			}
		}
		touch(k);
		tr("api close_and_reopen k=%d fd=%d", k, f.a);
		probe("fd-number-reused");
		if (op.a[2] & 1) for (int i : had) {
			EvSlot &e = R->evs[i];
			// the event struct still names the same fd number
			int r = API(event_add(e.ev, nullptr));
			if (r != 0) { V04("C04.add", "event_add after reopening fd failed"); break; }
			e.added = true;
			e.changed_since_report = true;
			e.seen_touch = f.touch;
		}
		break;
	}
	case OP_RAISE: {
		int s = (int)(op.a[0] % NSIGS);
		int n = 1 + (int)(op.a[1] % 3);
		if (!R->sig_installed[s]) break;	// only signals somebody manages (default action would kill us)
		bool sigfd = R->plan->c("signalfd") != 0;
		for (int j = 0; j < n; j++) {
			// a blocked standard signal (signalfd mode) does not queue: count one delivery per pending period
			bool counts = true;
			if (R->sig_added_count[s] > 0 && sigfd) {
				sigset_t pend;
				sigpending(&pend);
				if (sigismember(&pend, SIGS[s])) counts = false;
			}
			raise(SIGS[s]);
			R->sig_deliveries++;
			if (counts) R->undispatched[s]++;
			if (counts) for (int i = 0; i < MAXEV; i++) { EvSlot &e = R->evs[i]; if (e.ev && e.is_sig && e.fd == s && e.added) { e.delivered_while_added++; e.batch_deliveries++; } }
		}
		tr("api raise sig=%d n=%d", SIGS[s], n);
		break;
	}
	case OP_LOOP: {
		int flags = EVLOOP_ONCE | ((op.a[0] & 1) ? EVLOOP_NONBLOCK : 0);
		if (op.a[0] & 2) flags = EVLOOP_NONBLOCK;
		R->loop_budget = 1 + (int)(op.a[1] % 6);
		R->loop_iters = 0;
		R->in_loop = true;
		R->broke = false;
		tr("api loop flags=%d budget=%d", flags, R->loop_budget);
		int rv = API(event_base_loop(base, flags));
		R->in_loop = false;
		tr("api loop -> %d", rv);
		if (rv < 0) { V04("C04.loop-failed", "event_base_loop returned %d", rv); break; }
		end_iteration();
		settle_oneshot_signals();
		if (R->loop_iters >= 1 && !R->broke) signals_dispatched();
		// C07: every batch of deliveries while added produced at least one call by the end of the iteration that saw it
		for (int i = 0; i < MAXEV && !stop(); i++) {
			EvSlot &e = R->evs[i];
			if (!e.ev || !e.is_sig) continue;
			if (e.batch_deliveries > 0 && e.calls == 0 && e.added && !R->broke && R->loop_iters >= 2 && !(flags & EVLOOP_NONBLOCK))
				V07("C07.delivery-lost", "signal event %d saw %ld deliveries while added but its callback never ran", i, e.batch_deliveries);
		}
		break;
	}
	}
}

static int run_backend(const Plan &p, int backend) {
	Run run;
	R = &run;
	run.plan = &p;
	run.backend = backend;
	run.nfd = (int)std::min<int64_t>(MAXFD, std::max<int64_t>(1, p.c("nfd", 2)));
	for (int k = 0; k < run.nfd; k++) {
		char key[16];
		snprintf(key, sizeof key, "fd%d", k);
		int64_t v = p.c(key, 0);
		if (!open_pair(k, (int)(v % 3))) { run.nfd = k; break; }
		run.fds[k].et = (v / 3) & 1;
	}
	vk::hooks.wait_enter = on_wait_enter;
	vk::hooks.wait_exit = on_wait_exit;
	vk::hooks.poll_snapshot = [](const struct pollfd *fds, unsigned n) { if (R && R->in_loop && !stop() && fam("C05")) check_poll_interest(fds, n); };
	vk::hooks.select_snapshot = [](int nfds, const void *r, const void *w) { if (R && R->in_loop && !stop() && fam("C05")) check_select_interest(nfds, r, w); };
	vk::hooks.stall = []() { if (R && R->in_loop) { event_base_loopbreak(R->base); R->broke = true; } };
	vk::wait_cap = 3000;

	struct event_config *cfg = event_config_new();
	static const char *const methods[] = {"epoll", "poll", "select"};
	int meth = backend <= 1 ? 0 : backend - 1;
	for (int i = 0; i < 3; i++) if (i != meth) event_config_avoid_method(cfg, methods[i]);
	int flags = EVENT_BASE_FLAG_IGNORE_ENV;
	if (backend == 1) flags |= EVENT_BASE_FLAG_EPOLL_USE_CHANGELIST;
	if (p.c("signalfd")) flags |= EVENT_BASE_FLAG_USE_SIGNALFD;
	event_config_set_flag(cfg, flags);
	run.base = event_base_new_with_config(cfg);
	event_config_free(cfg);
	if (!run.base) { V04("C04.base-new", "no base for backend %d", backend); R = nullptr; return 0; }
	run.features = event_base_get_features(run.base);
	tr("cfg backend=%s features=0x%x sig=%s", event_base_get_method(run.base), run.features, event_base_get_signal_method(run.base));

	for (auto &op : p.ops) { if (stop()) break; exec_op(op); }

	// teardown
	for (int i = 0; i < MAXEV; i++) if (run.evs[i].ev) {
		EvSlot &e = run.evs[i];
		if (e.is_sig && e.added && (p.c("free_base_with_signals") & 1)) continue;	// left added: event_base_free must restore the handler
		if (e.is_sig && e.added) run.sig_added_count[e.fd]--;
		event_free(e.ev);
		e.ev = nullptr;
		if (e.is_sig && run.sig_added_count[e.fd] == 0 && run.sig_installed[e.fd] && !stop()) check_disposition(e.fd, "after freeing the last signal event");
	}
	bool left = false;
	for (int i = 0; i < MAXEV; i++) if (run.evs[i].ev) left = true;
	event_base_free(run.base);
	if (left) {
		probe("base-freed-with-signal-events-added");
		for (int s = 0; s < NSIGS && !stop(); s++) if (run.sig_installed[s]) check_disposition(s, "after event_base_free with the signal event still added");
		for (int i = 0; i < MAXEV; i++) if (run.evs[i].ev) { extern void h_io_release(struct event *); h_io_release(run.evs[i].ev); run.evs[i].ev = nullptr; }
	}
	for (int s = 0; s < NSIGS; s++) if (run.sig_installed[s]) { signal(SIGS[s], SIG_DFL); sigset_t m; sigemptyset(&m); sigaddset(&m, SIGS[s]); sigprocmask(SIG_UNBLOCK, &m, nullptr); }
	{
		vk::HarnessScope hs;
		for (int k = 0; k < run.nfd; k++) { if (run.fds[k].a >= 0) close(run.fds[k].a); if (run.fds[k].b >= 0) close(run.fds[k].b); }
	}
	if (!stop()) {
		if (mon::live_blocks_run() != 0) violation("C10.leak", "%lld block(s) live after event_base_free: %s", (long long)mon::live_blocks_run(), mon::live_blocks_desc(5).c_str());
		else if (vk::open_fd_count_lib() != 0) violation("C10.fd-leak", "library fds still open: %s", vk::open_fd_list_lib().c_str());
	}
	const std::string &prop = p.prop;
	if (!stop()) {
		if (prop == "C04") G.nontrivial = G.nontrivial || (run.checked_callbacks > 0 && run.nonint_states + (int)G.cnt["probe.send-buffer-full"] > 0) || run.checked_callbacks > 2;
		else if (prop == "C05") G.nontrivial = G.nontrivial || run.interest_seen.size() >= 2;
		else if (prop == "C07") G.nontrivial = G.nontrivial || (run.sig_deliveries > 0 && run.sig_comparisons > 0);
		else G.nontrivial = G.nontrivial || run.checked_callbacks > 0;
	}
	count("interest.checks", run.interest_checks);
	count("c04.checked_callbacks", run.checked_callbacks);
	R = nullptr;
	return 0;
}
extern "C" void event_mm_free_(void *);
void h_io_release(struct event *ev) {
	// the base is gone: event_free would touch it through event_del
	event_debug_unassign(ev);
	event_mm_free_(ev);
}

static void execute(const Plan &p) {
	if (p.c("all_backends")) {
		for (int b = 0; b < 4 && !stop(); b++) { tr("=== backend %d", b); run_backend(p, b); }
	} else run_backend(p, (int)p.c("backend"));
}

static void generate(Plan &p, Rng &r) {
	const std::string &prop = p.prop;
	bool thorough = p.tier == "thorough";
	p.cfg["backend"] = r.below(4);
	p.cfg["signalfd"] = r.below(2);
	p.cfg["all_backends"] = (prop == "C04" && r.chance(0.3)) ? 1 : 0;
	int nfd = prop == "C05" ? (r.chance(0.1) ? MAXFD : (int)r.range(1, 5)) : (int)r.range(1, 5);
	if (prop == "C07") nfd = (int)r.range(1, 2);
	p.cfg["nfd"] = nfd;
	for (int k = 0; k < nfd; k++) { char key[16]; snprintf(key, sizeof key, "fd%d", k); p.cfg[key] = r.below(3) + 3 * (r.chance(0.3) ? 1 : 0); }
	p.cfg["free_base_with_signals"] = r.chance(0.3);
	struct W { int code; int w; };
	std::vector<W> ws = {{OP_NEW, 10}, {OP_ADD, 16}, {OP_DEL, 8}, {OP_FREE, 2}, {OP_PEER_WRITE, 8}, {OP_PEER_READ, 4}, {OP_FILL, 2}, {OP_PEER_SHUTDOWN, 2},
	    {OP_PEER_CLOSE, 2}, {OP_REOPEN, 2}, {OP_LOOP, 14}, {OP_SIG_NEW, 0}, {OP_RAISE, 0}, {OP_SELF_READ, 4}};
	auto bump = [&](int code, int w) { for (auto &x : ws) if (x.code == code) x.w = w; };
	if (prop == "C05") { bump(OP_ADD, 24); bump(OP_DEL, 16); bump(OP_REOPEN, 6); bump(OP_PEER_WRITE, 3); }
	if (prop == "C07") { bump(OP_SIG_NEW, 10); bump(OP_RAISE, 14); bump(OP_NEW, 2); bump(OP_PEER_WRITE, 2); bump(OP_FILL, 0); bump(OP_REOPEN, 0); bump(OP_PEER_CLOSE, 0); bump(OP_PEER_SHUTDOWN, 0); }
	int total = 0;
	for (auto &x : ws) total += x.w;
	int nops = thorough ? (int)r.range(10, 120) : (int)r.range(5, 45);
	for (int i = 0; i < nops; i++) {
		int x = (int)r.below(total), code = 0;
		for (auto &w : ws) { if (x < w.w) { code = w.code; break; } x -= w.w; }
		Op o;
		o.code = code;
		o.a[0] = r.below(64);
		o.a[1] = r.below(64);
		o.a[2] = r.below(8);
		o.a[3] = r.below(8);
		if (code == OP_ADD || code == OP_DEL || code == OP_FREE) o.a[2] = prop == "C07" ? (r.chance(0.8) ? 1 : 0) : (r.chance(0.05) ? 1 : 0);
		p.ops.push_back(o);
	}
	Op l;
	l.code = OP_LOOP;
	l.a[0] = 1;
	l.a[1] = 2;
	p.ops.push_back(l);
}

static std::vector<int64_t> cfg_simpler(const std::string &key, int64_t cur) {
	if (key == "nfd") return cur > 1 ? std::vector<int64_t>{1, 2} : std::vector<int64_t>{};
	if (cur != 0) return {0};
	return {};
}

static void process_init(int cls) {
	(void)cls;
	struct event_base *b = event_base_new();
	struct event *s = event_new(b, SIGUSR1, EV_SIGNAL | EV_PERSIST, sig_cb, nullptr);
	event_add(s, nullptr);
	event_free(s);
	event_base_free(b);
	signal(SIGUSR1, SIG_DFL);
}

int main(int argc, char **argv) {
	static Harness h = {"h_io", opnames, OP_N, generate, execute, cfg_simpler, process_init};
	return harness_main(argc, argv, h);
}
