// H5r: RPC harness — C43 (every evrpc call completes exactly once with the reply the server sent). World S: an evhttp
// server with an evrpc base (the Message and NeverReply RPCs of test/regress.rpc) on a simulated listening socket, an
// evrpc pool whose connections point at a scripted relay, and the relay forwarding every byte between the two library
// ends while it cuts the connection at a chosen byte, flips a byte of a request or reply body, delays or replaces a
// reply. Hooks on pool and base continue, terminate or pause (resumed later by the plan).
#include <algorithm>
#include <cerrno>
#include <cstring>
#include <deque>
#include <map>
#include <set>
#include <sys/socket.h>
#include <netinet/in.h>
#include <unistd.h>
#include <event2/event.h>
#include <event2/event_compat.h>
#include <event2/buffer.h>
#include <event2/http.h>
#include <event2/http_struct.h>
#include <event2/rpc.h>
#include <event2/rpc_struct.h>
#include <event2/util.h>
extern "C" {
#include "regress.gen.h"
}
#include "h/h_rpc_glue.h"
#include "sim/sim.hpp"
#include "vk/vk.hpp"
#include "mon/mon.hpp"

using namespace sim;

enum { OP_CALL, OP_FAULT, OP_LOOP, OP_ADVANCE, OP_HOOKSCRIPT, OP_RESUME, OP_REPLY_LATER, OP_N };
static const char *const opnames[OP_N] = {"call", "fault", "loop", "advance", "hook_script", "resume", "reply_later"};

#define NPOOLCONN 2

// what a call carries, and what the handler makes of it: both are functions of the call's contents
struct Content { std::string from, to; bool has_attack = false; std::string weapon; std::vector<uint32_t> often; int nrun = 0; std::string run_how; uint64_t large = 0; bool has_large = false; };

struct Call {
	int which = 0;
	Content c;
	struct msg *m = nullptr;
	struct kill *k = nullptr;
	int ncb = 0, status = -1;
	bool submitted = false;
	std::string r_weapon, r_action;
	std::vector<uint32_t> r_often;
	bool reply_read = false;
	int handler_runs = 0;
	bool handler_saw_equal = false;
	int64_t made_at = 0;
};
struct Saved { int which; void *rpc; int id; };
struct Paused { void *vbase; void *ctx; bool server; };
struct Fault { int kind = 0; int64_t at = 0; int64_t p = 0; };

struct Relay {
	vk::Endpoint *a = nullptr, *b = nullptr;	// a: accepted from the library's client; b: connected to the library's server
	bool a_open = true, b_open = false, b_connecting = false, dead = false;
	std::string q_to_b, q_to_a;	// bytes accepted by the relay and not yet by the next socket (connect pending, send buffer full)
	bool kill_when_flushed = false, kill_reset = false;
	size_t a2b = 0, b2a = 0;	// bytes forwarded so far
	std::string a2b_all, b2a_all;
	Fault f;
	bool fault_fired = false;
	int64_t hold_until = 0;
	std::string held;
};

struct Run {
	const Plan *plan = nullptr;
	struct event_base *base = nullptr;
	struct evhttp *http = nullptr;
	struct evrpc_base *rbase = nullptr;
	struct evrpc_pool *pool = nullptr;
	vk::Endpoint *listener = nullptr;
	std::vector<Relay *> relays;
	std::deque<Fault> faults;
	std::vector<Call> calls;
	std::vector<Saved> saved;
	std::vector<Paused> paused;
	std::deque<int> hook_script;	// decisions for the next hook invocations: 0 continue, 1 terminate, 2 pause
	int hooks_terminated = 0, hooks_paused = 0;
	bool corrupting = false;	// a fault that alters bytes (not only cuts) is part of the plan: content rules relaxed
	bool pool_gone = false, base_gone = false;
	bool long_stall = false;	// the plan let a second or more pass without running the loop: timeouts may be due together with the data
	int compared = 0;
};
static Run *R;
#define V(...) violation(__VA_ARGS__)

static std::string esc(const std::string &s, size_t max = 40) {
	std::string o;
	for (size_t i = 0; i < s.size() && i < max; i++) { unsigned char c = s[i]; if (c < 0x20 || c >= 0x7f) { char b[8]; snprintf(b, sizeof b, "\\x%02x", c); o += b; } else o += c; }
	if (s.size() > max) o += "...";
	return o;
}

// the reply the handler gives is a function of the request it was given
static std::string reply_weapon(const std::string &from) { return "w:" + from; }
static std::string reply_action(const std::string &to) { std::string r(to.rbegin(), to.rend()); return "a:" + r; }

static int call_id_of(const char *from) { return from && from[0] == 'c' ? atoi(from + 1) : -1; }

static Content read_msg(struct msg *m) {
	Content c;
	char *s = nullptr;
	if (EVTAG_GET(m, from_name, &s) == 0 && s) c.from = s;
	s = nullptr;
	if (EVTAG_GET(m, to_name, &s) == 0 && s) c.to = s;
	struct kill *att = nullptr;
	if (EVTAG_HAS(m, attack) && EVTAG_GET(m, attack, &att) == 0 && att) {
		c.has_attack = true;
		s = nullptr;
		if (EVTAG_GET(att, weapon, &s) == 0 && s) c.weapon = s;
		for (int i = 0; i < EVTAG_ARRAY_LEN(att, how_often); i++) { ev_uint32_t v = 0; EVTAG_ARRAY_GET(att, how_often, i, &v); c.often.push_back(v); }
	}
	c.nrun = EVTAG_ARRAY_LEN(m, run);
	if (c.nrun > 0) {
		struct run *rn = nullptr;
		if (EVTAG_ARRAY_GET(m, run, 0, &rn) == 0 && rn) {
			s = nullptr;
			if (EVTAG_GET(rn, how, &s) == 0 && s) c.run_how = s;
			if (EVTAG_HAS(rn, large_number)) { ev_uint64_t v = 0; EVTAG_GET(rn, large_number, &v); c.large = v; c.has_large = true; }
		}
	}
	return c;
}
static bool content_equal(const Content &a, const Content &b) {
	return a.from == b.from && a.to == b.to && a.has_attack == b.has_attack && a.weapon == b.weapon && a.often == b.often && a.nrun == b.nrun && a.run_how == b.run_how && a.has_large == b.has_large && a.large == b.large;
}

static void server_cb(int which, void *rpc, struct msg *request, struct kill *reply, struct evhttp_request *http_req, void *) {
	if (!R) return;
	Content c = read_msg(request);
	int id = call_id_of(c.from.c_str());
	const char *uri = http_req ? evhttp_request_get_uri(http_req) : "";
	tr("srv handler which=%d id=%d uri=%s", which, id, uri ? uri : "");
	if (R->base_gone) { V("C43.handler-after-free", "server handler ran after the base was freed"); return; }
	// own RPC only
	if (uri && ((which == 0) != (strstr(uri, "Message") != nullptr))) V("C43.wrong-handler", "the handler of %s ran for a request to '%s'", which == 0 ? "Message" : "NeverReply", uri);
	if (id >= 0 && id < (int)R->calls.size()) {
		Call &q = R->calls[id];
		q.handler_runs++;
		if (content_equal(c, q.c) && q.which == which) q.handler_saw_equal = true;
		else if (!R->corrupting) V("C43.request-differs", "call %d: the handler was given a request that differs from the one the client made (from '%s' to '%s', attack %d, %d runs; made: from '%s' to '%s', attack %d, %d runs)", id, esc(c.from).c_str(), esc(c.to).c_str(), c.has_attack, c.nrun, esc(q.c.from).c_str(), esc(q.c.to).c_str(), q.c.has_attack, q.c.nrun);
		if (q.handler_runs > 1 && !R->corrupting) V("C43.handler-twice", "call %d: the server handler ran %d times for one request", id, q.handler_runs);
	} else if (!R->corrupting) V("C43.handler-for-unknown-request", "the handler ran for a request (from '%s') that no call made", esc(c.from).c_str());
	EVTAG_ASSIGN(reply, weapon, reply_weapon(c.from).c_str());
	EVTAG_ASSIGN(reply, action, reply_action(c.to).c_str());
	for (size_t i = 0; i < c.to.size() % 4; i++) EVTAG_ARRAY_ADD_VALUE(reply, how_often, (ev_uint32_t)mix64(c.from.size() * 1000 + i));
	if (which == 0) { APIV(glue_request_done(0, rpc)); }
	else { R->saved.push_back({which, rpc, id}); probe("reply-withheld"); }
}

static void client_cb(struct evrpc_status *st, struct msg *, struct kill *k, void *arg) {
	int id = (int)(intptr_t)arg;
	if (!R) return;
	Call &q = R->calls[id];
	tr("cli callback id=%d status=%d", id, st ? st->error : -99);
	if (R->base_gone || R->pool_gone) { V("C43.callback-after-free", "call %d: completion callback after the pool was freed", id); return; }
	q.ncb++;
	if (q.ncb > 1) { V("C43.completion-twice", "call %d: completion callback number %d (status %d)", id, q.ncb, st ? st->error : -99); return; }
	q.status = st ? st->error : -99;
	if (q.status == EVRPC_STATUS_ERR_NONE) {
		char *s = nullptr;
		q.reply_read = true;
		if (EVTAG_GET(k, weapon, &s) == 0 && s) q.r_weapon = s; else q.reply_read = false;
		s = nullptr;
		if (EVTAG_GET(k, action, &s) == 0 && s) q.r_action = s; else q.reply_read = false;
		for (int i = 0; i < EVTAG_ARRAY_LEN(k, how_often); i++) { ev_uint32_t v = 0; EVTAG_ARRAY_GET(k, how_often, i, &v); q.r_often.push_back(v); }
	}
}

static int hook_cb(void *ctx, struct evhttp_request *, struct evbuffer *, void *arg) {
	if (!R) return EVRPC_CONTINUE;
	int where = (int)(intptr_t)arg;	// 0 pool output, 1 pool input, 2 base input, 3 base output
	int d = 0;
	if (!R->hook_script.empty()) { d = R->hook_script.front(); R->hook_script.pop_front(); }
	tr("hook where=%d decision=%d", where, d);
	if (d == 1) { R->hooks_terminated++; probe("hook-terminate"); return EVRPC_TERMINATE; }
	if (d == 2) { R->hooks_paused++; R->paused.push_back({where < 2 ? (void *)R->pool : (void *)R->rbase, ctx, where >= 2}); probe("hook-pause"); return EVRPC_PAUSE; }
	return EVRPC_CONTINUE;
}

// ---- the relay ------------------------------------------------------------
static void relay_kill(Relay *r, bool reset);
static void relay_flush(Relay *r) {
	if (r->dead) return;
	if (r->b_open && !r->q_to_b.empty()) { size_t n = vk::ep_send(r->b, r->q_to_b); r->q_to_b.erase(0, n); }
	if (r->a_open && !r->q_to_a.empty()) { size_t n = vk::ep_send(r->a, r->q_to_a); r->q_to_a.erase(0, n); }
	if (r->kill_when_flushed && r->q_to_a.empty() && r->q_to_b.empty()) relay_kill(r, r->kill_reset);
}
static void relay_kill(Relay *r, bool reset) {
	if (r->dead) return;
	r->dead = true;
	if (r->a && r->a_open) { if (reset) vk::ep_reset(r->a); else { vk::ep_shutdown(r->a); vk::ep_close(r->a); } r->a_open = false; }
	if (r->b && (r->b_open || r->b_connecting)) { if (reset) vk::ep_reset(r->b); else { vk::ep_shutdown(r->b); vk::ep_close(r->b); } r->b_open = false; }
}
static size_t body_start(const std::string &s) { size_t p = s.find("\r\n\r\n"); return p == std::string::npos ? std::string::npos : p + 4; }

static void relay_forward(Relay *r, bool to_server, std::string d) {
	if (r->dead || d.empty()) return;
	size_t &count = to_server ? r->a2b : r->b2a;
	std::string &all = to_server ? r->a2b_all : r->b2a_all;
	all += d;
	Fault &f = r->f;
	bool cut_here = false, reset = false;
	if (!r->fault_fired) {
		if ((f.kind == 1 && to_server) || (f.kind == 2 && !to_server) || (f.kind == 7 && !to_server)) {
			if (count + d.size() > (size_t)f.at) { d = d.substr(0, (size_t)f.at > count ? (size_t)f.at - count : 0); cut_here = true; reset = f.kind == 7; r->fault_fired = true; fault(f.kind == 1 ? "rpc.cut-request" : f.kind == 2 ? "rpc.cut-reply" : "rpc.reset-reply"); }
		} else if ((f.kind == 3 && to_server) || (f.kind == 4 && !to_server)) {
			size_t bs = body_start(all);
			if (bs != std::string::npos && all.size() > bs) {
				size_t target = bs + (size_t)f.at % (all.size() - bs), first = all.size() - d.size();
				if (target >= first) { d[target - first] ^= (char)(1 << (f.p % 8)); r->fault_fired = true; fault(f.kind == 3 ? "rpc.flip-request-byte" : "rpc.flip-reply-byte"); }
			}
		} else if (f.kind == 5 && !to_server) {
			size_t bs = body_start(all);
			if (bs != std::string::npos) {
				// replace the reply: the client is told something else than the handler said
				static const char *const alt[] = {"HTTP/1.1 500 Internal Error\r\nContent-Length: 0\r\n\r\n", "HTTP/1.1 200 OK\r\nContent-Length: 7\r\n\r\ngarbage", "HTTP/1.1 200 OK\r\nContent-Length: 0\r\n\r\n", "HTTP/1.1 404 Not Found\r\nContent-Length: 2\r\n\r\nno"};
				d = alt[f.p % 4];
				r->fault_fired = true; fault("rpc.reply-replaced");
				r->q_to_a += d;
				count += d.size();
				r->kill_when_flushed = true;
				relay_flush(r);
				return;
			}
		} else if (f.kind == 6 && !to_server) {
			r->hold_until = G.now_ns + (f.at % 120) * NS;
			r->fault_fired = true; fault("rpc.reply-delayed");
		}
	}
	if (!to_server && r->hold_until > G.now_ns) { r->held += d; return; }
	if (!d.empty()) {
		if (to_server) r->q_to_b += d; else r->q_to_a += d;
		count += d.size();
	}
	if (cut_here) { r->kill_when_flushed = true; r->kill_reset = reset; }
	relay_flush(r);
}
static void relay_poll() {
	for (auto r : R->relays) if (!r->dead && r->hold_until && r->hold_until <= G.now_ns && !r->held.empty()) { std::string d; d.swap(r->held); r->hold_until = 0; r->q_to_a += d; r->b2a += d.size(); relay_flush(r); }
	for (auto r : R->relays) relay_flush(r);
}

static void relay_accept(vk::Endpoint *conn) {
	Relay *r = new Relay;
	r->a = conn;
	if (!R->faults.empty()) { r->f = R->faults.front(); R->faults.pop_front(); }
	R->relays.push_back(r);
	probe("relay-connection");
	vk::EndpointCbs ca;
	ca.on_data = [r](vk::Endpoint *, const std::string &d) { relay_forward(r, true, d); };
	ca.on_writable = [r](vk::Endpoint *) { relay_flush(r); };
	ca.on_eof = [r](vk::Endpoint *) { r->a_open = false; relay_kill(r, false); };
	ca.on_reset = [r](vk::Endpoint *) { r->a_open = false; relay_kill(r, true); };
	vk::ep_set_cbs(conn, ca);
	sockaddr_in sa = vk::addr4(0x7f000001, 8080);
	vk::EndpointCbs cb;
	cb.on_connected = [r](vk::Endpoint *) { r->b_open = true; r->b_connecting = false; relay_flush(r); };
	cb.on_writable = [r](vk::Endpoint *) { relay_flush(r); };
	cb.on_connect_failed = [r](vk::Endpoint *, int) { r->b_connecting = false; relay_kill(r, false); };
	cb.on_data = [r](vk::Endpoint *, const std::string &d) { relay_forward(r, false, d); };
	cb.on_eof = [r](vk::Endpoint *) { r->b_open = false; r->kill_when_flushed = true; relay_flush(r); };
	cb.on_reset = [r](vk::Endpoint *) { r->b_open = false; relay_kill(r, true); };
	r->b_connecting = true;
	r->b = vk::ep_connect((sockaddr *)&sa, sizeof sa, cb);
}

// ---- operations -------------------------------------------------------------
static void fill_msg(struct msg *m, const Content &c) {
	EVTAG_ASSIGN(m, from_name, c.from.c_str());
	EVTAG_ASSIGN(m, to_name, c.to.c_str());
	if (c.has_attack) {
		struct kill *att = kill_new();
		EVTAG_ASSIGN(att, weapon, c.weapon.c_str());
		EVTAG_ASSIGN(att, action, "x");
		for (auto v : c.often) EVTAG_ARRAY_ADD_VALUE(att, how_often, v);
		EVTAG_ASSIGN(m, attack, att);
		kill_free(att);
	}
	for (int i = 0; i < c.nrun; i++) {
		struct run *rn = EVTAG_ARRAY_ADD(m, run);
		EVTAG_ASSIGN(rn, how, i == 0 ? c.run_how.c_str() : "again");
		ev_uint8_t fixed[24];
		memset(fixed, 'f', sizeof fixed);
		EVTAG_ASSIGN(rn, fixed_bytes, fixed);
		if (i == 0 && c.has_large) EVTAG_ASSIGN(rn, large_number, c.large);
	}
}

static void exec_op(const Op &op) {
	if (stop() || G.capped) return;
	switch (op.code) {
	case OP_CALL: {
		if (R->calls.size() >= 40) break;
		int id = (int)R->calls.size();
		Call q;
		q.which = op.a[0] % 5 == 0 ? 1 : 0;
		int64_t p = op.a[1];
		q.c.from = "c" + std::to_string(id) + "|" + std::string((size_t)(p % 7 == 0 ? p % 3000 : p % 20), 'n');
		q.c.to = std::string((size_t)(p % 11), 't') + std::to_string(p % 1000);
		if (p % 3 == 0) { q.c.has_attack = true; q.c.weapon = "sword" + std::to_string(p % 100); for (int i = 0; i < (int)(p % 4); i++) q.c.often.push_back(i == 0 && p % 2 ? 0xffffffffu : (uint32_t)mix64((uint64_t)p + i)); }	// full-width values: every nibble count of the tagged encoding
		q.c.nrun = (int)(p % 5 == 0 ? p % 4 : 0);
		if (q.c.nrun) { q.c.run_how = "fast" + std::to_string(p % 50); if (p % 2) { q.c.has_large = true; q.c.large = p % 3 == 0 ? ~0ULL : mix64((uint64_t)p); } }
		q.m = msg_new();
		q.k = kill_new();
		fill_msg(q.m, q.c);
		q.made_at = G.now_ns;
		R->calls.push_back(q);
		int r = API(glue_call(q.which, R->pool, R->calls[id].m, R->calls[id].k, client_cb, (void *)(intptr_t)id));
		tr("api call id=%d which=%d -> %d", id, q.which, r);
		R->calls[id].submitted = true;	// the callback is owed whatever the return value: a refused call reports ERR_UNSTARTED through it
		if (r != 0) probe("call-refused");
		break;
	}
	case OP_FAULT: {
		Fault f; f.kind = (int)(op.a[0] % 8); f.at = op.a[1]; f.p = op.a[2];
		if (f.kind == 1 || f.kind == 2 || f.kind == 7) f.at = op.a[1] % 600;
		if (R->faults.size() < 16) R->faults.push_back(f);
		break;
	}
	case OP_LOOP: {
		int iters = (int)std::max<int64_t>(1, op.a[0] % 40);
		for (int k = 0; k < iters && !stop() && !G.capped; k++) {
			int rr = event_base_loop(R->base, EVLOOP_ONCE | EVLOOP_NONBLOCK);
			relay_poll();
			if (rr < 0) break;
			if (vk::events_pending()) vk::advance_running(std::max<int64_t>(0, std::min<int64_t>(vk::next_event_time() - G.now_ns, 50000000)));
			else if (op.a[1]) { if (op.a[1] >= 1000) R->long_stall = true; vk::advance_running(std::min<int64_t>(op.a[1], 60000) * 1000000); }
			else break;
		}
		break;
	}
	case OP_ADVANCE: if (op.a[0] >= 1000) R->long_stall = true; vk::advance_running(std::max<int64_t>(0, op.a[0]) * 1000000); relay_poll(); break;
	case OP_HOOKSCRIPT: if (R->hook_script.size() < 32) R->hook_script.push_back((int)(op.a[0] % 3)); break;
	case OP_RESUME: {
		if (R->paused.empty()) break;
		size_t i = (size_t)op.a[0] % R->paused.size();
		Paused pz = R->paused[i];
		R->paused.erase(R->paused.begin() + (long)i);
		int res = API(evrpc_resume_request(pz.vbase, pz.ctx, op.a[1] % 4 == 0 ? EVRPC_TERMINATE : EVRPC_CONTINUE));
		if (op.a[1] % 4 == 0) R->hooks_terminated++;
		tr("api resume -> %d", res);
		probe("hook-resumed");
		break;
	}
	case OP_REPLY_LATER: {
		if (R->saved.empty()) break;
		size_t i = (size_t)op.a[0] % R->saved.size();
		Saved s = R->saved[i];
		R->saved.erase(R->saved.begin() + (long)i);
		tr("api late reply id=%d", s.id);
		APIV(glue_request_done(s.which, s.rpc));
		probe("late-reply");
		break;
	}
	}
}

static void execute(const Plan &p) {
	Run run;
	R = &run;
	run.plan = &p;
	run.calls.reserve(64);
	vk::net.sim_sockets = true;
	vk::net.lat_min_ns = p.c("lat_min_us", 100) * 1000;
	vk::net.lat_max_ns = p.c("lat_max_us", 100) * 1000;
	vk::net.connect_lat_ns = p.c("connect_lat_us", 100) * 1000;
	vk::net.sockbuf = (size_t)p.c("sockbuf", 65536);
	vk::wait_cap = 400000;
	static const struct { const char *k; vk::Site s; } sites[] = {
		{"f_read_short", vk::S_READ_SHORT}, {"f_write_short", vk::S_WRITE_SHORT}, {"f_read_eagain", vk::S_READ_EAGAIN}, {"f_write_eagain", vk::S_WRITE_EAGAIN},
	};
	for (auto &s : sites) if (p.c(s.k)) vk::set_fault(s.s, (int)p.c(s.k));
	vk::hooks.capped = []() { if (R && R->base) event_base_loopbreak(R->base); };
	for (auto &op : p.ops) if (op.code == OP_FAULT && (op.a[0] % 8 == 3 || op.a[0] % 8 == 4 || op.a[0] % 8 == 5)) run.corrupting = true;
	// The pool hands its base to the connections added to it, so they have to be created without one, which in turn needs
	// the library's "current base" (event_init): the run's base is made that way, the backend chosen through the environment.
	static const char *const noenv[] = {"EVENT_NOEPOLL", "EVENT_NOPOLL", "EVENT_NOSELECT"};
	int meth = (int)(p.c("backend") % 3);
	for (int i = 0; i < 3; i++) if (i != meth) setenv(noenv[i], "1", 1); else unsetenv(noenv[i]);
	run.base = event_init();
	for (int i = 0; i < 3; i++) unsetenv(noenv[i]);
	if (!run.base) { violation("C43.base-new", "no event base"); R = nullptr; return; }
	run.http = API(evhttp_new(run.base));
	if (!run.http || evhttp_bind_socket(run.http, "127.0.0.1", 8080) != 0) { violation("C43.setup", "cannot start the HTTP server"); if (run.http) evhttp_free(run.http); event_base_free(run.base); R = nullptr; return; }
	run.rbase = API(evrpc_init(run.http));
	if (!run.rbase || glue_register(run.rbase, server_cb, nullptr) != 0) { violation("C43.setup", "cannot register the RPCs"); R = nullptr; return; }
	sockaddr_in la = vk::addr4(0x7f000001, 8200);
	run.listener = vk::ep_listen((sockaddr *)&la, sizeof la, relay_accept);
	run.pool = API(evrpc_pool_new(run.base));
	int nconn = 1 + (int)(p.c("conns") % NPOOLCONN);
	for (int i = 0; i < nconn; i++) {
		struct evhttp_connection *ec = evhttp_connection_base_new(nullptr, nullptr, "127.0.0.1", 8200);	// the pool gives it its base
		if (p.c("retries")) evhttp_connection_set_retries(ec, (int)p.c("retries"));
		struct timeval rt = {0, 1000};
		evhttp_connection_set_initial_retry_tv(ec, &rt);
		evrpc_pool_add_connection(run.pool, ec);
	}
	if (p.c("timeout_s")) evrpc_pool_set_timeout(run.pool, (int)p.c("timeout_s"));
	int hooks = (int)p.c("hooks");
	if (hooks & 1) evrpc_add_hook(run.pool, EVRPC_OUTPUT, hook_cb, (void *)(intptr_t)0);
	if (hooks & 2) evrpc_add_hook(run.pool, EVRPC_INPUT, hook_cb, (void *)(intptr_t)1);
	if (hooks & 4) evrpc_add_hook(run.rbase, EVRPC_INPUT, hook_cb, (void *)(intptr_t)2);
	if (hooks & 8) evrpc_add_hook(run.rbase, EVRPC_OUTPUT, hook_cb, (void *)(intptr_t)3);
	tr("cfg backend=%s conns=%d timeout=%d hooks=%d", event_base_get_method(run.base), nconn, (int)p.c("timeout_s"), hooks);

	for (auto &op : p.ops) { if (stop() || G.capped) break; exec_op(op); }

	// settle: paused requests are resumed, withheld replies stay withheld, time passes until every call has had its outcome
	if (!stop() && !G.capped) {
		for (int s = 0; s < vk::S_NSITES; s++) vk::set_fault((vk::Site)s, 0);
		run.hook_script.clear();
		auto open_calls = [&]() { int n = 0; for (auto &q : run.calls) if (q.submitted && q.ncb == 0) n++; return n; };
		int64_t deadline = G.now_ns + (600 + 80 * (int64_t)run.calls.size()) * NS;	// calls queue up behind one another on a connection: each may take a whole timeout (at most 70 s)
		for (int k = 0; k < 300000 && open_calls() > 0 && !stop() && !G.capped && G.now_ns < deadline; k++) {
			while (!run.paused.empty() && !stop()) { Paused pz = run.paused.back(); run.paused.pop_back(); evrpc_resume_request(pz.vbase, pz.ctx, EVRPC_CONTINUE); }
			event_base_loop(run.base, EVLOOP_NONBLOCK);
			relay_poll();
			int64_t next = vk::next_event_time();
			vk::advance_running(std::max<int64_t>(1000, std::min<int64_t>(next == INT64_MAX ? 1000000000 : next - G.now_ns, 1000000000)));
		}
		for (int k = 0; k < 5; k++) event_base_loop(run.base, EVLOOP_NONBLOCK);
		bool faults_any = false;
		for (auto r : run.relays) if (r->fault_fired) faults_any = true;
		for (size_t i = 0; i < run.calls.size() && !stop() && !G.capped; i++) {
			Call &q = run.calls[i];
			if (!q.submitted) continue;
			if (q.ncb == 0) {
				if (G.now_ns < deadline) { probe("settle-budget-exhausted"); continue; }
				V("C43.completion-count", "call %zu (%s): no completion callback after %d virtual seconds (pool timeout %d s, connection timeout 50 s by default, %zu calls in all); the handler ran %d time(s)", i, q.which ? "NeverReply" : "Message", (int)(600 + 80 * run.calls.size()), (int)p.c("timeout_s"), run.calls.size(), q.handler_runs);
				break;
			}
			run.compared++;
			if (q.status == EVRPC_STATUS_ERR_NONE) {
				if (run.corrupting) continue;
				if (!q.handler_runs) { V("C43.reply-without-handler", "call %zu completed successfully although the server handler never ran for it", i); break; }
				std::vector<uint32_t> often;
				for (size_t j = 0; j < q.c.to.size() % 4; j++) often.push_back((uint32_t)mix64(q.c.from.size() * 1000 + j));
				if (!q.reply_read || q.r_weapon != reply_weapon(q.c.from) || q.r_action != reply_action(q.c.to) || q.r_often != often) {
					V("C43.reply-differs", "call %zu: the reply handed to the callback (weapon '%s', action '%s', %zu numbers) is not the one the handler produced (weapon '%s', action '%s', %zu numbers)", i, esc(q.r_weapon).c_str(), esc(q.r_action).c_str(), q.r_often.size(), esc(reply_weapon(q.c.from)).c_str(), esc(reply_action(q.c.to)).c_str(), often.size());
					break;
				}
				probe("reply-matches");
			} else {
				// an error needs a cause: a fault on some relay, a hook that terminated, a reply withheld or delayed past a timeout
				bool cause = faults_any || run.long_stall || run.hooks_terminated > 0 || q.which == 1 || p.c("timeout_s") > 0 || p.c("f_read_eagain") || p.c("f_write_eagain");
				if (!cause) { V("C43.unexplained-error", "call %zu (Message) ended with status %d although no fault was injected, no hook terminated and no timeout was configured (the handler ran %d time(s))", i, q.status, q.handler_runs); break; }
				probe("error-explained");
			}
		}
	}
	// teardown
	// requests the NeverReply handler kept are answered now (their connections may be long gone): an application has to
	// finish every request it was handed
	if (!stop()) { for (auto &s : run.saved) glue_request_done(s.which, s.rpc); run.saved.clear(); }
	for (int k = 0; k < 3; k++) event_base_loop(run.base, EVLOOP_NONBLOCK);
	if (run.pool) { evrpc_pool_free(run.pool); run.pool_gone = true; }
	for (int k = 0; k < 3; k++) event_base_loop(run.base, EVLOOP_NONBLOCK);
	if (run.rbase) { glue_unregister(run.rbase); evrpc_free(run.rbase); }
	if (run.http) evhttp_free(run.http);
	for (int k = 0; k < 4; k++) event_base_loop(run.base, EVLOOP_NONBLOCK);
	if (mon::locks_enabled && mon::held() != 0 && !stop()) violation("C08.lock-held-at-end", "%d lock acquisition(s) held at the end", mon::held());
	event_base_free(run.base);
	run.base = nullptr;
	run.base_gone = true;
	for (auto &q : run.calls) { if (q.m) msg_free(q.m); if (q.k) kill_free(q.k); }
	bool withheld = !run.saved.empty(), paused_left = !run.paused.empty();
	for (auto r : run.relays) delete r;
	if (!stop() && !G.capped && !withheld && !paused_left) {
		if (mon::live_blocks_run() != 0) violation("C43.leak", "%lld block(s) allocated by the library still live after the pool, the rpc base, the server and the event base were freed: %s", (long long)mon::live_blocks_run(), mon::live_blocks_desc(6).c_str());
		else if (vk::open_fd_count_lib() != 0) violation("C43.fd-leak", "library fds still open: %s", vk::open_fd_list_lib().c_str());
	}
	if (!stop()) G.nontrivial = run.compared > 0;
	R = nullptr;
}

static void generate(Plan &p, Rng &r) {
	bool thorough = p.tier == "thorough";
	p.cfg["backend"] = r.below(3);
	p.cfg["lat_min_us"] = r.pick(std::vector<int64_t>{1, 100, 5000});
	p.cfg["lat_max_us"] = p.cfg["lat_min_us"] + (r.chance(0.5) ? 0 : (int64_t)r.below(20000));
	p.cfg["connect_lat_us"] = r.pick(std::vector<int64_t>{0, 100, 5000});
	p.cfg["sockbuf"] = r.pick(std::vector<int64_t>{64, 1024, 65536});
	if (r.chance(0.25)) {
		static const char *ks[] = {"f_read_short", "f_write_short", "f_read_eagain", "f_write_eagain"};
		for (auto k : ks) if (r.chance(0.4)) p.cfg[k] = r.pick(std::vector<int64_t>{10, 50, 200});
	}
	p.cfg["conns"] = r.below(NPOOLCONN);
	p.cfg["timeout_s"] = r.chance(0.5) ? r.pick(std::vector<int64_t>{1, 5, 70}) : 0;
	p.cfg["retries"] = r.chance(0.2) ? r.range(1, 2) : 0;
	p.cfg["hooks"] = r.chance(0.4) ? r.below(16) : 0;
	bool with_faults = r.chance(0.6), corrupting = with_faults && r.chance(0.4);
	int nops = thorough ? (int)r.range(5, 60) : (int)r.range(3, 25);
	for (int i = 0; i < nops; i++) {
		Op o;
		int x = (int)r.below(100);
		if (x < 35) { o.code = OP_CALL; o.a[0] = r.below(10); o.a[1] = r.below(100000); }
		else if (x < 50) { if (!with_faults) { o.code = OP_LOOP; o.a[0] = r.range(1, 20); } else { o.code = OP_FAULT; o.a[0] = corrupting ? r.below(8) : r.pick(std::vector<int64_t>{0, 1, 2, 6, 7}); o.a[1] = r.below(100000); o.a[2] = r.below(1000); } }
		else if (x < 75) { o.code = OP_LOOP; o.a[0] = r.range(1, 30); o.a[1] = r.chance(0.3) ? r.pick(std::vector<int64_t>{1, 100, 1000, 60000}) : 0; }
		else if (x < 80) { o.code = OP_ADVANCE; o.a[0] = r.pick(std::vector<int64_t>{1, 999, 1000, 5000, 50001, 70000}); }
		else if (x < 88) { o.code = OP_HOOKSCRIPT; o.a[0] = r.below(3); }
		else if (x < 94) { o.code = OP_RESUME; o.a[0] = r.below(8); o.a[1] = r.below(8); }
		else { o.code = OP_REPLY_LATER; o.a[0] = r.below(8); }
		p.ops.push_back(o);
	}
}

static std::vector<int64_t> cfg_simpler(const std::string &key, int64_t cur) {
	if (key == "lat_min_us" || key == "lat_max_us" || key == "connect_lat_us") return cur != 100 ? std::vector<int64_t>{100} : std::vector<int64_t>{};
	if (key == "sockbuf") return cur != 65536 ? std::vector<int64_t>{65536} : std::vector<int64_t>{};
	if (cur != 0) return {0};
	return {};
}

static void process_init(int cls) {
	(void)cls;
	struct event_base *b = event_base_new();
	struct evhttp *h = evhttp_new(b);
	struct evrpc_base *rb = evrpc_init(h);
	evrpc_free(rb);
	evhttp_free(h);
	event_base_free(b);
}

int main(int argc, char **argv) {
	static Harness h = {"h_rpc", opnames, OP_N, generate, execute, cfg_simpler, process_init};
	return harness_main(argc, argv, h);
}
