/* C side of the RPC harness: the EVRPC_* macros generate C (function pointer casts that C++ rejects), so the two test
 * RPCs of test/regress.rpc (Message and NeverReply, both msg -> kill) are instantiated here and reached from
 * h_rpc.cpp through a small C interface. */
#include <stdlib.h>
#include <event2/event.h>
#include <event2/buffer.h>
#include <event2/http.h>
#include <event2/rpc.h>
#include <event2/rpc_struct.h>
#include "regress.gen.h"
#include "h_rpc_glue.h"

EVRPC_HEADER(Message, msg, kill)
EVRPC_HEADER(NeverReply, msg, kill)
EVRPC_GENERATE(Message, msg, kill)
EVRPC_GENERATE(NeverReply, msg, kill)

static glue_server_cb g_cb;

static void message_cb(EVRPC_STRUCT(Message) *rpc, void *arg) { g_cb(0, rpc, rpc->request, rpc->reply, rpc->http_req, arg); }
static void never_cb(EVRPC_STRUCT(NeverReply) *rpc, void *arg) { g_cb(1, rpc, rpc->request, rpc->reply, rpc->http_req, arg); }

int glue_register(struct evrpc_base *base, glue_server_cb cb, void *arg) {
	g_cb = cb;
	if (EVRPC_REGISTER(base, Message, msg, kill, message_cb, arg) != 0) return -1;
	if (EVRPC_REGISTER(base, NeverReply, msg, kill, never_cb, arg) != 0) return -1;
	return 0;
}
int glue_unregister(struct evrpc_base *base) {
	int r = 0;
	if (EVRPC_UNREGISTER(base, Message) != 0) r = -1;
	if (EVRPC_UNREGISTER(base, NeverReply) != 0) r = -1;
	return r;
}
void glue_request_done(int which, void *rpc) {
	if (which == 0) { EVRPC_STRUCT(Message) *r = rpc; EVRPC_REQUEST_DONE(r); }
	else { EVRPC_STRUCT(NeverReply) *r = rpc; EVRPC_REQUEST_DONE(r); }
}
int glue_call(int which, struct evrpc_pool *pool, struct msg *m, struct kill *k, glue_client_cb cb, void *arg) {
	if (which == 0) return EVRPC_MAKE_REQUEST(Message, pool, m, k, cb, arg);
	return EVRPC_MAKE_REQUEST(NeverReply, pool, m, k, cb, arg);
}
