/* C interface between h_rpc.cpp and the EVRPC_* macro instantiations in h_rpc_glue.c */
#ifndef H_RPC_GLUE_H
#define H_RPC_GLUE_H
#ifdef __cplusplus
extern "C" {
#endif
struct evrpc_base;
struct evrpc_pool;
struct evrpc_status;
struct evhttp_request;
struct msg;
struct kill;
/* which: 0 Message, 1 NeverReply */
typedef void (*glue_server_cb)(int which, void *rpc, struct msg *request, struct kill *reply, struct evhttp_request *http_req, void *arg);
typedef void (*glue_client_cb)(struct evrpc_status *status, struct msg *request, struct kill *reply, void *arg);
int glue_register(struct evrpc_base *base, glue_server_cb cb, void *arg);
int glue_unregister(struct evrpc_base *base);
void glue_request_done(int which, void *rpc);
int glue_call(int which, struct evrpc_pool *pool, struct msg *m, struct kill *k, glue_client_cb cb, void *arg);
#ifdef __cplusplus
}
#endif
#endif
