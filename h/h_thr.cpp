// H7: threads — C09 (cross-thread add/del/active: acted on at once, del waits for a running callback, no corruption) and
// the deadlock / lock-ownership side of C08. One loop thread runs event_base_loop; 1-3 worker threads, each owning some of
// the events, add / delete / activate them and write into a thread-safe bufferevent pair; callbacks yield in the middle so
// that other threads interleave with a running callback. Real pthreads, one running at a time (thr/), every hand-over
// decided by the seed; virtual time moves only when every thread is blocked.
#include <cerrno>
#include <cstring>
#include <vector>
#include <unistd.h>
#include <event2/event.h>
#include <event2/buffer.h>
#include <event2/bufferevent.h>
#include <event2/thread.h>
#include "sim/sim.hpp"
#include "vk/vk.hpp"
#include "mon/mon.hpp"
#include "thr/thr.hpp"
#include "shim/shim.h"

using namespace sim;

enum { OP_ADD, OP_DEL, OP_ACTIVE, OP_YIELD, OP_SLEEP, OP_BEV_WRITE, OP_FD_WRITE, OP_N };
static const char *const opnames[OP_N] = {"add", "del", "active", "yield", "sleep", "bev_write", "fd_write"};

#define MAXEV 6
#define MAXTH 3

struct Ev {
	struct event *ev = nullptr;
	int owner = 0;			// worker index that operates on it
	int kind = 0;			// 0 timer / manual activation, 1 read event on a pipe
	int fds[2] = {-1, -1};
	int cb_yields = 0;
	bool persist = false;
	// shared between the threads (one runs at a time)
	bool running = false;
	int ncalls = 0;
	int cb_seq = 0;
	bool added = false;		// event_add succeeded and neither a delete nor (non-persistent) a callback has ended it since
	int allow = 0;			// callback starts still owed to activations / adds made since the last blocking delete (upper bound)
	// model, kept by the owner
	bool armed = false;		// added or activated since the last delete returned
	int64_t expect_by_ns = -1;	// the callback has to start by this virtual time (-1: no obligation)
	int64_t obligation_since = 0;
	const char *obligation = "";
	uint64_t unread = 0;
};

struct Run {
	const Plan *plan = nullptr;
	struct event_base *base = nullptr;
	Ev evs[MAXEV];
	int nev = 0, nth = 1;
	struct event *far_timer = nullptr;	// the "unrelated timeout" the loop would otherwise sleep until
	struct bufferevent *pair[2] = {nullptr, nullptr};
	uint64_t bev_written = 0, bev_read = 0;
	bool loop_done = false;
	int loop_tid = 0;
	int cross_ops = 0, del_while_running = 0, activations_checked = 0;
	std::vector<std::vector<int>> ops_of;	// per worker: indices into plan ops
};
static Run *R;

static void ev_cb(evutil_socket_t fd, short what, void *arg) {
	Ev &e = R->evs[(int)(intptr_t)arg];
	e.cb_seq++;
	int idx = (int)(intptr_t)arg;
	tr("cb ev%d what=0x%x T%d", idx, what, thr::self());
	if (stop()) return;
	if (thr::self() != R->loop_tid) violation("C09.callback-on-wrong-thread", "ev%d: callback ran on thread %d, the loop runs on thread %d", idx, thr::self(), R->loop_tid);
	if (e.running) violation("C09.callback-reentered", "ev%d: callback started while it was already running", idx);
	if (!(e.persist && e.armed) && e.allow <= 0) violation("C09.callback-after-del", "ev%d: callback started although event_del had returned in thread %d and nothing re-armed the event since", idx, e.owner + 2);
	if (e.expect_by_ns >= 0) {
		R->activations_checked++;
		if (G.now_ns > e.expect_by_ns)
			violation("C09.acted-on-late", "ev%d: %s from thread %d at t=%lld ns was acted on %lld ns later than it could have been (the loop slept until an unrelated timeout)", idx, e.obligation, e.owner + 2, (long long)e.obligation_since, (long long)(G.now_ns - e.expect_by_ns));
		e.expect_by_ns = -1;
	}
	if (e.allow > 0) e.allow--;
	if (!e.persist) e.added = false;
	e.running = true;
	e.ncalls++;
	if (e.kind == 1 && (what & EV_READ)) { char b[64]; ssize_t n = read(fd, b, sizeof b); if (n > 0) e.unread -= std::min<uint64_t>(e.unread, (uint64_t)n); }
	for (int k = 0; k < e.cb_yields && !stop(); k++) thr::yield("inside-callback");
	e.running = false;
	if (!e.persist && e.allow == 0) e.armed = false;	// a non-persistent event is done until its owner arms it again
}

static void far_cb(evutil_socket_t, short, void *) { tr("cb far-timer"); }

static void bev_read_cb(struct bufferevent *bev, void *) {
	struct evbuffer *in = bufferevent_get_input(bev);
	size_t n = evbuffer_get_length(in);
	evbuffer_drain(in, n);
	R->bev_read += n;
	tr("cb bev read %zu", n);
}

static void worker(int w) {
	tr("T%d worker %d starts", thr::self(), w);
	for (int oi : R->ops_of[w]) {
		if (stop()) break;
		const Op &op = R->plan->ops[oi];
		// events this worker owns
		std::vector<int> mine;
		for (int i = 0; i < R->nev; i++) if (R->evs[i].owner == w) mine.push_back(i);
		int ei = mine.empty() ? -1 : mine[(size_t)op.a[0] % mine.size()];
		switch (op.code) {
		case OP_ADD: {
			if (ei < 0) break;
			Ev &e = R->evs[ei];
			int64_t ms = e.persist ? std::max<int64_t>(1, op.a[1]) : op.a[1];
			struct timeval tv = {(time_t)(ms / 1000), (suseconds_t)(ms % 1000) * 1000};
			bool with_tv = e.kind == 0 || (op.a[2] & 1);
			// event_add() on an event that is active at that moment (activated by hand, callback not yet run) leaves the
			// descriptor unregistered (event.c: I/O is inserted only if the event is neither inserted nor active): then nothing
			// is owed for later readability
			bool maybe_active = e.allow > 0 || e.running;
			e.armed = true;
			if (e.allow < 1000) e.allow++;
			int64_t t0 = G.now_ns;
			// obligation (noted before the call: the loop thread may act on it before the call returns here): a timeout added
			// from this thread fires when it is due, not when the loop next wakes up for something else
			if (with_tv) { e.expect_by_ns = t0 + ms * 1000000 + 2000000; e.obligation = "event_add with a timeout"; e.obligation_since = t0; }
			else if (e.kind == 1 && e.unread > 0 && e.expect_by_ns < 0 && !maybe_active) { e.expect_by_ns = t0; e.obligation = "event_add on a readable fd"; e.obligation_since = t0; }
			e.added = !maybe_active;	// (before the call: the loop thread may run and end a non-persistent event before the call returns here)
			int r = API(event_add(e.ev, with_tv ? &tv : nullptr));
			tr("T%d api add ev%d tv=%lld ms -> %d", thr::self(), ei, with_tv ? (long long)ms : -1LL, r);
			if (r != 0) { violation("C09.add-result", "event_add(ev%d) from thread %d returned %d", ei, thr::self(), r); break; }
			R->cross_ops++;
			break;
		}
		case OP_DEL: {
			if (ei < 0) break;
			Ev &e = R->evs[ei];
			int mode = (int)(op.a[1] % 3);
			bool was_running = e.running;
			e.added = false;
			if (was_running) { R->del_while_running++; probe("del-while-callback-running"); }
			int r = mode == 0 ? API(event_del(e.ev)) : mode == 1 ? API(event_del_block(e.ev)) : API(event_del_noblock(e.ev));
			tr("T%d api del ev%d mode=%d -> %d (callback was %srunning)", thr::self(), ei, mode, r, was_running ? "" : "not ");
			R->cross_ops++;
			if (mode != 2) {
				// back from a blocking delete in a thread other than the loop's: the callback is not running and will not start
				if (e.running) violation("C09.del-returned-while-callback-runs", "event_del%s(ev%d) returned in thread %d while the event's callback is still running in the loop thread", mode == 1 ? "_block" : "", ei, thr::self());
				e.armed = false;
				e.allow = 0;
				e.expect_by_ns = -1;
			} else {
				// event_del_noblock promises nothing about a callback the loop thread has already committed to (dequeued, about
				// to call): one more start is tolerated, after it the event counts as deleted
				e.expect_by_ns = -1;
				e.allow = (e.armed || e.allow > 0) ? 1 : 0;
				e.armed = false;
			}
			break;
		}
		case OP_ACTIVE: {
			if (ei < 0) break;
			Ev &e = R->evs[ei];
			e.armed = true;
			if (e.allow < 1000) e.allow++;
			int64_t t0 = G.now_ns;
			if (e.expect_by_ns < 0 || e.expect_by_ns > t0) { e.expect_by_ns = t0; e.obligation = "event_active"; e.obligation_since = t0; }
			event_active(e.ev, EV_TIMEOUT, 1);
			tr("T%d api active ev%d", thr::self(), ei);
			R->cross_ops++;
			break;
		}
		case OP_YIELD: thr::yield("worker"); break;
		case OP_SLEEP: thr::sleep_ns(std::max<int64_t>(0, op.a[1]) * 1000000); break;
		case OP_BEV_WRITE: {
			if (!R->pair[0]) break;
			char buf[256];
			size_t n = 1 + (size_t)(op.a[1] % 256);
			memset(buf, 'x', n);
			int r = API(bufferevent_write(R->pair[0], buf, n));
			if (r == 0) R->bev_written += n;
			tr("T%d api bev_write %zu -> %d", thr::self(), n, r);
			R->cross_ops++;
			break;
		}
		case OP_FD_WRITE: {
			if (ei < 0 || R->evs[ei].kind != 1) break;
			Ev &e = R->evs[ei];
			// registered and about to become readable: the loop has to notice (noted before the write: the loop thread may
			// run the callback before this thread gets any further)
			if (e.added && e.expect_by_ns < 0) { e.expect_by_ns = G.now_ns; e.obligation = "data written to the fd of an added read event"; e.obligation_since = G.now_ns; }
			{ vk::HarnessScope hs; if (write(e.fds[1], "abcd", 4) == 4) e.unread += 4; }
			tr("T%d fd_write ev%d", thr::self(), ei);
			break;
		}
		}
	}
	tr("T%d worker %d ends", thr::self(), w);
}

static void execute(const Plan &p) {
	if (!mon::locks_enabled) { G.nontrivial = false; return; }	// worker classes without locks cannot run threads
	Run run;
	R = &run;
	run.plan = &p;
	thr::run_begin();
	thr::stickiness_pct = (int)p.c("stickiness", 60);
	vk::wait_cap = 2000000;
	// a loop that keeps finding something ready at one and the same instant never lets (virtual) time pass: a busy loop
	static int64_t spin_at; static int spins;
	spin_at = -1; spins = 0;
	vk::hooks.wait_exit = [](int n) {
		if (n > 0 && G.now_ns == spin_at) { if (++spins > 20000 && !stop()) { violation("C09.loop-spins", "the event loop came back from its wait 20000 times in a row with something ready while no time passed and no thread did anything: it no longer blocks (busy loop)"); fflush(stdout); fflush(stderr); _exit(78); } }
		else { spin_at = G.now_ns; spins = 0; }
	};
	struct event_config *cfg = event_config_new();
	static const char *const methods[] = {"epoll", "poll", "select"};
	int meth = (int)(p.c("backend") % 3);
	for (int i = 0; i < 3; i++) if (i != meth) event_config_avoid_method(cfg, methods[i]);
	int fl = EVENT_BASE_FLAG_IGNORE_ENV;
	if (p.c("no_cache_time")) fl |= EVENT_BASE_FLAG_NO_CACHE_TIME;
	event_config_set_flag(cfg, fl);
	run.base = event_base_new_with_config(cfg);
	event_config_free(cfg);
	if (!run.base) { violation("C09.base-new", "no event base"); thr::run_end(); R = nullptr; return; }
	if (evthread_make_base_notifiable(run.base) != 0) { violation("C09.notifiable", "evthread_make_base_notifiable failed"); }
	run.nth = (int)std::max<int64_t>(1, std::min<int64_t>(MAXTH, p.c("nth", 1)));
	run.nev = (int)std::max<int64_t>(1, std::min<int64_t>(MAXEV, p.c("nev", 2)));
	for (int i = 0; i < run.nev; i++) {
		Ev &e = run.evs[i];
		e.owner = i % run.nth;
		e.kind = (int)((p.c("kinds") >> i) & 1);
		e.persist = (p.c("persist") >> i) & 1;
		e.cb_yields = (int)((p.c("cb_yields") >> (2 * i)) & 3);
		if (e.kind == 1) {
			vk::HarnessScope hs;
			if (pipe(e.fds) != 0) e.kind = 0;
			else { evutil_make_socket_nonblocking(e.fds[0]); evutil_make_socket_nonblocking(e.fds[1]); }
		}
		e.ev = event_new(run.base, e.kind == 1 ? e.fds[0] : -1, (short)((e.kind == 1 ? EV_READ : 0) | (e.persist ? EV_PERSIST : 0)), ev_cb, (void *)(intptr_t)i);
	}
	// the unrelated timeout: without a wake-up the loop sleeps for an hour
	run.far_timer = event_new(run.base, -1, EV_PERSIST, far_cb, nullptr);
	struct timeval far = {3600, 0};
	event_add(run.far_timer, &far);
	if (p.c("use_pair")) {
		if (bufferevent_pair_new(run.base, BEV_OPT_THREADSAFE | (p.c("pair_defer") ? BEV_OPT_DEFER_CALLBACKS : 0), run.pair) == 0) {
			bufferevent_setcb(run.pair[1], bev_read_cb, nullptr, nullptr, nullptr);
			bufferevent_enable(run.pair[1], EV_READ);
			bufferevent_enable(run.pair[0], EV_WRITE);
		} else run.pair[0] = run.pair[1] = nullptr;
	}
	run.ops_of.resize(run.nth);
	for (size_t i = 0; i < p.ops.size(); i++) run.ops_of[(size_t)p.ops[i].a[5] % run.nth].push_back((int)i);
	tr("cfg backend=%s nth=%d nev=%d", event_base_get_method(run.base), run.nth, run.nev);

	run.loop_tid = thr::spawn([]() {
		tr("T%d loop starts", thr::self());
		int r = event_base_loop(R->base, EVLOOP_NO_EXIT_ON_EMPTY);
		tr("T%d loop returned %d", thr::self(), r);
		R->loop_done = true;
	});
	for (int w = 0; w < run.nth; w++) thr::spawn([w]() { worker(w); });
	// the main thread: wait for the workers, give the loop the chance to act on what they left, then stop it
	{
		// join the workers only: sleep in small virtual steps until they are done
		for (int guard = 0; guard < 100000; guard++) {
			bool all = true;
			// (threads 3.. are the workers)
			if (thr::nthreads_alive() > 2) all = false;
			if (all) break;
			thr::sleep_ns(1000000);
		}
		// outstanding obligations: the loop thread must get to them without any further time passing than they allow
		thr::sleep_ns(5000000);
		for (int i = 0; i < run.nev && !stop(); i++) {
			Ev &e = run.evs[i];
			if (e.expect_by_ns >= 0 && G.now_ns > e.expect_by_ns + 3000000)
				violation("C09.never-acted-on", "ev%d: %s from thread %d at t=%lld ns: %lld ms later its callback has still not run (the loop sleeps until an unrelated timeout)", i, e.obligation, e.owner + 2, (long long)e.obligation_since, (long long)((G.now_ns - e.obligation_since) / 1000000));
		}
		if (!stop() && run.pair[0]) {
			thr::sleep_ns(5000000);
			if (run.bev_read != run.bev_written) violation("C09.bufferevent-bytes", "%llu bytes written into the pair from other threads, %llu arrived", (unsigned long long)run.bev_written, (unsigned long long)run.bev_read);
		}
		event_base_loopbreak(run.base);
		thr::join_all();
	}
	if (!run.loop_done && !stop()) violation("C09.loop-did-not-stop", "event_base_loopbreak from another thread did not end the loop");
	if (!stop()) shim_base_assert_ok(run.base);
	for (int i = 0; i < run.nev; i++) if (run.evs[i].ev) event_free(run.evs[i].ev);
	event_free(run.far_timer);
	if (run.pair[0]) { bufferevent_free(run.pair[0]); bufferevent_free(run.pair[1]); }
	for (int k = 0; k < 3; k++) event_base_loop(run.base, EVLOOP_NONBLOCK);
	event_base_free(run.base);
	{ vk::HarnessScope hs; for (int i = 0; i < run.nev; i++) if (run.evs[i].kind == 1) { close(run.evs[i].fds[0]); close(run.evs[i].fds[1]); } }
	if (!stop()) {
		if (mon::held() != 0) violation("C08.lock-held-at-end", "%d lock acquisition(s) held at the end", mon::held());
		else if (mon::live_blocks_run() != 0) violation("C10.leak", "%lld block(s) live after teardown: %s", (long long)mon::live_blocks_run(), mon::live_blocks_desc(6).c_str());
	}
	count("sched.switches", (int64_t)thr::switches());
	if (!stop()) G.nontrivial = run.cross_ops > 0 && thr::switches() > 4;
	thr::run_end();
	R = nullptr;
}

static void generate(Plan &p, Rng &r) {
	bool thorough = p.tier == "thorough";
	p.cfg["backend"] = r.below(3);
	p.cfg["nth"] = r.range(1, MAXTH);
	p.cfg["nev"] = r.range(1, MAXEV);
	p.cfg["kinds"] = r.below(64);
	p.cfg["persist"] = r.below(64);
	p.cfg["cb_yields"] = r.below(4096);
	p.cfg["stickiness"] = r.pick(std::vector<int64_t>{0, 30, 60, 90});
	p.cfg["no_cache_time"] = r.chance(0.3);
	p.cfg["use_pair"] = r.chance(0.4);
	p.cfg["pair_defer"] = r.chance(0.5);
	int nops = thorough ? (int)r.range(4, 80) : (int)r.range(3, 30);
	for (int i = 0; i < nops; i++) {
		Op o;
		int x = (int)r.below(100);
		if (x < 25) { o.code = OP_ADD; o.a[1] = r.pick(std::vector<int64_t>{0, 1, 5, 50, 1000}); o.a[2] = r.below(2); }
		else if (x < 45) { o.code = OP_DEL; o.a[1] = r.below(3); }
		else if (x < 65) o.code = OP_ACTIVE;
		else if (x < 75) o.code = OP_YIELD;
		else if (x < 83) { o.code = OP_SLEEP; o.a[1] = r.pick(std::vector<int64_t>{0, 1, 3, 20}); }
		else if (x < 92) { o.code = OP_FD_WRITE; }
		else { o.code = OP_BEV_WRITE; o.a[1] = r.below(256); }
		o.a[0] = r.below(MAXEV);
		o.a[5] = r.below(MAXTH);
		p.ops.push_back(o);
	}
}

static std::vector<int64_t> cfg_simpler(const std::string &key, int64_t cur) {
	if (key == "nth" || key == "nev") return cur > 1 ? std::vector<int64_t>{1} : std::vector<int64_t>{};
	if (cur != 0) return {0};
	return {};
}

static void process_init(int cls) {
	(void)cls;
	struct event_base *b = event_base_new();
	struct bufferevent *pr[2];
	if (bufferevent_pair_new(b, 0, pr) == 0) { bufferevent_free(pr[0]); bufferevent_free(pr[1]); }
	event_base_loop(b, EVLOOP_NONBLOCK);
	event_base_free(b);
}

int main(int argc, char **argv) {
	static Harness h = {"h_thr", opnames, OP_N, generate, execute, cfg_simpler, process_init};
	return harness_main(argc, argv, h);
}
