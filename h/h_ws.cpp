// H5w: WebSocket harness — C31 (frames are decoded into exactly the sent messages). World S: an evhttp server on a
// simulated listening socket whose generic callback upgrades every request with evws_new_session(); scripted clients
// do the opening handshake, wait for the 101 response, then send frame streams from a grammar of valid and adversarial
// frames under a plan-chosen segmentation; a twin connection carries the same bytes cut differently. The messages the
// callback receives are compared with the reference reading (ref/ws6455.hpp) of the bytes that were sent.
#include <algorithm>
#include <cerrno>
#include <cstring>
#include <deque>
#include <map>
#include <set>
#include <sys/socket.h>
#include <netinet/in.h>
#include <unistd.h>
#include <event2/event.h>
#include <event2/buffer.h>
#include <event2/bufferevent.h>
#include <event2/http.h>
#include <event2/ws.h>
#include <event2/util.h>
#include "sim/sim.hpp"
#include "vk/vk.hpp"
#include "mon/mon.hpp"
#include "ref/ws6455.hpp"

using namespace sim;

enum { OP_FRAMES, OP_SEND, OP_LOOP, OP_ADVANCE, OP_CLIENT_CLOSE, OP_SCRIPT, OP_N };
static const char *const opnames[OP_N] = {"frames", "send", "loop", "advance", "client_close", "script"};

#define NCONN 4
static const uint64_t MAX_FRAME = 10485760;	// ws.c: WS_MAX_RECV_FRAME_SZ

struct Msg { int type; std::string payload; };
struct Script { int act = 0; int64_t p = 0; };	// what the message callback does: 0 nothing, 1 echo, 2 evws_close, 3 send binary

struct WConn {
	vk::Endpoint *ep = nullptr;
	bool open = false, connecting = false, closed_by_server = false, closed_by_client = false, was_reset = false, upgraded = false;
	std::string frames;		// the frame stream queued for this connection (after the handshake)
	size_t sent = 0;		// how much of it has been handed to the network
	int twin_of = -1;
	uint64_t cutseed = 0;
	std::string in;			// bytes received from the server
	int port = 0;
	struct evws_connection *evws = nullptr;
	std::vector<Msg> delivered;
	int closecb = 0;
	bool app_closed = false;	// the message callback called evws_close
	size_t delivered_at_app_close = 0;
	bool session_refused = false;
};

struct Run {
	const Plan *plan = nullptr;
	struct event_base *base = nullptr;
	struct evhttp *http = nullptr;
	WConn wc[NCONN];
	std::deque<Script> scripts;
	std::map<std::pair<int, size_t>, Script> chosen;	// twins are treated alike: (group, message index) -> script
	int compared = 0, sessions = 0;
	bool base_gone = false, http_gone = false;
};
static Run *R;

#define V(...) violation(__VA_ARGS__)

static std::string esc(const std::string &s, size_t max = 40) {
	std::string o;
	for (size_t i = 0; i < s.size() && i < max; i++) { unsigned char c = s[i]; if (c < 0x20 || c >= 0x7f || c == '\\') { char b[8]; snprintf(b, sizeof b, "\\x%02x", c); o += b; } else o += c; }
	if (s.size() > max) o += "...(" + std::to_string(s.size()) + ")";
	return o;
}

static void send_more(int ci, size_t upto);

static void on_close(struct evws_connection *evws, void *arg) {
	int ci = (int)(intptr_t)arg;
	if (!R) return;
	WConn &c = R->wc[ci];
	tr("cb close conn=%d", ci);
	c.closecb++;
	if (c.closecb > 1) V("C31.close-callback-twice", "connection %d: close callback number %d", ci, c.closecb);
	c.evws = nullptr;
	(void)evws;
}

static void on_msg(struct evws_connection *evws, int type, const unsigned char *data, size_t len, void *arg) {
	int ci = (int)(intptr_t)arg;
	if (!R) return;
	WConn &c = R->wc[ci];
	tr("cb message conn=%d type=%d len=%zu", ci, type, len);
	if (stop()) return;
	if (R->http_gone) { V("C31.message-after-free", "connection %d: message callback after evhttp_free", ci); return; }
	if (c.closecb) { V("C31.message-after-close", "connection %d: a %zu-byte message of type %d was delivered after the close callback had run", ci, len, type); return; }
	if (c.app_closed) { V("C31.message-after-close", "connection %d: a %zu-byte message of type %d was delivered after the application had called evws_close", ci, len, type); return; }
	Msg m; m.type = type; m.payload.assign((const char *)data, len);
	size_t idx = c.delivered.size();
	c.delivered.push_back(m);
	// what the application does with it (twins alike)
	Script sc;
	auto key = std::make_pair(c.twin_of >= 0 ? c.twin_of : ci, idx);
	auto it = R->chosen.find(key);
	if (it != R->chosen.end()) sc = it->second;
	else { if (!R->scripts.empty()) { sc = R->scripts.front(); R->scripts.pop_front(); } R->chosen[key] = sc; }
	switch (sc.act) {
	case 1: { std::string t(m.payload.c_str()); APIV(evws_send_text(evws, t.c_str())); probe("echo"); break; }
	case 2: APIV(evws_close(evws, (uint16_t)(1000 + sc.p % 12))); c.app_closed = true; c.delivered_at_app_close = c.delivered.size(); probe("app-close-in-callback"); break;
	case 3: { std::string b((size_t)(sc.p % 70000), 'w'); APIV(evws_send_binary(evws, b.data(), b.size())); probe("send-binary"); break; }
	default: break;
	}
}

static void gen_cb(struct evhttp_request *req, void *) {
	if (!R) return;
	struct evhttp_connection *evcon = evhttp_request_get_connection(req);
	char *addr = nullptr;
	ev_uint16_t port = 0;
	if (evcon) evhttp_connection_get_peer(evcon, (const char **)&addr, &port);
	int ci = -1;
	for (int i = 0; i < NCONN; i++) if (R->wc[i].port == port && R->wc[i].ep) ci = i;
	tr("cb request conn=%d '%s'", ci, evhttp_request_get_uri(req) ? evhttp_request_get_uri(req) : "");
	if (ci < 0 || stop()) { evhttp_send_error(req, 500, nullptr); return; }
	WConn &c = R->wc[ci];
	struct evws_connection *evws = API(evws_new_session(req, on_msg, (void *)(intptr_t)ci, 0));
	if (!evws) { c.session_refused = true; probe("session-refused"); return; }
	c.evws = evws;
	R->sessions++;
	evws_connection_set_closecb(evws, on_close, (void *)(intptr_t)ci);
}

static void wconn_connect(int ci) {
	WConn &c = R->wc[ci];
	if (c.open || c.connecting || c.closed_by_server || c.closed_by_client) return;
	sockaddr_in sa = vk::addr4(0x7f000001, 8080);
	vk::EndpointCbs cb;
	cb.on_connected = [ci](vk::Endpoint *e) {
		WConn &c = R->wc[ci]; c.open = true; c.connecting = false; c.port = vk::ep_local_port(e);
		std::string hs = "GET /ws" + std::to_string(ci) + " HTTP/1.1\r\nHost: t\r\nUpgrade: websocket\r\nConnection: Upgrade\r\nSec-WebSocket-Key: dGhlIHNhbXBsZSBub25jZQ==\r\nSec-WebSocket-Version: 13\r\n\r\n";
		vk::ep_send(e, hs);
	};
	cb.on_connect_failed = [ci](vk::Endpoint *, int) { R->wc[ci].connecting = false; R->wc[ci].closed_by_server = true; };
	cb.on_data = [ci](vk::Endpoint *, const std::string &d) {
		WConn &c = R->wc[ci];
		c.in += d;
		if (!c.upgraded && c.in.find("\r\n\r\n") != std::string::npos) {
			if (c.in.compare(0, 12, "HTTP/1.1 101") == 0) { c.upgraded = true; c.in.erase(0, c.in.find("\r\n\r\n") + 4); tr("client%d: upgraded", ci); }
		}
	};
	cb.on_eof = [ci](vk::Endpoint *e) { WConn &c = R->wc[ci]; c.closed_by_server = true; c.open = false; vk::ep_close(e); tr("client%d: server closed", ci); };
	cb.on_reset = [ci](vk::Endpoint *) { WConn &c = R->wc[ci]; c.closed_by_server = true; c.was_reset = true; c.open = false; tr("client%d: reset", ci); };
	c.connecting = true;
	c.ep = vk::ep_connect((sockaddr *)&sa, sizeof sa, cb);
}

static void send_more(int ci, size_t upto) {
	WConn &c = R->wc[ci];
	if (!c.open || !c.upgraded || c.sent >= upto) return;
	std::string part = c.frames.substr(c.sent, upto - c.sent);
	std::vector<size_t> cuts;
	int mode = (int)(c.cutseed % 5);
	for (size_t k = 1; k < part.size(); k++) {
		uint64_t h = mix(c.cutseed, c.sent + k);
		bool big = part.size() > 4000;	// long payloads are cut more sparsely, or a run is mostly segments
		bool cut = mode == 0 ? false : mode == 1 ? !big : mode == 2 ? h % (big ? 97 : 3) == 0 : mode == 3 ? h % (big ? 1021 : 17) == 0 : h % 257 == 0;
		if (cut) cuts.push_back(k);
	}
	vk::ep_send_cut(c.ep, part, cuts, 1000);
	c.sent = upto;
}

// frames from the grammar (valid and adversarial); the reference decides what they mean
static std::string make_frames(int shape, int64_t p, Rng &r) {
	auto body = [&](size_t n) { std::string b(n, 'x'); for (size_t i = 0; i < n; i++) b[i] = (char)('a' + (i * 7 + (size_t)p) % 26); return b; };
	bool masked = p % 5 != 0;	// unmasked client frames are tolerated by this implementation (and by the property)
	uint32_t key = (uint32_t)mix64((uint64_t)p);
	(void)r;
	switch (shape % 24) {
	case 0: return ws::frame(true, 0, ws::OP_TEXT, masked, key, body((size_t)(p % 100)), 0);
	case 1: return ws::frame(true, 0, ws::OP_BIN, masked, key, body((size_t)(p % 100)), 0);
	case 2: return ws::frame(true, 0, ws::OP_TEXT, masked, key, body(125 + (size_t)(p % 3)), 0);				// around the 7/16-bit boundary
	case 3: return ws::frame(true, 0, ws::OP_BIN, masked, key, body(65534 + (size_t)(p % 3)), 0);				// around the 16/64-bit boundary
	case 4: return ws::frame(false, 0, ws::OP_TEXT, masked, key, body((size_t)(p % 50)), 0) + ws::frame(true, 0, ws::OP_CONT, masked, key + 1, body((size_t)(p % 30)), 0);	// two fragments
	case 5: return ws::frame(false, 0, ws::OP_BIN, masked, key, body(10), 0) + ws::frame(false, 0, ws::OP_CONT, masked, key + 1, body(0), 0) + ws::frame(false, 0, ws::OP_CONT, masked, key + 2, body(200), 0) + ws::frame(true, 0, ws::OP_CONT, masked, key + 3, body(3), 0);
	case 6: return ws::frame(false, 0, ws::OP_TEXT, masked, key, body(5), 0) + ws::frame(true, 0, ws::OP_PING, masked, key, "hi", 0) + ws::frame(true, 0, ws::OP_CONT, masked, key, body(6), 0);	// control frame inside a fragmented message
	case 7: return ws::frame(true, 0, ws::OP_PING, masked, key, body((size_t)(p % 126)), 0);
	case 8: return ws::frame(true, 0, ws::OP_PONG, masked, key, "", 0);
	case 9: return ws::frame(true, 0, ws::OP_CLOSE, masked, key, std::string("\x03\xe8", 2), 0);
	case 10: return ws::frame(true, 0, ws::OP_CONT, masked, key, body(4), 0);							// continuation with nothing under way
	case 11: return ws::frame(false, 0, ws::OP_TEXT, masked, key, body(4), 0) + ws::frame(true, 0, ws::OP_TEXT, masked, key, body(4), 0);	// new message inside a fragmented one
	case 12: return ws::frame(true, 0, 3 + (unsigned)(p % 5), masked, key, body(2), 0);						// reserved data opcode
	case 13: return ws::frame(true, 0, 0xb + (unsigned)(p % 5), masked, key, body(2), 0);						// reserved control opcode
	case 14: return ws::frame(false, 0, ws::OP_PING, masked, key, "x", 0);								// fragmented control frame
	case 15: return ws::frame(true, 0, ws::OP_BIN, masked, key, "", 2, MAX_FRAME + 1 + (uint64_t)(p % 1000));			// announces more than the limit (no payload follows)
	case 16: return ws::frame(true, 0x40 >> (p % 3), ws::OP_TEXT, masked, key, body(3), 0);						// reserved bits
	case 17: return ws::frame(true, 0, ws::OP_TEXT, masked, key, body((size_t)(p % 100)), 1);					// non-minimal 16-bit length
	case 18: return ws::frame(true, 0, ws::OP_BIN, masked, key, body((size_t)(p % 300)), 2);						// non-minimal 64-bit length
	case 19: return ws::frame(true, 0, ws::OP_TEXT, true, 0, body(20), 0);								// all-zero masking key
	case 20: return ws::frame(true, 0, ws::OP_BIN, masked, key, std::string("\0\xff\x81\x00zz", 6), 0);				// binary bytes incl. NUL
	case 21: return ws::frame(true, 0, ws::OP_TEXT, masked, key, "", 0);								// empty message
	case 22: return ws::frame(false, 0, ws::OP_BIN, masked, key, body(70000), 0) + ws::frame(true, 0, ws::OP_CONT, masked, key, body(70000), 0);	// large fragments
	default: return ws::frame(true, 0, ws::OP_PING, masked, key, body(126), 0);							// control frame longer than 125 bytes
	}
}

static void check_conn(int ci) {
	WConn &c = R->wc[ci];
	if (!c.upgraded || c.sent == 0) return;
	ws::Reading rd = ws::read_stream(c.frames.substr(0, c.sent), MAX_FRAME);
	size_t k = 0;
	bool must_close = false, judged_all = true;
	std::string close_why;
	for (auto &e : rd.ev) {
		if (e.kind == ws::Event::EITHER) { judged_all = false; probe("either-frame"); break; }
		if (e.kind == ws::Event::FAIL) { must_close = true; close_why = e.why; break; }
		if (e.kind == ws::Event::CLOSE) { must_close = true; close_why = "the client's close frame"; break; }
		if (c.app_closed && k >= c.delivered_at_app_close) break;	// the application closed the session: nothing more is owed
		if (k >= c.delivered.size()) {
			if (!c.closed_by_client && !G.capped) V("C31.message-not-delivered", "connection %d: message %zu of the stream (%s, %zu bytes, completed by the frame at offset %zu) never reached the callback; %zu messages were delivered, %zu of %zu stream bytes sent", ci, k, e.type == 1 ? "text" : "binary", e.payload.size(), e.at, c.delivered.size(), c.sent, c.frames.size());
			return;
		}
		const Msg &d = c.delivered[k];
		R->compared++;
		if (d.type != e.type || d.payload != e.payload) {
			V("C31.message-differs", "connection %d, message %zu: the callback got type %d with %zu bytes '%s', the stream says type %d with %zu bytes '%s' (frame at offset %zu)", ci, k, d.type, d.payload.size(), esc(d.payload).c_str(), e.type, e.payload.size(), esc(e.payload).c_str(), e.at);
			return;
		}
		k++;
	}
	if (judged_all && c.delivered.size() > k) {
		V("C31.extra-message", "connection %d: %zu messages were delivered, the stream of %zu bytes holds %zu%s; message %zu has type %d and %zu bytes '%s'", ci, c.delivered.size(), c.sent, k, must_close ? (" before " + close_why).c_str() : "", k, c.delivered[k].type, c.delivered[k].payload.size(), esc(c.delivered[k].payload).c_str());
		return;
	}
	if (judged_all && must_close && !c.closed_by_client && !G.capped && !c.closed_by_server && !c.closecb) {
		V("C31.not-closed", "connection %d: after %s the connection has to be closed; it is still open (close callback not run, socket open)", ci, close_why.c_str());
		return;
	}
	if (must_close) probe("stream-ends-connection");
}

static void check_twins() {
	for (int i = 0; i < NCONN; i++) {
		WConn &a = R->wc[i];
		if (a.twin_of < 0) continue;
		WConn &b = R->wc[a.twin_of];
		if (a.sent != b.sent || a.closed_by_client || b.closed_by_client || !a.upgraded || !b.upgraded) continue;
		probe("twin-compared");
		if (a.delivered.size() != b.delivered.size()) { V("C31.segmentation-dependent", "connections %d and %d carried the same %zu bytes cut differently; %zu messages were delivered on one, %zu on the other", a.twin_of, i, a.sent, b.delivered.size(), a.delivered.size()); return; }
		for (size_t k = 0; k < a.delivered.size(); k++) if (a.delivered[k].type != b.delivered[k].type || a.delivered[k].payload != b.delivered[k].payload) {
			V("C31.segmentation-dependent", "connections %d and %d carried the same %zu bytes cut differently; message %zu differs (%zu vs %zu bytes)", a.twin_of, i, a.sent, k, b.delivered[k].payload.size(), a.delivered[k].payload.size());
			return;
		}
	}
}

static void exec_op(const Op &op, Rng &r) {
	if (stop() || G.capped) return;
	switch (op.code) {
	case OP_FRAMES: {
		int ci = (int)(op.a[0] % NCONN);
		if (R->wc[ci].twin_of >= 0) ci = R->wc[ci].twin_of;
		WConn &m = R->wc[ci];
		if (m.closed_by_client || m.frames.size() > 600000) break;
		int shape = (int)(op.a[1] % 24);
		if (shape == 11 && suppressed("data-frame-inside-fragmented-message")) { probe("known:data-frame-inside-fragmented-message"); shape = 4; }
		std::string f = make_frames(shape, op.a[2], r);
		m.frames += f;
		for (int t = 0; t < NCONN; t++) if (R->wc[t].twin_of == ci) R->wc[t].frames += f;
		break;
	}
	case OP_SEND: {
		int ci = (int)(op.a[0] % NCONN);
		if (R->wc[ci].twin_of >= 0) ci = R->wc[ci].twin_of;
		for (int t = 0; t < NCONN; t++) if (t == ci || R->wc[t].twin_of == ci) {
			WConn &c = R->wc[t];
			if (c.closed_by_client) continue;
			size_t upto = op.a[1] % 4 == 0 ? c.sent + (size_t)(op.a[2] % (c.frames.size() - c.sent + 1)) : c.frames.size();
			if (!c.open) { wconn_connect(t); continue; }
			send_more(t, upto);
		}
		break;
	}
	case OP_LOOP: {
		int iters = (int)std::max<int64_t>(1, op.a[0] % 40);
		for (int k = 0; k < iters && !stop() && !G.capped; k++) {
			int rr = event_base_loop(R->base, EVLOOP_ONCE | EVLOOP_NONBLOCK);
			if (rr < 0) break;
			if (vk::events_pending()) vk::advance_running(std::max<int64_t>(0, std::min<int64_t>(vk::next_event_time() - G.now_ns, 50000000)));
			else break;
		}
		break;
	}
	case OP_ADVANCE: vk::advance_running(std::max<int64_t>(0, op.a[0]) * 1000000); break;
	case OP_CLIENT_CLOSE: {
		int ci = (int)(op.a[0] % NCONN);
		WConn &c = R->wc[ci];
		if (!c.open) break;
		c.open = false; c.closed_by_client = true;
		for (int t = 0; t < NCONN; t++) if (R->wc[t].twin_of == ci) R->wc[t].closed_by_client = true;
		if (c.twin_of >= 0) R->wc[c.twin_of].closed_by_client = true;
		if (op.a[1] & 1) vk::ep_reset(c.ep); else { vk::ep_shutdown(c.ep); vk::ep_close(c.ep); }
		probe("client-closed");
		break;
	}
	case OP_SCRIPT: {
		Script s; s.act = (int)(op.a[0] % 4); s.p = op.a[1];
		if (R->scripts.size() < 64) R->scripts.push_back(s);
		break;
	}
	}
}

static void execute(const Plan &p) {
	Run run;
	R = &run;
	run.plan = &p;
	Rng r(p.seed ^ 0x5157);
	vk::net.sim_sockets = true;
	vk::net.lat_min_ns = p.c("lat_min_us", 100) * 1000;
	vk::net.lat_max_ns = p.c("lat_max_us", 100) * 1000;
	vk::net.connect_lat_ns = p.c("connect_lat_us", 100) * 1000;
	vk::net.sockbuf = (size_t)p.c("sockbuf", 65536);
	vk::wait_cap = 600000;
	static const struct { const char *k; vk::Site s; } sites[] = {
		{"f_read_short", vk::S_READ_SHORT}, {"f_write_short", vk::S_WRITE_SHORT}, {"f_read_eagain", vk::S_READ_EAGAIN}, {"f_write_eagain", vk::S_WRITE_EAGAIN},
	};
	for (auto &s : sites) if (p.c(s.k)) vk::set_fault(s.s, (int)p.c(s.k));
	vk::hooks.capped = []() { if (R && R->base) event_base_loopbreak(R->base); };
	struct event_config *cfg = event_config_new();
	static const char *const methods_[] = {"epoll", "poll", "select"};
	int meth = (int)(p.c("backend") % 3);
	for (int i = 0; i < 3; i++) if (i != meth) event_config_avoid_method(cfg, methods_[i]);
	event_config_set_flag(cfg, EVENT_BASE_FLAG_IGNORE_ENV);
	run.base = event_base_new_with_config(cfg);
	event_config_free(cfg);
	if (!run.base) { violation("C31.base-new", "no event base"); R = nullptr; return; }
	run.http = API(evhttp_new(run.base));
	if (!run.http || evhttp_bind_socket(run.http, "127.0.0.1", 8080) != 0) { violation("C31.setup", "cannot start the HTTP server"); if (run.http) evhttp_free(run.http); event_base_free(run.base); R = nullptr; return; }
	evhttp_set_gencb(run.http, gen_cb, nullptr);
	for (int i = 0; i < NCONN; i++) { run.wc[i].cutseed = mix((uint64_t)p.c("cutseed"), i); run.wc[i].twin_of = (i % 2 == 1 && p.c("twins")) ? i - 1 : -1; }
	tr("cfg backend=%s", event_base_get_method(run.base));

	for (auto &op : p.ops) { if (stop() || G.capped) break; exec_op(op, r); }

	// settle: everything queued is sent (after the handshake), the loop runs until the simulated network is quiet
	if (!stop() && !G.capped) {
		for (int s = 0; s < vk::S_NSITES; s++) vk::set_fault((vk::Site)s, 0);
		for (int t = 0; t < NCONN; t++) { WConn &c = run.wc[t]; if (!c.frames.empty() && !c.closed_by_client && !c.open) wconn_connect(t); }
		for (int k = 0; k < 400000 && !stop() && !G.capped; k++) {
			for (int t = 0; t < NCONN; t++) if (run.wc[t].open) send_more(t, run.wc[t].frames.size());
			event_base_loop(run.base, EVLOOP_NONBLOCK);
			if (!vk::events_pending()) { bool more = false; for (int t = 0; t < NCONN; t++) if (run.wc[t].connecting) more = true; if (!more) break; }
			vk::advance_running(std::max<int64_t>(0, std::min<int64_t>(vk::next_event_time() - G.now_ns, 1000000)));
		}
		for (int k = 0; k < 5; k++) event_base_loop(run.base, EVLOOP_NONBLOCK);
		for (int t = 0; t < NCONN && !stop(); t++) check_conn(t);
		if (!stop()) check_twins();
	}
	// teardown: evhttp_free closes the sessions that are still open (their close callbacks run)
	evhttp_free(run.http);
	run.http_gone = true;
	for (int k = 0; k < 4; k++) event_base_loop(run.base, EVLOOP_NONBLOCK);
	if (!stop()) for (int t = 0; t < NCONN; t++) if (run.wc[t].evws) { V("C31.session-not-closed", "connection %d: its WebSocket session was neither closed nor freed by evhttp_free (no close callback)", t); break; }
	if (mon::locks_enabled && mon::held() != 0 && !stop()) violation("C08.lock-held-at-end", "%d lock acquisition(s) held at the end", mon::held());
	event_base_free(run.base);
	run.base = nullptr;
	run.base_gone = true;
	if (!stop() && !G.capped) {
		if (mon::live_blocks_run() != 0) violation("C31.leak", "%lld block(s) allocated by the library still live after evhttp_free and event_base_free: %s", (long long)mon::live_blocks_run(), mon::live_blocks_desc(6).c_str());
		else if (vk::open_fd_count_lib() != 0) violation("C31.fd-leak", "library fds still open: %s", vk::open_fd_list_lib().c_str());
	}
	if (!stop()) G.nontrivial = run.compared > 0 || run.sessions > 0;
	R = nullptr;
}

static void generate(Plan &p, Rng &r) {
	bool thorough = p.tier == "thorough";
	p.cfg["backend"] = r.below(3);
	p.cfg["lat_min_us"] = r.pick(std::vector<int64_t>{1, 100, 5000});
	p.cfg["lat_max_us"] = p.cfg["lat_min_us"] + (r.chance(0.5) ? 0 : (int64_t)r.below(20000));
	p.cfg["connect_lat_us"] = r.pick(std::vector<int64_t>{0, 100, 5000});
	p.cfg["sockbuf"] = r.pick(std::vector<int64_t>{64, 1024, 65536, 1048576});
	if (r.chance(0.3)) {
		static const char *ks[] = {"f_read_short", "f_write_short", "f_read_eagain", "f_write_eagain"};
		for (auto k : ks) if (r.chance(0.4)) p.cfg[k] = r.pick(std::vector<int64_t>{10, 50, 200});
	}
	p.cfg["twins"] = r.chance(0.7);
	p.cfg["cutseed"] = r.below(1000000);
	int nops = thorough ? (int)r.range(6, 70) : (int)r.range(3, 30);
	for (int i = 0; i < nops; i++) {
		Op o;
		int x = (int)r.below(100);
		if (x < 45) { o.code = OP_FRAMES; o.a[0] = r.below(NCONN); o.a[1] = r.chance(0.5) ? r.below(9) : r.below(24); o.a[2] = r.below(100000); }
		else if (x < 65) { o.code = OP_SEND; o.a[0] = r.below(NCONN); o.a[1] = r.below(4); o.a[2] = r.below(100000); }
		else if (x < 83) { o.code = OP_LOOP; o.a[0] = r.range(1, 30); }
		else if (x < 87) { o.code = OP_ADVANCE; o.a[0] = r.pick(std::vector<int64_t>{1, 1000, 60000}); }
		else if (x < 90) { o.code = OP_CLIENT_CLOSE; o.a[0] = r.below(NCONN); o.a[1] = r.below(2); }
		else { o.code = OP_SCRIPT; o.a[0] = r.chance(0.5) ? 0 : r.below(4); o.a[1] = r.below(100000); }
		p.ops.push_back(o);
	}
}

static std::vector<int64_t> cfg_simpler(const std::string &key, int64_t cur) {
	if (key == "lat_min_us" || key == "lat_max_us" || key == "connect_lat_us") return cur != 100 ? std::vector<int64_t>{100} : std::vector<int64_t>{};
	if (key == "sockbuf") return cur != 65536 ? std::vector<int64_t>{65536} : std::vector<int64_t>{};
	if (cur != 0) return {0};
	return {};
}

static void process_init(int cls) {
	(void)cls;
	struct event_base *b = event_base_new();
	struct evhttp *h = evhttp_new(b);
	if (h) evhttp_free(h);
	event_base_free(b);
}

int main(int argc, char **argv) {
	static Harness h = {"h_ws", opnames, OP_N, generate, execute, cfg_simpler, process_init};
	return harness_main(argc, argv, h);
}
