#include "mon.hpp"
#include <cstdlib>
#include <cstring>
#include <map>
#include <unordered_map>
#include <vector>
#include <algorithm>
#include <unistd.h>
#include <event2/event.h>
#include <event2/thread.h>

using sim::G;

namespace mon {

// ---------------------------------------------------------------------------
// allocmon
struct Blk { uint64_t seq; size_t sz; };
static std::unordered_map<void *, Blk> ledger;
static uint64_t seq, run_seq0, fail_countdown, fails_fired;
static bool fail_sticky, fail_armed;
static bool in_run;

uint64_t alloc_count() { return seq - run_seq0; }
uint64_t block_seq(void *p) { auto it = ledger.find(p); return it == ledger.end() ? 0 : it->second.seq; }
bool debug_mode_on = false;
// In debug mode libevent keeps one 24-byte map entry per event it has seen until
// libevent_global_shutdown(); a few internal events (signalfd helper events, once-events freed
// by event_base_free) are released without removing theirs. The property promises an empty heap
// after event_base_free AND libevent_global_shutdown, so these entries are checked at process
// exit (mon_process_exit_live), not per run.
// The map's bucket array (ht-internal.h: 53, 97, 193, ... pointers) grows with the number of entries and is
// process-lifetime state as well; it is recognised by its size, in debug-mode worker classes only.
static bool ht_table_size(size_t sz) {
	static const size_t primes[] = {53, 97, 193, 389, 769, 1543, 3079, 6151, 12289, 24593, 49157, 98317, 196613};
	for (size_t p : primes) if (sz == p * sizeof(void *)) return true;
	return false;
}
static bool tolerated(const Blk &b) { return debug_mode_on && (b.sz == 24 || ht_table_size(b.sz)); }
int64_t live_blocks_run() {
	int64_t n = 0;
	for (auto &kv : ledger) if (kv.second.seq > run_seq0 && !tolerated(kv.second)) n++;
	return n;
}
int64_t live_blocks_total() { return (int64_t)ledger.size(); }
std::string live_blocks_desc(int max) {
	std::vector<Blk> v;
	for (auto &kv : ledger) if (kv.second.seq > run_seq0 && !tolerated(kv.second)) v.push_back(kv.second);
	std::sort(v.begin(), v.end(), [](const Blk &a, const Blk &b) { return a.seq < b.seq; });
	std::string s;
	for (size_t i = 0; i < v.size() && (int)i < max; i++) {
		char b[48];
		snprintf(b, sizeof b, "%s#%llu:%zuB", i ? "," : "", (unsigned long long)(v[i].seq - run_seq0), v[i].sz);
		s += b;
	}
	return s;
}
void alloc_fail_at(uint64_t k, bool sticky) { fail_armed = k > 0; fail_countdown = k; fail_sticky = sticky; }
void alloc_fail_clear() { fail_armed = false; fail_countdown = 0; fail_sticky = false; }
uint64_t alloc_failures_fired() { return fails_fired; }
void alloc_baseline() { run_seq0 = seq; }

static bool should_fail() {
	if (!fail_armed) return false;
	if (fail_countdown > 1) { fail_countdown--; return false; }
	if (!fail_sticky) fail_armed = false;
	fail_countdown = 1;
	fails_fired++;
	if (in_run) { sim::fault("alloc"); sim::tr("mem allocation #%llu failed", (unsigned long long)(seq - run_seq0)); }
	return true;
}
extern "C" void __sanitizer_print_stack_trace(void);
static uint64_t trap_seq() { static uint64_t t = getenv("MON_TRAP") ? strtoull(getenv("MON_TRAP"), nullptr, 10) : 0; return t; }
static void *m_malloc(size_t sz) {
	seq++;
	if (trap_seq() && seq - run_seq0 == trap_seq()) { fprintf(stderr, "MON_TRAP allocation #%llu size %zu\n", (unsigned long long)trap_seq(), sz); __sanitizer_print_stack_trace(); }
	if (should_fail()) { errno = ENOMEM; return nullptr; }
	void *p = malloc(sz);
	if (p) ledger[p] = Blk{seq, sz};
	return p;
}
static void *m_realloc(void *old, size_t sz) {
	if (!old) return m_malloc(sz);
	if (sz == 0) {	// libevent's mm_realloc with 0: treated as free by its wrappers before reaching us
		ledger.erase(old);
		free(old);
		return nullptr;
	}
	seq++;
	if (should_fail()) { errno = ENOMEM; return nullptr; }
	auto it = ledger.find(old);
	Blk b{seq, sz};
	if (it != ledger.end()) { b.seq = it->second.seq; ledger.erase(it); }
	void *p = realloc(old, sz);
	if (p) ledger[p] = b;
	return p;
}
static void m_free(void *p) {
	if (!p) return;
	auto it = ledger.find(p);
	if (it == ledger.end()) {
		sim::violation((sim::g_prop + ".free-unknown-block").c_str(), "free of a block the allocator never handed out");
	} else ledger.erase(it);
	free(p);
}

// ---------------------------------------------------------------------------
// lockmon
bool locks_enabled = false;
bool strict_api_check = true;
ThreadHooks th;
struct SLock {
	int id;
	unsigned type;
	int owner = -1;
	int count = 0;
	bool alive = true;
};
struct SCond { int id; };
static int next_lock_id = 1, alive_locks = 0;
static std::map<int, int> held_by;	// tid -> acquisitions held

static int tid() { return th.tid ? th.tid() : 1; }
int held() { auto it = held_by.find(tid()); return it == held_by.end() ? 0 : it->second; }
int locks_alive() { return alive_locks; }
bool lock_is_free(void *l) { return ((SLock *)l)->owner == -1; }
int lock_owner(void *l) { return ((SLock *)l)->owner; }
int lock_id(void *l) { return ((SLock *)l)->id; }
void lock_force_release_all(void *l_, int *saved) {
	SLock *l = (SLock *)l_;
	*saved = l->count;
	held_by[l->owner] -= l->count;
	l->count = 0;
	l->owner = -1;
}
void lock_force_acquire(void *l_, int t, int count) {
	SLock *l = (SLock *)l_;
	l->owner = t;
	l->count = count;
	held_by[t] += count;
}

static const char *c08(const char *r) { static std::string s; s = std::string("C08.") + r; return s.c_str(); }

void lock_api_check(int before, const char *what) {
	if (!locks_enabled || !strict_api_check) return;
	int now = held();
	if (now != before)
		sim::violation(c08("lock-imbalance"), "%s returned holding %d lock acquisition(s), entered with %d", what, now, before);
}

static void *l_alloc(unsigned type) {
	SLock *l = new SLock();
	l->id = next_lock_id++;
	l->type = type;
	alive_locks++;
	return l;
}
static void l_free(void *l_, unsigned type) {
	SLock *l = (SLock *)l_;
	(void)type;
	if (l->owner != -1) sim::violation(c08("free-held-lock"), "lock %d freed while held by thread %d", l->id, l->owner);
	alive_locks--;
	delete l;
}
static int l_lock(unsigned mode, void *l_) {
	SLock *l = (SLock *)l_;
	int t = tid();
	if (th.yield) th.yield("lock");
	if (l->owner == t) {
		if (!(l->type & EVTHREAD_LOCKTYPE_RECURSIVE)) {
			if (mode & EVTHREAD_TRY) return 1;
			sim::violation(c08("reenter-nonrecursive"), "thread %d re-acquires non-recursive lock %d it already holds", t, l->id);
		}
		l->count++;
		held_by[t]++;
		return 0;
	}
	while (l->owner != -1) {
		if (mode & EVTHREAD_TRY) return 1;
		if (th.block_on_lock) th.block_on_lock(l);
		else {
			sim::violation(c08("deadlock"), "thread %d blocks on lock %d held by thread %d with no other runnable thread", t, l->id, l->owner);
			l->owner = -1;	// keep the run going to its end
			l->count = 0;
		}
	}
	l->owner = t;
	l->count = 1;
	held_by[t]++;
	return 0;
}
static int l_unlock(unsigned mode, void *l_) {
	SLock *l = (SLock *)l_;
	(void)mode;
	int t = tid();
	if (l->owner != t) {
		sim::violation(c08("unlock-not-owner"), "thread %d unlocks lock %d owned by %d", t, l->id, l->owner);
		return 1;
	}
	l->count--;
	held_by[t]--;
	if (l->count == 0) {
		l->owner = -1;
		if (th.lock_released) th.lock_released(l);
	}
	if (th.yield) th.yield("unlock");
	return 0;
}
static void *c_alloc(unsigned) { SCond *c = new SCond(); c->id = next_lock_id++; return c; }
static void c_free(void *c) { delete (SCond *)c; }
static int c_signal(void *c, int broadcast) {
	if (th.cond_signal) th.cond_signal(c, broadcast != 0);
	return 0;
}
static int c_wait(void *c, void *l, const struct timeval *tv) {
	if (th.cond_wait) return th.cond_wait(c, l, tv ? tv->tv_sec * sim::NS + tv->tv_usec * 1000LL : -1);
	sim::violation(c08("deadlock"), "single thread waits on a condition variable: nobody can signal it");
	return 0;
}
static unsigned long id_fn(void) { return (unsigned long)tid(); }

// ---------------------------------------------------------------------------
// log / fatal
static uint64_t nwarn;
std::string last_warning;
std::function<void(int, const std::string &)> log_tap;
uint64_t warnings() { return nwarn; }

static std::string scrub(const char *msg) {	// pointers and other run-independent noise out of the trace
	std::string o;
	for (const char *p = msg; *p;) {
		if (p[0] == '0' && p[1] == 'x') {
			const char *q = p + 2;
			while (isxdigit((unsigned char)*q)) q++;
			if (q - p > 6) { o += "PTR"; p = q; continue; }
		}
		o += *p++;
	}
	return o;
}
static void log_cb(int sev, const char *msg) {
	if (sev == EVENT_LOG_DEBUG) return;
	std::string s = scrub(msg);
	if (sev >= EVENT_LOG_WARN) { nwarn++; last_warning = s; }
	if (in_run && log_tap) log_tap(sev, s);
	if (in_run) { sim::tr("log sev=%d %s", sev, s.c_str()); sim::count(sev >= EVENT_LOG_WARN ? "log.warn" : "log.msg"); }
}
static void fatal_cb(int err) {
	// EVUTIL_ASSERT / event_errx: the library's own consistency check failed. The process cannot continue.
	std::string rule = (sim::g_prop.empty() ? std::string("C02") : sim::g_prop) + ".fatal";
	if (!G.violated) sim::violation(rule.c_str(), "libevent fatal error (%d): %s", err, last_warning.c_str());
	fflush(stdout);
	_exit(78);
}

}	// namespace mon

using namespace mon;

extern "C" {

void mon_process_init(int cls) {
	static bool done = false;
	if (done) return;
	done = true;
	event_set_mem_functions(m_malloc, m_realloc, m_free);
	event_set_log_callback(log_cb);
	event_set_fatal_callback(fatal_cb);
	int lk = cls & sim::CLS_LOCKS_MASK;
	if (lk != sim::CLS_NOLOCK) {
		struct evthread_lock_callbacks lc = {EVTHREAD_LOCK_API_VERSION, EVTHREAD_LOCKTYPE_RECURSIVE, l_alloc, l_free, l_lock, l_unlock};
		struct evthread_condition_callbacks cc = {EVTHREAD_CONDITION_API_VERSION, c_alloc, c_free, c_signal, c_wait};
		evthread_set_lock_callbacks(&lc);
		evthread_set_condition_callbacks(&cc);
		evthread_set_id_callback(id_fn);
		locks_enabled = true;
		if (lk == sim::CLS_LOCKDEBUG) evthread_enable_lock_debugging();
	}
	if (cls & sim::CLS_DEBUGMODE) { event_enable_debug_mode(); debug_mode_on = true; }
}

void mon_run_begin(void) {
	run_seq0 = seq;
	fails_fired = 0;
	alloc_fail_clear();
	th = ThreadHooks();
	log_tap = nullptr;
	held_by.clear();
	strict_api_check = true;
	in_run = true;
	nwarn = 0;
	last_warning.clear();
}
void mon_run_end(void) {
	alloc_fail_clear();
	in_run = false;
	log_tap = nullptr;
	th = ThreadHooks();
}

long mon_process_exit_live(void) {
	libevent_global_shutdown();
	return (long)ledger.size();
}

// Sanitizer defaults: distinguishable exit code; leaks are counted by allocmon, not LSan.
__attribute__((used, visibility("default"))) const char *__asan_default_options() {
	return "exitcode=77:detect_leaks=0:abort_on_error=0:handle_segv=1:allocator_may_return_null=1:detect_stack_use_after_return=0";
}
__attribute__((used, visibility("default"))) const char *__ubsan_default_options() {
	return "print_stacktrace=0:halt_on_error=0";
}
}
