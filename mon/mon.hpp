// Cross-cutting monitors: allocmon (ledger + n-th allocation failure), lockmon
// (simulator-owned locks, per-thread held multiset), log / fatal capture.
#pragma once
#include <cstdint>
#include <functional>
#include <string>
#include <type_traits>
#include <utility>
#include "../sim/sim.hpp"

namespace mon {

// ---- allocmon
uint64_t alloc_count();			// allocations since run_begin
int64_t live_blocks_run();		// blocks allocated since run_begin and still live (debug-map entries excluded in debug mode)
int64_t live_blocks_total();
uint64_t block_seq(void *p);		// allocation serial of the live block at p, 0 if p is not a live block (tells a freed object from a live one)
extern bool debug_mode_on;
std::string live_blocks_desc(int max);	// "seq:size,..." of run-allocated live blocks
void alloc_fail_at(uint64_t k, bool sticky);	// k-th allocation from now fails (k>=1); sticky: and all later ones
void alloc_fail_clear();
uint64_t alloc_failures_fired();
void alloc_baseline();			// forget blocks live now (process-lifetime state created by warm-up)

// ---- lockmon
int held();				// number of lock acquisitions currently held by this thread
int locks_alive();			// allocated and not freed
void lock_api_check(int before, const char *what);
extern bool locks_enabled;
extern bool strict_api_check;		// when false API() does not compare (inside explicit lock APIs)

// thread layer plugs in here (single-threaded default: tid 1, blocking == violation)
struct ThreadHooks {
	std::function<int()> tid;
	std::function<void(void *lock)> block_on_lock;		// called when lock is owned by another thread
	std::function<void(void *lock)> lock_released;
	std::function<int(void *cond, void *lock, int64_t timeout_ns)> cond_wait;	// returns 0 signalled, 1 timeout
	std::function<void(void *cond, bool broadcast)> cond_signal;
	std::function<void(const char *what)> yield;		// scheduling point
};
extern ThreadHooks th;
// primitives for the thread layer
bool lock_is_free(void *lock);
int lock_owner(void *lock);
void lock_force_release_all(void *lock, int *saved_count);	// for cond wait
void lock_force_acquire(void *lock, int tid, int count);
int lock_id(void *lock);

// ---- log / fatal
uint64_t warnings();
extern std::string last_warning;
extern std::function<void(int sev, const std::string &msg)> log_tap;	// harness hook (cleared at run begin/end)

template <class F> auto api_guard(const char *what, F &&f) -> decltype(f()) {
	int before = held();
	if constexpr (std::is_void<decltype(f())>::value) {
		f();
		lock_api_check(before, what);
	} else {
		auto r = f();
		lock_api_check(before, what);
		return r;
	}
}
}	// namespace mon

#define API(expr) mon::api_guard(#expr, [&]() { return (expr); })
#define APIV(expr) mon::api_guard(#expr, [&]() { (expr); })

extern "C" {
void mon_process_init(int cls);
void mon_run_begin(void);
void mon_run_end(void);
long mon_process_exit_live(void);	// libevent_global_shutdown(), then live blocks
}
