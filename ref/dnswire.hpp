// Reference DNS wire codec (RFC 1035 / 6891 subset) for the H6 harnesses: an encoder that can build valid and
// deliberately odd messages, and a strict decoder that records what it needed to accept (pointer targets, bounds).
// Names are kept as label vectors so that labels containing dots or NULs stay representable.
#pragma once
#include <cstdint>
#include <map>
#include <set>
#include <string>
#include <vector>

namespace dw {

enum { T_A = 1, T_NS = 2, T_CNAME = 5, T_SOA = 6, T_PTR = 12, T_MX = 15, T_TXT = 16, T_AAAA = 28, T_OPT = 41, C_IN = 1 };
enum { F_QR = 0x8000, F_OPMASK = 0x7800, F_AA = 0x0400, F_TC = 0x0200, F_RD = 0x0100, F_RA = 0x0080, F_RCODE = 0x000f };

typedef std::vector<std::string> Name;	// labels, root = empty vector

inline Name name_from_dotted(const std::string &s) {
	Name n;
	size_t p = 0;
	if (s.empty() || s == ".") return n;
	while (p <= s.size()) {
		size_t d = s.find('.', p);
		if (d == std::string::npos) d = s.size();
		if (d == s.size() && d == p) break;	// trailing dot
		n.push_back(s.substr(p, d - p));
		p = d + 1;
	}
	return n;
}
inline std::string dotted(const Name &n) {
	std::string s;
	for (size_t i = 0; i < n.size(); i++) { if (i) s += '.'; s += n[i]; }
	return s;
}
inline std::string lower(std::string s) { for (auto &c : s) if (c >= 'A' && c <= 'Z') c += 32; return s; }
inline bool name_eq(const Name &a, const Name &b, bool nocase) {
	if (a.size() != b.size()) return false;
	for (size_t i = 0; i < a.size(); i++) if (nocase ? lower(a[i]) != lower(b[i]) : a[i] != b[i]) return false;
	return true;
}
inline size_t wire_len(const Name &n) { size_t l = 1; for (auto &x : n) l += 1 + x.size(); return l; }

struct RR {
	Name name;
	uint16_t type = 0, cls = C_IN;
	uint32_t ttl = 0;
	std::string rdata;	// raw bytes as they appeared (decoder) or as they are to be written (encoder, when !has_rname)
	bool has_rname = false;	// rdata is one domain name (CNAME, PTR, NS): encoder writes rname (compressible), decoder fills it
	Name rname;
	size_t rdata_off = 0;	// decoder: offset of rdata in the message
};
struct Q { Name name; uint16_t type = 0, cls = C_IN; };
struct Msg {
	uint16_t id = 0, flags = 0;
	std::vector<Q> q;
	std::vector<RR> an, ns, ar;
};

// ---- encoder ----------------------------------------------------------------
struct Enc {
	std::string out;
	bool compress = true;
	std::map<std::string, size_t> seen;	// lower-cased dotted suffix -> offset
	void u8(unsigned v) { out += (char)v; }
	void u16(unsigned v) { out += (char)(v >> 8); out += (char)v; }
	void u32(uint32_t v) { u16(v >> 16); u16(v & 0xffff); }
	void name(const Name &n) {
		for (size_t i = 0; i < n.size(); i++) {
			Name suf(n.begin() + i, n.end());
			std::string key = lower(dotted(suf)) + "#" + std::to_string(suf.size());
			auto it = seen.find(key);
			if (compress && it != seen.end() && it->second < 0x4000) { u16(0xc000 | it->second); return; }
			if (out.size() < 0x4000) seen.emplace(key, out.size());
			u8(n[i].size());
			out += n[i];
		}
		u8(0);
	}
	void rr(const RR &r) {
		name(r.name);
		u16(r.type); u16(r.cls); u32(r.ttl);
		if (r.has_rname) {
			size_t lenpos = out.size();
			u16(0);
			name(r.rname);
			size_t l = out.size() - lenpos - 2;
			out[lenpos] = (char)(l >> 8); out[lenpos + 1] = (char)l;
		} else { u16(r.rdata.size()); out += r.rdata; }
	}
};
inline std::string encode(const Msg &m, bool compress = true) {
	Enc e;
	e.compress = compress;
	e.u16(m.id); e.u16(m.flags); e.u16(m.q.size()); e.u16(m.an.size()); e.u16(m.ns.size()); e.u16(m.ar.size());
	for (auto &q : m.q) { e.name(q.name); e.u16(q.type); e.u16(q.cls); }
	for (auto &r : m.an) e.rr(r);
	for (auto &r : m.ns) e.rr(r);
	for (auto &r : m.ar) e.rr(r);
	return e.out;
}

// ---- strict decoder -----------------------------------------------------------
struct Dec {
	const std::string &b;
	std::string why;
	std::set<size_t> label_starts;	// offsets at which some already-decoded name has a label (valid pointer targets)
	bool pointer_rule_ok = true;	// every pointer went backwards to a label start seen before
	std::string pointer_why;
	int pointers = 0;
	explicit Dec(const std::string &bytes) : b(bytes) {}
	bool fail(const std::string &w) { if (why.empty()) why = w; return false; }
	bool u8(size_t &j, unsigned &v) { if (j + 1 > b.size()) return fail("truncated"); v = (unsigned char)b[j++]; return true; }
	bool u16(size_t &j, unsigned &v) { if (j + 2 > b.size()) return fail("truncated"); v = ((unsigned char)b[j] << 8) | (unsigned char)b[j + 1]; j += 2; return true; }
	bool u32(size_t &j, uint32_t &v) { unsigned a, c; if (!u16(j, a) || !u16(j, c)) return false; v = ((uint32_t)a << 16) | c; return true; }
	bool name(size_t &j, Name &n) {
		n.clear();
		size_t pos = j, end = 0;
		bool jumped = false;
		size_t total = 1;
		int hops = 0;
		std::vector<size_t> mine;
		for (;;) {
			unsigned l;
			size_t at = pos;
			if (!u8(pos, l)) return false;
			if (l == 0) { mine.push_back(at); break; }	// the root label of this name: the shortest suffix a pointer may refer to
			if ((l & 0xc0) == 0xc0) {
				unsigned lo;
				if (!u8(pos, lo)) return false;
				size_t target = ((l & 0x3f) << 8) | lo;
				pointers++;
				if (!jumped) { end = pos; jumped = true; }
				if (target >= at) { pointer_rule_ok = false; if (pointer_why.empty()) pointer_why = "pointer at " + std::to_string(at) + " does not point backwards (" + std::to_string(target) + ")"; }
				else if (!label_starts.count(target)) { pointer_rule_ok = false; if (pointer_why.empty()) pointer_why = "pointer at " + std::to_string(at) + " targets offset " + std::to_string(target) + " where no earlier name has a label"; }
				if (target >= b.size()) return fail("pointer out of bounds");
				if (++hops > 128) return fail("pointer loop");
				pos = target;
				continue;
			}
			if (l & 0xc0) return fail("reserved label type");
			if (pos + l > b.size()) return fail("label beyond message");
			total += 1 + l;
			if (total > 255) return fail("name longer than 255");
			n.push_back(b.substr(pos, l));
			mine.push_back(at);
			pos += l;
		}
		for (size_t o : mine) label_starts.insert(o);
		j = jumped ? end : pos;
		return true;
	}
	bool rr(size_t &j, RR &r) {
		unsigned t, c, l;
		if (!name(j, r.name) || !u16(j, t) || !u16(j, c) || !u32(j, r.ttl) || !u16(j, l)) return false;
		r.type = t; r.cls = c;
		if (j + l > b.size()) return fail("rdata beyond message");
		r.rdata = b.substr(j, l);
		r.rdata_off = j;
		if (t == T_CNAME || t == T_PTR || t == T_NS) {
			size_t k = j;
			if (!name(k, r.rname)) return false;
			if (k != j + l) return fail("name rdata does not fill rdlength");
			r.has_rname = true;
		}
		j += l;
		return true;
	}
	// counts[4]: how many entries of each section were decoded before an error (for lenient users)
	bool msg(Msg &m, size_t *consumed = nullptr, size_t counts_done[4] = nullptr) {
		size_t j = 0;
		unsigned id, fl, qd, an, ns, ar;
		if (counts_done) counts_done[0] = counts_done[1] = counts_done[2] = counts_done[3] = 0;
		if (!u16(j, id) || !u16(j, fl) || !u16(j, qd) || !u16(j, an) || !u16(j, ns) || !u16(j, ar)) return false;
		m.id = id; m.flags = fl;
		for (unsigned i = 0; i < qd; i++) {
			Q q; unsigned t, c;
			if (!name(j, q.name) || !u16(j, t) || !u16(j, c)) return false;
			q.type = t; q.cls = c;
			m.q.push_back(q);
			if (counts_done) counts_done[0]++;
		}
		std::vector<RR> *secs[3] = {&m.an, &m.ns, &m.ar};
		unsigned cnt[3] = {an, ns, ar};
		for (int s = 0; s < 3; s++) for (unsigned i = 0; i < cnt[s]; i++) {
			RR r;
			if (!rr(j, r)) return false;
			secs[s]->push_back(r);
			if (counts_done) counts_done[s + 1]++;
		}
		if (consumed) *consumed = j;
		return true;
	}
};
inline bool decode(const std::string &bytes, Msg &m, std::string *why = nullptr, bool *pointer_rule_ok = nullptr, std::string *pointer_why = nullptr, size_t *consumed = nullptr) {
	Dec d(bytes);
	bool ok = d.msg(m, consumed);
	if (why) *why = d.why;
	if (pointer_rule_ok) *pointer_rule_ok = d.pointer_rule_ok;
	if (pointer_why) *pointer_why = d.pointer_why;
	return ok;
}

inline std::string a_rdata(uint32_t host_order) { std::string s(4, 0); s[0] = host_order >> 24; s[1] = host_order >> 16; s[2] = host_order >> 8; s[3] = host_order; return s; }

}	// namespace dw
