// Reference model of the libevent event core: event state machine, timers (heap and
// common-timeout queues), activation queues with priorities, loop control, watchers.
// Driven in lock-step with the real library: the model says which observable comes next
// (prepare watcher / wait / check watcher / callback / loop return), the harness compares.
#pragma once
#include <algorithm>
#include <climits>
#include <cstdint>
#include <deque>
#include <map>
#include <set>
#include <string>
#include <vector>

namespace evm {

typedef int64_t usec_t;
static const usec_t INF = INT64_MAX;

enum { R_TIMEOUT = 0x01, R_READ = 0x02, R_WRITE = 0x04, R_SIGNAL = 0x08, R_PERSIST = 0x10, R_ET = 0x20, R_FINALIZE = 0x40, R_CLOSED = 0x80 };
enum { K_TIMER = 0, K_IO = 1, K_SIGNAL = 2 };
enum { A_NONE = 0, A_ACTIVE = 1, A_LATER = 2 };
enum { LF_ONCE = 1, LF_NONBLOCK = 2, LF_NO_EXIT_ON_EMPTY = 4 };

struct Ev {
	bool exists = false, internal = false;
	int kind = K_TIMER;
	int events = 0;		// R_READ|R_WRITE|R_PERSIST|R_SIGNAL|R_FINALIZE(EV_FINALIZE)
	int fdidx = -1;		// io: fd slot, signal: signal number
	int pri = 0;
	bool inserted = false, timeout = false;
	int act = A_NONE;
	int res = 0;
	int ncalls = 0;
	bool pncalls = false;
	usec_t deadline = 0;
	int deadline_common = -1;	// common queue index encoded in ev_timeout (-1: heap)
	usec_t interval = 0;
	int interval_common = -1;
	bool has_interval = false;	// ev_io_timeout non-zero
	bool finalizing = false;
	int fin_kind = 0;		// 1 finalize, 2 free_finalize
	bool persist_closure = false, signal_closure = false;
	int once = 0;			// 1: event_base_once user callback, 2: loopexit
	int ctl = -1;			// internal timer of common-timeout list `ctl`
	// ledger
	uint64_t armed_seq = 0;
};

struct QE { int kind; int idx; uint64_t tie; };	// kind 0: event, 1: deferred callback
struct Ctl { usec_t duration; std::deque<int> q; int timer_ev; };
struct DC { bool exists = false; int act = A_NONE; int pri = 0; };
struct Watch { bool exists = false; int kind = 0; bool fresh = false; };	// fresh: created during the current pass over its own list

struct Exp {
	enum K { NONE, PREPARE, WAIT, CHECK, CB, RET } k = NONE;
	int w = -1;			// watcher
	usec_t tv = -1;			// WAIT / PREPARE: timeout (-1 infinite)
	std::vector<QE> cands;		// CB: acceptable next callbacks (tie group)
	int rv = 0;			// RET
};

struct Model {
	// configuration
	int npri = 1;
	bool no_cache = false;
	int max_cb = INT_MAX;
	usec_t max_time = -1;
	int limit_after_prio = 1;
	// clock (read through callback so the model sees exactly the simulator clock)
	usec_t (*clock)() = nullptr;
	// fd readiness oracle supplied by the harness: returns R_READ|R_WRITE mask for fd slot
	int (*fd_ready)(int fdidx) = nullptr;

	std::vector<Ev> evs;
	std::vector<Ctl> ctls;
	std::vector<DC> dcs;
	std::vector<Watch> ws;
	std::vector<int> worder[2];
	std::vector<std::deque<QE>> aq;
	std::deque<QE> later;
	std::multimap<usec_t, int> heap;
	int running_pri = -1;
	bool ev_continue = false, ev_break = false, gotterm = false;
	int n_deferreds = 0;
	bool running_loop = false;
	int loop_flags = 0;
	bool cache_valid = false;
	usec_t cache = 0;
	int event_count = 0, event_count_max = 0, count_active = 0, count_active_max = 0;
	uint64_t tie_seq = 1, arm_seq = 1;

	// loop state machine
	enum Ph { IDLE, TOP, PREPARE, WAIT, AFTERWAIT, CHECK, TPROC, QSEL, QRUN, INCB, SIGLOOP, ENDPROC, DONE } ph = IDLE;
	usec_t cur_tv = -1;
	int wpos = 0;
	bool done_flag = false;
	int retval = 0;
	int pa_i = 0, pa_count = 0, pa_lim = 0, pa_c = 0;
	bool pa_use_end = false, have_end = false;
	usec_t pa_end = 0;
	QE cur{0, -1, 0};
	int sig_remaining = 0;
	bool in_sigloop = false;
	bool cur_free_after = false;
	int cur_res = 0;
	Exp exp;
	// statistics for non-triviality rules
	int timers_fired = 0, prios_ran_mask = 0, iterations = 0;
	// set when the head tie group mixes entries without an observable callback (internal common-timeout
	// timer, loopexit, zero-call signal activation) with observable ones: the real order is a heap detail
	bool ambiguous = false;
	bool max_uncertain_added = false, max_uncertain_active = false;	// until the next clearing query of that maximum
	bool hidden(const QE &q) const {
		if (q.kind != 0) return false;
		const Ev &e = evs[q.idx];
		return e.internal || e.once == 2 || (e.signal_closure && !e.finalizing && e.ncalls == 0);
	}

	void init(int npri_) {
		npri = npri_;
		aq.assign(npri, {});
	}
	usec_t now() const { return clock(); }
	usec_t gettime() const { return cache_valid ? cache : now(); }
	void update_cache() { if (!no_cache) { cache_valid = true; cache = now(); } }
	void clear_cache() { cache_valid = false; }
	int n_active() const { return count_active; }
	bool haveevents() const { return event_count > 0; }

	// ---- queue primitives (mirror the counters) ----
	void incr(const Ev &e) { if (!e.internal) event_count++; event_count_max = std::max(event_count_max, event_count); }	// the maximum is refreshed for internal events too
	void decr(const Ev &e) { if (!e.internal) event_count--; }
	void q_insert_active(int i) {
		Ev &e = evs[i];
		if (e.act == A_ACTIVE) return;
		incr(e);
		e.act = A_ACTIVE;
		count_active++;
		count_active_max = std::max(count_active_max, count_active);
		aq[e.pri].push_back(QE{0, i, tie_seq++});
	}
	void q_remove_from(std::deque<QE> &q, int kind, int i) {
		for (auto it = q.begin(); it != q.end(); ++it) if (it->kind == kind && it->idx == i) { q.erase(it); return; }
	}
	void q_remove_active(int i) {
		Ev &e = evs[i];
		decr(e);
		e.act = A_NONE;
		count_active--;
		q_remove_from(aq[e.pri], 0, i);
	}
	void q_insert_later(int i) {
		Ev &e = evs[i];
		if (e.act != A_NONE) return;
		incr(e);
		e.act = A_LATER;
		count_active++;
		count_active_max = std::max(count_active_max, count_active);
		later.push_back(QE{0, i, tie_seq++});
	}
	void q_remove_later(int i) {
		Ev &e = evs[i];
		decr(e);
		e.act = A_NONE;
		count_active--;
		q_remove_from(later, 0, i);
	}
	void heap_erase(int i) {
		auto r = heap.equal_range(evs[i].deadline);
		for (auto it = r.first; it != r.second; ++it) if (it->second == i) { heap.erase(it); return; }
	}
	void q_insert_timeout(int i) {
		Ev &e = evs[i];
		incr(e);
		e.timeout = true;
		e.armed_seq = arm_seq++;
		if (e.deadline_common >= 0) {
			// insert_common_timeout_inorder: from the tail, after the last element with deadline <= ours
			auto &q = ctls[e.deadline_common].q;
			size_t pos = q.size();
			while (pos > 0 && evs[q[pos - 1]].deadline > e.deadline) pos--;
			q.insert(q.begin() + pos, i);
		} else heap.emplace(e.deadline, i);
	}
	void q_remove_timeout(int i) {
		Ev &e = evs[i];
		decr(e);
		e.timeout = false;
		if (e.deadline_common >= 0) {
			auto &q = ctls[e.deadline_common].q;
			q.erase(std::remove(q.begin(), q.end(), i), q.end());
		} else heap_erase(i);
	}
	void q_insert_inserted(int i) { incr(evs[i]); evs[i].inserted = true; }
	void q_remove_inserted(int i) { decr(evs[i]); evs[i].inserted = false; }

	// ---- API mirror ----
	int new_slot() { evs.emplace_back(); return (int)evs.size() - 1; }
	void assign(int i, int kind, int events, int fdidx) {
		Ev e;
		e.exists = true;
		e.kind = kind;
		e.events = events;
		e.fdidx = fdidx;
		e.pri = npri / 2;
		e.signal_closure = (events & R_SIGNAL) != 0;
		e.persist_closure = !e.signal_closure && (events & R_PERSIST);
		evs[i] = e;
	}
	void abort_sigloop(int i) {
		Ev &e = evs[i];
		if ((e.events & R_SIGNAL) && e.ncalls && e.pncalls) { sig_remaining = 0; e.pncalls = false; }
	}
	void ctl_schedule(int c, usec_t deadline) {
		add(ctls[c].timer_ev, true, 0, -1, true, deadline);
	}
	// returns event_add's result
	int add(int i, bool has_tv, usec_t tv, int common, bool absolute = false, usec_t abs_deadline = 0) {
		Ev &e = evs[i];
		if (e.finalizing) return -1;
		if ((e.events & (R_READ | R_WRITE | R_CLOSED | R_SIGNAL)) && !e.inserted && e.act == A_NONE) {
			q_insert_inserted(i);
			// a fresh registration without a timeout forgets the interval of an earlier one
			if (!has_tv && e.persist_closure && !e.timeout) { e.interval = 0; e.interval_common = -1; e.has_interval = false; }
		}
		if (has_tv) {
			if (e.persist_closure && !absolute) {
				e.interval = tv;
				e.interval_common = common;
				e.has_interval = tv != 0 || common >= 0;
			}
			if (e.timeout) q_remove_timeout(i);
			if (e.act == A_ACTIVE && (e.res & R_TIMEOUT)) {
				abort_sigloop(i);
				q_remove_active(i);
			}
			usec_t nowv = gettime();
			if (absolute) e.deadline = abs_deadline;
			else e.deadline = nowv + tv;
			e.deadline_common = common;
			q_insert_timeout(i);
			if (common >= 0) {
				if (ctls[common].q.front() == i) ctl_schedule(common, e.deadline);
			}
		}
		return 0;
	}
	int del(int i) {
		Ev &e = evs[i];
		if (e.finalizing) return 0;
		abort_sigloop(i);
		if (e.timeout) q_remove_timeout(i);
		if (e.act == A_ACTIVE) q_remove_active(i);
		else if (e.act == A_LATER) q_remove_later(i);
		if (e.inserted) q_remove_inserted(i);
		return 0;
	}
	void active(int i, int res, int ncalls) {
		Ev &e = evs[i];
		if (e.finalizing) return;
		if (e.act == A_ACTIVE) { e.res |= res; return; }
		if (e.act == A_LATER) e.res |= res;
		else e.res = res;
		if (e.pri < running_pri) ev_continue = true;
		if (e.events & R_SIGNAL) { abort_sigloop(i); e.ncalls = ncalls; e.pncalls = false; }
		if (e.act == A_LATER) q_remove_later(i);
		q_insert_active(i);
	}
	void active_later(int i, int res) {
		Ev &e = evs[i];
		if (e.act != A_NONE) { e.res |= res; return; }
		e.res = res;
		q_insert_later(i);
	}
	void remove_timer(int i) {
		Ev &e = evs[i];
		if (e.timeout) {
			q_remove_timeout(i);
			e.interval = 0;
			e.interval_common = -1;
			e.has_interval = false;
		}
	}
	int priority_set(int i, int pri) {
		Ev &e = evs[i];
		if (e.act == A_ACTIVE) return -1;
		if (pri < 0 || pri >= npri) return -1;
		e.pri = pri;
		return 0;
	}
	int pending(int i, int mask, usec_t *expiry) const {
		const Ev &e = evs[i];
		int flags = 0;
		if (e.inserted) flags |= e.events & (R_READ | R_WRITE | R_CLOSED | R_SIGNAL);
		if (e.act != A_NONE) flags |= e.res;
		if (e.timeout) flags |= R_TIMEOUT;
		mask &= (R_TIMEOUT | R_READ | R_WRITE | R_CLOSED | R_SIGNAL);
		if (expiry && (flags & mask & R_TIMEOUT)) *expiry = e.deadline;
		return flags & mask;
	}
	void finalize(int i, bool free_after) {
		Ev &e = evs[i];
		// event_finalize_nolock_: del (no-op if already finalizing), set closure, activate, flag
		del(i);
		e.fin_kind = free_after ? 2 : 1;
		active(i, R_FINALIZE, 1);
		e.finalizing = true;
	}
	void free_ev(int i) {
		del(i);
		evs[i].exists = false;
	}
	int init_common(usec_t duration) {
		for (size_t c = 0; c < ctls.size(); c++) if (ctls[c].duration == duration) return (int)c;
		if (ctls.size() >= 256) return -1;
		Ctl c;
		c.duration = duration;
		int t = new_slot();
		Ev e;
		e.exists = true;
		e.internal = true;
		e.kind = K_TIMER;
		e.pri = 0;
		e.ctl = (int)ctls.size();
		evs[t] = e;
		c.timer_ev = t;
		ctls.push_back(c);
		return (int)ctls.size() - 1;
	}
	// event_base_once: returns slot of the dynamic event or -1
	int once(int kind, int events, int fdidx, bool has_tv, usec_t tv, int once_kind) {
		int i = new_slot();
		assign(i, kind, events, fdidx);
		evs[i].once = once_kind;
		if (kind == K_TIMER && (!has_tv || tv == 0)) active(i, R_TIMEOUT, 1);
		else add(i, has_tv, tv, -1);
		return i;
	}
	void loopbreak() { ev_break = true; }
	void loopcontinue() { ev_continue = true; }
	// deferred callbacks (evbuffer deferred): event_deferred_cb_schedule_
	bool dc_schedule(int d) {
		DC &c = dcs[d];
		if (n_deferreds > 32) {
			if (c.act != A_NONE) return false;
			c.act = A_LATER;
			event_count++; event_count_max = std::max(event_count_max, event_count);
			count_active++; count_active_max = std::max(count_active_max, count_active);
			later.push_back(QE{1, d, tie_seq++});
			return true;
		}
		bool r = true;
		if (c.act == A_ACTIVE) return false;
		if (c.act == A_LATER) {
			q_remove_from(later, 1, d);
			event_count--; count_active--;
			c.act = A_NONE;
			r = false;
		}
		c.act = A_ACTIVE;
		event_count++; event_count_max = std::max(event_count_max, event_count);
		count_active++; count_active_max = std::max(count_active_max, count_active);
		aq[c.pri].push_back(QE{1, d, tie_seq++});
		if (r) ++n_deferreds;
		return r;
	}
	void dc_cancel(int d) {
		DC &c = dcs[d];
		if (c.act == A_ACTIVE) q_remove_from(aq[c.pri], 1, d);
		else if (c.act == A_LATER) q_remove_from(later, 1, d);
		else return;
		c.act = A_NONE;
		event_count--; count_active--;
	}

	// watchers
	int watch_new(int slot, int kind) {
		if ((int)ws.size() <= slot) ws.resize(slot + 1);
		ws[slot].exists = true;
		ws[slot].kind = kind;
		ws[slot].fresh = (ph == PREPARE && kind == 0) || (ph == CHECK && kind == 1);
		worder[kind].push_back(slot);
		return slot;
	}
	void watch_free(int slot) {
		Watch &w = ws[slot];
		auto &o = worder[w.kind];
		for (size_t p = 0; p < o.size(); p++) if (o[p] == slot) {
			o.erase(o.begin() + p);
			// keep the iteration cursor on the same successor
			if (((ph == PREPARE && w.kind == 0) || (ph == CHECK && w.kind == 1) || (ph == INCB && false)) && (int)p < wpos) wpos--;
			break;
		}
		w.exists = false;
	}

	// ---- timers ----
	void timeout_process() {
		if (heap.empty()) return;
		usec_t nowv = gettime();
		uint64_t tie = 0;
		usec_t tie_dl = -1;
		while (!heap.empty()) {
			auto it = heap.begin();
			if (it->first > nowv) break;
			int i = it->second;
			Ev &e = evs[i];
			bool was_active = e.act != A_NONE;
			if (!was_active) del(i); else q_remove_timeout(i);
			if (e.deadline != tie_dl) { tie = tie_seq++; tie_dl = e.deadline; }
			else max_uncertain_added = max_uncertain_active = true;	// timers due at the same instant leave the heap in an order the model does not know: the transient maxima of the counters depend on it
			bool newly = e.act == A_NONE || e.act == A_LATER;
			active(i, R_TIMEOUT, 1);
			if (newly && !aq[e.pri].empty() && aq[e.pri].back().idx == i) aq[e.pri].back().tie = tie;
		}
	}
	void ctl_fire(int c) {
		usec_t nowv = gettime();
		Ctl &l = ctls[c];
		while (!l.q.empty()) {
			int i = l.q.front();
			Ev &e = evs[i];
			if (e.deadline > nowv) break;
			bool was_active = e.act != A_NONE;
			if (!was_active) del(i); else q_remove_timeout(i);
			active(i, R_TIMEOUT, 1);
		}
		if (!l.q.empty()) ctl_schedule(c, evs[l.q.front()].deadline);
	}
	usec_t timeout_next() const {	// -1 infinite
		if (heap.empty()) return -1;
		usec_t nowv = gettime();
		usec_t d = heap.begin()->first;
		return d <= nowv ? 0 : d - nowv;
	}

	// ---- loop ----
	void loop_enter(int flags) {
		running_loop = true;
		loop_flags = flags;
		clear_cache();
		done_flag = false;
		retval = 0;
		gotterm = ev_break = false;
		ph = TOP;
		advance();
	}
	std::vector<QE> head_cands(const std::deque<QE> &q) const {
		std::vector<QE> v;
		if (q.empty()) return v;
		uint64_t t = q.front().tie;
		for (auto &e : q) { if (e.tie != t) break; v.push_back(e); }
		return v;
	}
	void set_exp(Exp::K k) { exp = Exp(); exp.k = k; }

	// run the model until the next observable
	void advance() {
		for (;;) {
			switch (ph) {
			case IDLE: case INCB: case DONE: return;
			case TOP: {
				if (done_flag) { finish(); return; }
				ev_continue = false;
				n_deferreds = 0;
				if (gotterm || ev_break) { finish(); return; }
				if (!n_active() && !(loop_flags & LF_NONBLOCK)) cur_tv = timeout_next();
				else cur_tv = 0;
				if (!(loop_flags & LF_NO_EXIT_ON_EMPTY) && !haveevents() && !n_active()) { retval = 1; finish(); return; }
				// later -> active
				while (!later.empty()) {
					QE q = later.front();
					later.pop_front();
					if (q.kind == 0) { evs[q.idx].act = A_ACTIVE; aq[evs[q.idx].pri].push_back(q); }
					else { dcs[q.idx].act = A_ACTIVE; aq[dcs[q.idx].pri].push_back(q); n_deferreds++; }
				}
				iterations++;
				wpos = 0;
				for (auto &w : ws) w.fresh = false;
				ph = PREPARE;
				break;
			}
			case PREPARE:
				if (wpos < (int)worder[0].size()) {
					set_exp(Exp::PREPARE);
					exp.w = worder[0][wpos];
					exp.tv = cur_tv;
					wpos++;
					return;
				}
				clear_cache();
				set_exp(Exp::WAIT);
				exp.tv = cur_tv;
				ph = WAIT;
				return;
			case WAIT: return;	// waiting for wait_done()
			case AFTERWAIT:
				update_cache();
				wpos = 0;
				ph = CHECK;
				break;
			case CHECK:
				if (wpos < (int)worder[1].size()) {
					set_exp(Exp::CHECK);
					exp.w = worder[1][wpos];
					wpos++;
					return;
				}
				ph = TPROC;
				break;
			case TPROC:
				timeout_process();
				if (n_active()) {
					// event_process_active prologue
					if (max_time >= 0) { update_cache(); have_end = true; pa_end = gettime() + max_time; }
					else have_end = false;
					pa_i = 0;
					pa_c = 0;
					ph = QSEL;
				} else {
					if (loop_flags & LF_NONBLOCK) done_flag = true;
					ph = TOP;
				}
				break;
			case QSEL:
				while (pa_i < npri && aq[pa_i].empty()) pa_i++;
				if (pa_i >= npri) { ph = ENDPROC; break; }
				running_pri = pa_i;
				pa_count = 0;
				if (pa_i < limit_after_prio) { pa_lim = INT_MAX; pa_use_end = false; }
				else { pa_lim = max_cb; pa_use_end = have_end; }
				ph = QRUN;
				break;
			case QRUN: {
				auto &q = aq[pa_i];
				if (q.empty()) { queue_done(pa_count); break; }
				QE h = q.front();
				{
					std::vector<QE> g = head_cands(q);
					if (g.size() > 1) for (auto &x : g) if (hidden(x)) ambiguous = true;
					if (ambiguous) { set_exp(Exp::NONE); return; }
				}
				if (h.kind == 0 && evs[h.idx].internal) {	// common-timeout list timer: no observable
					int i = h.idx;
					del(i);		// non-persistent internal timer: event_del_nolock_
					ctl_fire(evs[i].ctl);
					post_closure();
					break;
				}
				if (h.kind == 0 && evs[h.idx].signal_closure && !evs[h.idx].finalizing && evs[h.idx].ncalls == 0) {
					// signal event activated with ncalls == 0: processed, counted, never called
					int i = h.idx;
					begin_event(i);
					pa_count++;
					post_closure();
					break;
				}
				if (h.kind == 0 && evs[h.idx].once == 2) {	// loopexit's hidden callback
					int i = h.idx;
					begin_event(i);
					pa_count++;
					gotterm = true;
					evs[i].exists = false;
					post_closure();
					break;
				}
				set_exp(Exp::CB);
				exp.cands = head_cands(q);
				return;
			}
			case SIGLOOP:
				// between two calls of a signal closure
				if (ev_break) { if (sig_remaining != 0) evs[cur.idx].pncalls = false; in_sigloop = false; post_closure(); break; }
				if (sig_remaining > 0) {
					set_exp(Exp::CB);
					exp.cands = {cur};
					return;
				}
				in_sigloop = false;
				post_closure();
				break;
			case ENDPROC:
				running_pri = -1;
				if ((loop_flags & LF_ONCE) && n_active() == 0 && pa_c != 0) done_flag = true;
				ph = TOP;
				break;
			}
		}
	}
	void finish() {
		clear_cache();
		running_loop = false;
		running_pri = -1;
		set_exp(Exp::RET);
		exp.rv = retval;
		ph = DONE;
	}
	void queue_done(int c) {
		pa_c = c;
		if (c < 0 || c > 0) { ph = ENDPROC; return; }
		pa_i++;
		ph = QSEL;
	}
	void begin_event(int i) {
		Ev &e = evs[i];
		cur_res = e.res;
		if ((e.events & R_PERSIST) || e.finalizing) q_remove_active(i);
		else del(i);
	}
	void post_closure() {
		if (ev_break) { queue_done(-1); return; }
		if (pa_count >= pa_lim) { queue_done(pa_count); return; }
		if (pa_count && pa_use_end) {
			update_cache();
			if (gettime() >= pa_end) { queue_done(pa_count); return; }
		}
		if (ev_continue) { queue_done(pa_count); return; }
		ph = QRUN;
	}

	// ---- observations from the real library ----
	void wait_done() { ph = AFTERWAIT; }
	// I/O readiness found by the wait: activate (all in one tie group)
	void io_activate() {
		uint64_t tie = tie_seq++;
		for (size_t i = 0; i < evs.size(); i++) {
			Ev &e = evs[i];
			if (!e.exists || e.kind != K_IO || !e.inserted) continue;
			int what = e.events & fd_ready(e.fdidx) & (R_READ | R_WRITE);
			if (!what) continue;
			bool newly = e.act != A_ACTIVE;
			active((int)i, what, 1);
			if (newly && aq[e.pri].back().idx == (int)i && aq[e.pri].back().kind == 0) aq[e.pri].back().tie = tie;
		}
	}
	// the harness saw the callback of `q` (must be one of exp.cands): returns the res flags expected
	int callback_enter(QE q) {
		auto &dq = aq[pa_i];
		if (in_sigloop) {
			sig_remaining--;
			Ev &e = evs[q.idx];
			e.ncalls = sig_remaining;
			if (sig_remaining == 0) e.pncalls = false;
			ph = INCB;
			return e.res;	// the signal closure re-reads ev_res for every call
		}
		for (auto it = dq.begin(); it != dq.end(); ++it) if (it->kind == q.kind && it->idx == q.idx) { QE x = *it; dq.erase(it); dq.push_front(x); break; }
		cur = q;
		cur_free_after = false;
		if (q.kind == 1) {
			DC &c = dcs[q.idx];
			dq.pop_front();
			c.act = A_NONE;
			event_count--; count_active--;
			pa_count++;
			prios_ran_mask |= 1 << std::min(pa_i, 30);
			ph = INCB;
			return 0;
		}
		int i = q.idx;
		Ev &e = evs[i];
		begin_event(i);
		pa_count++;
		prios_ran_mask |= 1 << std::min(pa_i, 30);
		if (e.finalizing) {
			cur_free_after = e.fin_kind == 2;
			ph = INCB;
			return cur_res;
		}
		if (e.signal_closure) {
			sig_remaining = e.ncalls;
			if (sig_remaining) e.pncalls = true;
			in_sigloop = true;
			sig_remaining--;
			e.ncalls = sig_remaining;
			if (sig_remaining == 0) e.pncalls = false;
			ph = INCB;
			return cur_res;
		}
		if (e.persist_closure && e.has_interval) {
			usec_t nowv = gettime();
			bool timeout_only = (e.res & R_TIMEOUT) && !(e.res & (R_READ | R_WRITE | R_CLOSED | R_SIGNAL));
			usec_t rel = timeout_only ? e.deadline : nowv;
			usec_t run_at = rel + e.interval;
			if (run_at < nowv) run_at = nowv + e.interval;
			add(i, true, 0, e.interval_common, true, run_at);
		}
		if (cur_res & R_TIMEOUT) timers_fired++;
		ph = INCB;
		return cur_res;
	}
	void callback_exit() {
		if (cur.kind == 0 && cur_free_after) evs[cur.idx].exists = false;
		if (cur.kind == 0 && evs[cur.idx].once == 1 && !in_sigloop) evs[cur.idx].exists = false;
		if (in_sigloop) { ph = SIGLOOP; advance(); return; }
		post_closure();
		advance();
	}
	void watcher_exit() { advance(); }
	// A watcher created during the pass over its own list may first run in this iteration or in
	// the next one (documented: "no later than the next iteration"): skip it if the library did.
	bool skip_optional_watcher() {
		if ((exp.k == Exp::PREPARE || exp.k == Exp::CHECK) && exp.w >= 0 && ws[exp.w].fresh) { advance(); return true; }
		return false;
	}
};

}	// namespace evm
