// Reference reading of HTTP/1.x messages (RFC 9112, with RFC 9110 field rules) for the H5 harness. It is deliberately
// three-valued: a message is ACCEPT (a conforming recipient delivers exactly this), REJECT (the RFC says MUST reject /
// treat as an error: delivering anything is a violation), or EITHER (the RFC leaves it to the recipient: it may deliver
// exactly the stated reading, or refuse). Everything after a REJECT on a connection is out of scope.
#pragma once
#include <cctype>
#include <cstdint>
#include <cstdlib>
#include <cstring>
#include <string>
#include <utility>
#include <vector>

namespace h9 {

enum Verdict { ACCEPT, EITHER, REJECT, INCOMPLETE };

struct Msg {
	Verdict v = ACCEPT;
	std::string why;		// for EITHER / REJECT
	// request
	std::string method, target;
	// response
	int status = 0;
	std::string reason;
	int major = 1, minor = 1;
	std::vector<std::pair<std::string, std::string>> headers;	// names as sent, values trimmed of optional whitespace
	std::string body;
	bool chunked = false, close_delimited = false, has_cl = false, tunnel = false, interim_seen = false, indeterminate = false;
	uint64_t content_length = 0;
	bool keep_alive = true;	// after this message the connection may carry another one
	size_t header_bytes = 0;	// start line + header section incl. the empty line
	size_t consumed = 0;	// bytes of the stream this message took
	std::vector<std::pair<std::string, std::string>> trailers;
};

inline std::string lower(std::string s) { for (auto &c : s) if (c >= 'A' && c <= 'Z') c += 32; return s; }
inline bool is_tchar(unsigned char c) {
	if (c >= '0' && c <= '9') return true;
	if ((c | 32) >= 'a' && (c | 32) <= 'z') return true;
	return c && strchr("!#$%&'*+-.^_`|~", c) != nullptr;
}
inline bool is_token(const std::string &s) { if (s.empty()) return false; for (unsigned char c : s) if (!is_tchar(c)) return false; return true; }
inline std::string trim(const std::string &s) {
	size_t a = 0, b = s.size();
	while (a < b && (s[a] == ' ' || s[a] == '\t')) a++;
	while (b > a && (s[b - 1] == ' ' || s[b - 1] == '\t')) b--;
	return s.substr(a, b - a);
}
inline const std::string *find_hdr(const Msg &m, const char *name, int *count = nullptr) {
	const std::string *r = nullptr;
	int n = 0;
	for (auto &h : m.headers) if (lower(h.first) == name) { if (!r) r = &h.second; n++; }
	if (count) *count = n;
	return r;
}
inline void weaken(Msg &m, Verdict v, const std::string &why) { if (v > m.v) { m.v = v; m.why = why; } }

// one line ending in CRLF (a bare LF is tolerated by the RFC's "MAY recognize a single LF"): returns false if no line end yet
inline bool get_line(const std::string &s, size_t &pos, std::string &line, bool &bare_lf) {
	size_t e = s.find('\n', pos);
	if (e == std::string::npos) return false;
	bare_lf = !(e > pos && s[e - 1] == '\r');
	line = s.substr(pos, e - pos - (bare_lf ? 0 : 1));
	pos = e + 1;
	return true;
}

// header section starting at pos; stops after the empty line
inline bool parse_headers(const std::string &s, size_t &pos, Msg &m, bool is_request, std::vector<std::pair<std::string, std::string>> &out) {
	bool first = true;
	for (;;) {
		std::string line;
		bool lf;
		if (!get_line(s, pos, line, lf)) return false;
		if (lf) weaken(m, EITHER, "bare LF as line terminator");
		if (line.empty()) return true;
		if (line.find('\r') != std::string::npos) weaken(m, EITHER, "bare CR inside a field line");
		if (line.find('\0') != std::string::npos) weaken(m, REJECT, "NUL in a field line");
		if (line[0] == ' ' || line[0] == '\t') {
			// obs-fold (or whitespace before the first field): a server MUST reject or replace by SP; a client the latter
			if (first) { weaken(m, REJECT, "whitespace before the first header field"); first = false; continue; }
			weaken(m, EITHER, "obsolete line folding");
			if (!out.empty()) out.back().second += " " + trim(line);
			continue;
		}
		first = false;
		size_t c = line.find(':');
		if (c == std::string::npos) { weaken(m, REJECT, "field line without a colon"); continue; }
		std::string name = line.substr(0, c), value = trim(line.substr(c + 1));
		if (name.empty()) { weaken(m, REJECT, "empty field name"); continue; }
		if (name.back() == ' ' || name.back() == '\t') weaken(m, is_request ? REJECT : EITHER, "whitespace between field name and colon");
		else if (!is_token(name)) weaken(m, is_request ? REJECT : EITHER, "field name is not a token");
		for (unsigned char ch : value) if (ch < 0x20 && ch != '\t') weaken(m, EITHER, "control character in a field value");
		out.emplace_back(name, value);
	}
}

inline bool parse_uint(const std::string &v, uint64_t &out) {
	if (v.empty() || v.size() > 18) return false;
	out = 0;
	for (unsigned char c : v) { if (c < '0' || c > '9') return false; out = out * 10 + (c - '0'); }
	return true;
}

// body framing per RFC 9112 section 6.3; returns false if more bytes are needed
inline bool parse_body(const std::string &s, size_t &pos, Msg &m, bool is_request, bool no_body_status, bool eof, const std::string &req_method) {
	int n_te = 0, n_cl = 0;
	const std::string *te = find_hdr(m, "transfer-encoding", &n_te), *cl = find_hdr(m, "content-length", &n_cl);
	if (!is_request && (no_body_status || req_method == "HEAD")) { if (cl) { uint64_t x; if (parse_uint(*cl, x)) { m.has_cl = true; m.content_length = x; } } return true; }
	if (te) {
		// all Transfer-Encoding field lines form one list
		std::string all;
		for (auto &h : m.headers) if (lower(h.first) == "transfer-encoding") all += (all.empty() ? "" : ",") + h.second;
		std::vector<std::string> codings;
		size_t p = 0;
		while (p <= all.size()) { size_t c = all.find(',', p); if (c == std::string::npos) c = all.size(); std::string t = lower(trim(all.substr(p, c - p))); if (!t.empty()) codings.push_back(t); p = c + 1; }
		if (cl) weaken(m, EITHER, "both Transfer-Encoding and Content-Length (Transfer-Encoding wins, or reject)");
		if (m.major == 1 && m.minor == 0) weaken(m, EITHER, "Transfer-Encoding in an HTTP/1.0 message");
		bool last_chunked = !codings.empty() && codings.back() == "chunked";
		if (!last_chunked) {
			if (is_request) { weaken(m, REJECT, "Transfer-Encoding of a request does not end in chunked"); return true; }
			// response: read until close
			m.close_delimited = true;
			m.keep_alive = false;
			if (!eof) return false;
			m.body = s.substr(pos);
			pos = s.size();
			return true;
		}
		if (codings.size() > 1) weaken(m, EITHER, "transfer codings other than chunked");
		m.chunked = true;
		for (;;) {
			std::string line;
			bool lf;
			if (!get_line(s, pos, line, lf)) return false;
			if (lf) weaken(m, EITHER, "bare LF after a chunk size");
			std::string sz = line;
			size_t semi = sz.find(';');
			if (semi != std::string::npos) sz = sz.substr(0, semi);	// chunk extensions are ignored
			std::string t = trim(sz);
			if (t != sz) weaken(m, EITHER, "whitespace around a chunk size");
			if (t.empty() || t.size() > 15) { weaken(m, REJECT, "chunk size missing or absurd"); return true; }
			uint64_t n = 0;
			for (unsigned char c : t) {
				int d = c >= '0' && c <= '9' ? c - '0' : (c | 32) >= 'a' && (c | 32) <= 'f' ? (c | 32) - 'a' + 10 : -1;
				if (d < 0) { weaken(m, REJECT, "chunk size is not hexadecimal"); return true; }
				n = n * 16 + (unsigned)d;
			}
			if (n == 0) {
				// trailer section
				std::vector<std::pair<std::string, std::string>> tr;
				if (!parse_headers(s, pos, m, is_request, tr)) return false;
				m.trailers = tr;
				return true;
			}
			if (s.size() - pos < n + 1) return false;
			m.body.append(s, pos, n);
			pos += n;
			if (s.compare(pos, 2, "\r\n") == 0) pos += 2;
			else if (s[pos] == '\n') { pos += 1; weaken(m, EITHER, "bare LF after chunk data"); }
			else if (s.size() - pos < 2) return false;
			else { weaken(m, REJECT, "chunk data not followed by CRLF"); return true; }
		}
	}
	if (cl) {
		// several field lines or a comma list: identical valid values MAY be accepted as one, anything else MUST be rejected
		std::vector<std::string> vals;
		for (auto &h : m.headers) if (lower(h.first) == "content-length") {
			size_t p = 0;
			const std::string &all = h.second;
			while (p <= all.size()) { size_t c = all.find(',', p); if (c == std::string::npos) c = all.size(); vals.push_back(trim(all.substr(p, c - p))); p = c + 1; }
		}
		uint64_t n = 0;
		bool ok = true;
		for (size_t i = 0; i < vals.size(); i++) { uint64_t x; if (!parse_uint(vals[i], x)) ok = false; else if (i && x != n) ok = false; else n = x; }
		if (!ok) { weaken(m, REJECT, "Content-Length is not a single valid length"); return true; }
		if (vals.size() > 1) weaken(m, EITHER, "Content-Length repeated with identical values");
		m.has_cl = true;
		m.content_length = n;
		if (s.size() - pos < n) { if (eof) { weaken(m, REJECT, "message ends before Content-Length bytes arrived"); m.body = s.substr(pos); pos = s.size(); return true; } return false; }
		m.body = s.substr(pos, n);
		pos += n;
		return true;
	}
	if (is_request) return true;	// no body
	m.close_delimited = true;
	m.keep_alive = false;
	if (!eof) return false;
	m.body = s.substr(pos);
	pos = s.size();
	return true;
}

inline void connection_persistence(Msg &m) {
	bool close = false, ka = false;
	for (auto &h : m.headers) if (lower(h.first) == "connection") {
		std::string v = lower(h.second);
		size_t p = 0;
		while (p <= v.size()) { size_t c = v.find(',', p); if (c == std::string::npos) c = v.size(); std::string t = trim(v.substr(p, c - p)); if (t == "close") close = true; if (t == "keep-alive") ka = true; p = c + 1; }
	}
	if (close) m.keep_alive = false;
	else if (m.major == 1 && m.minor == 0 && !ka) m.keep_alive = false;
}

// one request starting at pos. INCOMPLETE: the stream ends inside it.
inline Msg parse_request(const std::string &s, size_t pos0) {
	Msg m;
	size_t pos = pos0;
	std::string line;
	bool lf;
	// a server SHOULD ignore at least one empty line before the request line
	for (int k = 0;; k++) {
		size_t save = pos;
		if (!get_line(s, pos, line, lf)) { m.v = INCOMPLETE; return m; }
		if (!line.empty()) break;
		weaken(m, EITHER, "empty line before the request line");
		if (k > 4) { m.v = REJECT; m.why = "empty lines instead of a request"; m.consumed = pos - pos0; return m; }
		(void)save;
	}
	if (lf) weaken(m, EITHER, "bare LF after the request line");
	size_t a = line.find(' '), b = line.rfind(' ');
	if (a == std::string::npos || b == a) { m.v = REJECT; m.why = "request line does not have three parts"; m.consumed = pos - pos0; return m; }
	m.method = line.substr(0, a);
	m.target = line.substr(a + 1, b - a - 1);
	std::string ver = line.substr(b + 1);
	if (!is_token(m.method)) weaken(m, REJECT, "method is not a token");
	if (m.target.empty() || m.target.find(' ') != std::string::npos || m.target.find('\t') != std::string::npos) weaken(m, m.target.empty() ? REJECT : EITHER, "whitespace in the request target");
	for (unsigned char c : m.target) if (c < 0x21 || c == 0x7f) weaken(m, EITHER, "control or space character in the request target");
	if (ver.size() == 8 && ver.compare(0, 5, "HTTP/") == 0 && isdigit((unsigned char)ver[5]) && ver[6] == '.' && isdigit((unsigned char)ver[7])) { m.major = ver[5] - '0'; m.minor = ver[7] - '0'; if (m.major != 1) weaken(m, EITHER, "HTTP major version other than 1"); }
	else weaken(m, REJECT, "malformed HTTP version");
	if (!parse_headers(s, pos, m, true, m.headers)) { m.v = INCOMPLETE; return m; }
	m.header_bytes = pos - pos0;
	if (m.major == 1 && m.minor == 1) { int nh = 0; find_hdr(m, "host", &nh); if (nh != 1) weaken(m, nh == 0 ? EITHER : REJECT, nh == 0 ? "HTTP/1.1 request without Host" : "several Host fields"); }
	connection_persistence(m);
	if (m.v != REJECT && !parse_body(s, pos, m, true, false, false, "")) { m.v = INCOMPLETE; return m; }
	if (m.v == REJECT) m.keep_alive = false;
	m.consumed = pos - pos0;
	return m;
}

// one response to a request with method req_method; eof: the peer has closed after the bytes in s
inline Msg parse_response(const std::string &s, size_t pos0, const std::string &req_method, bool eof) {
	Msg m;
	size_t pos = pos0;
	std::string line;
	bool lf;
	if (!get_line(s, pos, line, lf)) { m.v = INCOMPLETE; return m; }
	if (lf) weaken(m, EITHER, "bare LF after the status line");
	if (line.size() < 12 || line.compare(0, 5, "HTTP/") != 0 || !isdigit((unsigned char)line[5]) || line[6] != '.' || !isdigit((unsigned char)line[7]) || line[8] != ' ' ||
	    !isdigit((unsigned char)line[9]) || !isdigit((unsigned char)line[10]) || !isdigit((unsigned char)line[11]) || (line.size() > 12 && line[12] != ' ')) {
		m.v = REJECT; m.why = "malformed status line"; m.consumed = pos - pos0; return m;
	}
	m.major = line[5] - '0'; m.minor = line[7] - '0';
	if (m.major != 1) weaken(m, EITHER, "HTTP major version other than 1");
	m.status = atoi(line.substr(9, 3).c_str());
	m.reason = line.size() > 13 ? line.substr(13) : "";
	if (line.size() == 12) weaken(m, EITHER, "status line without the space after the code");
	if (!parse_headers(s, pos, m, false, m.headers)) { m.v = INCOMPLETE; return m; }
	m.header_bytes = pos - pos0;
	connection_persistence(m);
	bool nobody = (m.status >= 100 && m.status < 200) || m.status == 204 || m.status == 304;
	// section 6.3 rule 2: a 2xx response to CONNECT switches the connection to a tunnel right after the header section;
	// Content-Length and Transfer-Encoding in it MUST be ignored and what follows is not HTTP
	if (req_method == "CONNECT" && m.status >= 200 && m.status < 300) { m.tunnel = true; m.keep_alive = false; m.consumed = pos - pos0; return m; }
	if (m.v != REJECT && !parse_body(s, pos, m, false, nobody, eof, req_method)) { m.v = INCOMPLETE; return m; }
	m.consumed = pos - pos0;
	return m;
}

// Is it already certain, from the bytes s[pos..) of an unfinished request, that the message exceeds a limit?
// max_headers counts the request line and the header section incl. line terminators; max_body the body octets
// (Content-Length value, or the chunk sizes announced so far). 0 = no limit.
inline bool over_limit_prefix(const std::string &s, size_t pos, size_t max_headers, size_t max_body, std::string *why) {
	size_t e = pos;
	bool ended = false;
	for (;;) {	// find the empty line that ends the header section
		size_t nl = s.find('\n', e);
		if (nl == std::string::npos) break;
		bool empty = nl == e || (nl == e + 1 && s[e] == '\r');
		e = nl + 1;
		if (empty && e - pos > 2) { ended = true; break; }
	}
	size_t hb = ended ? e - pos : s.size() - pos;
	if (max_headers && hb > max_headers) { if (why) *why = std::to_string(hb) + " bytes of header section (limit " + std::to_string(max_headers) + ")"; return true; }
	if (!ended || !max_body) return false;
	Msg m;
	size_t p2 = pos;
	std::string line; bool lf;
	if (!get_line(s, p2, line, lf)) return false;
	if (!parse_headers(s, p2, m, true, m.headers)) return false;
	if (m.v == REJECT) return false;
	int n;
	const std::string *te = find_hdr(m, "transfer-encoding", &n), *cl = find_hdr(m, "content-length", &n);
	if (te) {
		if (lower(trim(*te)) != "chunked") return false;
		uint64_t total = 0;
		for (;;) {
			if (!get_line(s, p2, line, lf)) return false;
			std::string t = trim(line.substr(0, line.find(';')));
			if (t.empty() || t.size() > 15) return false;
			uint64_t k = 0;
			for (unsigned char c : t) { int d = c >= '0' && c <= '9' ? c - '0' : (c | 32) >= 'a' && (c | 32) <= 'f' ? (c | 32) - 'a' + 10 : -1; if (d < 0) return false; k = k * 16 + (unsigned)d; }
			total += k;
			if (total > max_body) { if (why) *why = "chunks announcing " + std::to_string(total) + " body bytes so far (limit " + std::to_string(max_body) + ")"; return true; }
			if (k == 0) return false;
			if (s.size() - p2 < k + 2) return false;
			p2 += k + 2;
		}
	}
	if (cl) { uint64_t x; if (parse_uint(trim(*cl), x) && x > max_body) { if (why) *why = "Content-Length " + std::to_string(x) + " (limit " + std::to_string(max_body) + ")"; return true; } }
	return false;
}

}	// namespace h9
