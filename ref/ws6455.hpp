// Reference reading of a WebSocket client-to-server byte stream (RFC 6455 section 5), for the C31 harness.
// The stream is read frame by frame into the events a server must act on: MESSAGE (type, payload), CLOSE (the peer's
// close frame), FAIL (the connection must be closed and nothing more delivered), and it stops at the first incomplete
// frame. Where the RFC and the property leave the recipient a choice the event is marked `either`: the harness then
// accepts both outcomes and stops judging that stream there.
#pragma once
#include <cstdint>
#include <string>
#include <vector>

namespace ws {

enum { OP_CONT = 0, OP_TEXT = 1, OP_BIN = 2, OP_CLOSE = 8, OP_PING = 9, OP_PONG = 10 };

struct Event {
	enum Kind { MESSAGE, CLOSE, FAIL, EITHER } kind = MESSAGE;
	int type = 0;		// MESSAGE: OP_TEXT / OP_BIN
	std::string payload;	// MESSAGE
	std::string why;	// FAIL / EITHER
	size_t at = 0;		// offset of the frame that completed the event
};

struct Reading {
	std::vector<Event> ev;
	size_t consumed = 0;		// bytes of complete frames
	bool in_fragmented = false;	// a fragmented message is under way at the end
	size_t pings = 0;
};

// max_frame: payload length above which a frame must be refused (the implementation's documented limit)
inline Reading read_stream(const std::string &s, uint64_t max_frame) {
	Reading r;
	size_t pos = 0;
	bool frag = false;
	int frag_type = 0;
	std::string frag_payload;
	auto fail = [&](size_t at, const std::string &why) { Event e; e.kind = Event::FAIL; e.why = why; e.at = at; r.ev.push_back(e); };
	auto either = [&](size_t at, const std::string &why) { Event e; e.kind = Event::EITHER; e.why = why; e.at = at; r.ev.push_back(e); };
	for (;;) {
		size_t at = pos;
		if (s.size() - pos < 2) break;
		unsigned b0 = (unsigned char)s[pos], b1 = (unsigned char)s[pos + 1];
		bool fin = b0 & 0x80, masked = b1 & 0x80;
		unsigned rsv = b0 & 0x70, opcode = b0 & 0x0f, l7 = b1 & 0x7f;
		size_t hdr = 2;
		uint64_t len = l7;
		if (l7 == 126) {
			if (s.size() - pos < 4) break;
			len = ((uint64_t)(unsigned char)s[pos + 2] << 8) | (unsigned char)s[pos + 3];
			hdr = 4;
		} else if (l7 == 127) {
			if (s.size() - pos < 10) break;
			len = 0;
			for (int i = 0; i < 8; i++) len = (len << 8) | (unsigned char)s[pos + 2 + i];
			hdr = 10;
		}
		// what can be decided from the header alone is decided before the payload has arrived
		if ((opcode >= 3 && opcode <= 7) || opcode >= 0xb) { fail(at, "reserved opcode " + std::to_string(opcode)); break; }
		if (len > max_frame) { fail(at, "frame of " + std::to_string(len) + " bytes is above the size limit"); break; }
		if (opcode >= 8 && !fin) { fail(at, "fragmented control frame"); break; }
		if (opcode == OP_CONT && !frag) { fail(at, "continuation frame with no message under way"); break; }
		if ((opcode == OP_TEXT || opcode == OP_BIN) && frag) { fail(at, "new data frame inside a fragmented message"); break; }
		if (rsv) { either(at, "reserved bits set"); break; }
		if (opcode >= 8 && len > 125) { either(at, "control frame longer than 125 bytes"); break; }
		if (l7 == 127 && (len >> 63)) { either(at, "most significant bit of a 64-bit length set"); break; }
		size_t need = hdr + (masked ? 4 : 0) + (size_t)len;
		if (s.size() - pos < need) break;
		std::string payload = s.substr(pos + hdr + (masked ? 4 : 0), (size_t)len);
		if (masked) for (size_t i = 0; i < payload.size(); i++) payload[i] ^= s[pos + hdr + (i & 3)];
		pos += need;
		r.consumed = pos;
		if (opcode == OP_PING) { r.pings++; continue; }
		if (opcode == OP_PONG) continue;
		if (opcode == OP_CLOSE) { Event e; e.kind = Event::CLOSE; e.at = at; r.ev.push_back(e); break; }
		if (opcode == OP_CONT) {
			frag_payload += payload;
			if (fin) { Event e; e.type = frag_type; e.payload = frag_payload; e.at = at; r.ev.push_back(e); frag = false; frag_payload.clear(); }
			continue;
		}
		if (!fin) { frag = true; frag_type = (int)opcode; frag_payload = payload; continue; }
		Event e; e.type = (int)opcode; e.payload = payload; e.at = at;
		r.ev.push_back(e);
	}
	r.in_fragmented = frag;
	return r;
}

// encoder for the generator
inline std::string frame(bool fin, unsigned rsv, unsigned opcode, bool masked, uint32_t maskkey, const std::string &payload, int lenform /*0 minimal, 1 force 16-bit, 2 force 64-bit*/, uint64_t lie_len = UINT64_MAX) {
	std::string f;
	f += (char)((fin ? 0x80 : 0) | (rsv & 0x70) | (opcode & 0x0f));
	uint64_t n = lie_len != UINT64_MAX ? lie_len : payload.size();
	int form = lenform == 2 || n > 65535 ? 2 : (lenform == 1 || n > 125 ? 1 : 0);
	if (form == 0) f += (char)((masked ? 0x80 : 0) | n);
	else if (form == 1) { f += (char)((masked ? 0x80 : 0) | 126); f += (char)(n >> 8); f += (char)n; }
	else { f += (char)((masked ? 0x80 : 0) | 127); for (int i = 56; i >= 0; i -= 8) f += (char)(n >> i); }
	if (masked) {
		char k[4] = {(char)(maskkey >> 24), (char)(maskkey >> 16), (char)(maskkey >> 8), (char)maskkey};
		f.append(k, 4);
		for (size_t i = 0; i < payload.size(); i++) f += (char)(payload[i] ^ k[i & 3]);
	} else f += payload;
	return f;
}

}	// namespace ws
