/* Peeks through libevent's internal headers for the C++ harnesses (C only: the
 * internal headers are not C++ clean). Nothing here changes library state. */
#include "event2/event-config.h"
#include "evconfig-private.h"
#include <sys/types.h>
#include <sys/queue.h>
#include <stddef.h>
#include <string.h>
#include "event2/event.h"
#include "event2/event_struct.h"
#include "event2/buffer.h"
#include "event2/buffer_compat.h"
#include "event2/util.h"
#include <stdio.h>
#include "event2/bufferevent.h"
#include "event-internal.h"
#include "evbuffer-internal.h"
#include "bufferevent-internal.h"
#include "evsignal-internal.h"
#include "shim.h"

void shim_base_assert_ok(struct event_base *b) { event_base_assert_ok_(b); }
int shim_base_notify_fd(struct event_base *b, int which) { return b->th_notify_fd[which]; }
int shim_base_sig_pair(struct event_base *b, int which) { return b->sig.ev_signal_pair[which]; }
int shim_base_n_common(struct event_base *b) { return b->n_common_timeouts; }
int shim_base_running_loop(struct event_base *b) { return b->running_loop; }
int shim_base_event_count(struct event_base *b) { return b->event_count; }
int shim_base_event_count_active(struct event_base *b) { return b->event_count_active; }
void shim_event_active_later(struct event *ev, int res) { event_active_later_(ev, res); }
unsigned shim_event_flags(const struct event *ev) { return ev->ev_flags; }
int shim_evbuffer_cb_nodefer_flag(void) { return EVBUFFER_CB_NODEFER; }
int shim_bev_refcnt(struct bufferevent *bev) { return BEV_UPCAST(bev)->refcnt; }
int shim_bev_read_suspended(struct bufferevent *bev) { return BEV_UPCAST(bev)->read_suspended; }
int shim_bev_write_suspended(struct bufferevent *bev) { return BEV_UPCAST(bev)->write_suspended; }

/* evbuffer chain invariants (C12). Returns NULL when consistent, else a static description. */
const char *shim_evbuffer_validate(struct evbuffer *buf)
{
	static char msg[200];
	struct evbuffer_chain *chain, *last_with_data = NULL, *prev = NULL;
	size_t total = 0;
	int seen_empty_after_data = 0;
	int n = 0;
	if (buf->first == NULL) {
		if (buf->last != NULL) return "first==NULL but last!=NULL";
		if (buf->last_with_datap != &buf->first) return "empty buffer: last_with_datap != &first";
		if (buf->total_len != 0) return "empty buffer: total_len != 0";
		return NULL;
	}
	for (chain = buf->first; chain; prev = chain, chain = chain->next) {
		n++;
		if (n > 1000000) return "chain list cycle";
		if (chain->misalign < 0) return "negative misalign";
		if ((size_t)chain->misalign + chain->off > chain->buffer_len) {
			snprintf(msg, sizeof msg, "chain %d: misalign %lld + off %zu > buffer_len %zu", n, (long long)chain->misalign, chain->off, chain->buffer_len);
			return msg;
		}
		if (chain->refcnt < 1) return "chain refcnt < 1";
		total += chain->off;
		/* empty chains between data chains are tolerated by every walker; what must hold is that
		 * *last_with_datap is the last chain holding data (checked below) */
		if (chain->off) last_with_data = chain;
		else if (last_with_data) seen_empty_after_data = 1;
		if (chain->next == NULL && buf->last != chain) return "last does not point at the final chain";
	}
	(void)prev;
	if (total != buf->total_len) {
		snprintf(msg, sizeof msg, "total_len %zu != sum of chain offs %zu", buf->total_len, total);
		return msg;
	}
	if (last_with_data) {
		if (*buf->last_with_datap != last_with_data) return "*last_with_datap is not the last chain with data";
	} else {
		if (buf->last_with_datap != &buf->first) return "no data but last_with_datap != &first";
	}
	return NULL;
}
int shim_evbuffer_nchains(struct evbuffer *buf)
{
	int n = 0;
	struct evbuffer_chain *c;
	for (c = buf->first; c; c = c->next) n++;
	return n;
}
int shim_evbuffer_nchains_data(struct evbuffer *buf)
{
	int n = 0;
	struct evbuffer_chain *c;
	for (c = buf->first; c; c = c->next) if (c->off) n++;
	return n;
}
