#pragma once
#ifdef __cplusplus
extern "C" {
#endif
struct event_base; struct event; struct evbuffer; struct bufferevent;
void shim_base_assert_ok(struct event_base *b);
int shim_base_notify_fd(struct event_base *b, int which);
int shim_base_sig_pair(struct event_base *b, int which);
int shim_base_n_common(struct event_base *b);
int shim_base_running_loop(struct event_base *b);
int shim_base_event_count(struct event_base *b);
int shim_base_event_count_active(struct event_base *b);
void shim_event_active_later(struct event *ev, int res);
unsigned shim_event_flags(const struct event *ev);
int shim_evbuffer_cb_nodefer_flag(void);
int shim_bev_refcnt(struct bufferevent *bev);
int shim_bev_read_suspended(struct bufferevent *bev);
int shim_bev_write_suspended(struct bufferevent *bev);
const char *shim_evbuffer_validate(struct evbuffer *buf);
int shim_evbuffer_nchains(struct evbuffer *buf);
int shim_evbuffer_nchains_data(struct evbuffer *buf);
#ifdef __cplusplus
}
#endif
