// Minimal JSON value / parser / writer (ordered keys; deterministic output).
#pragma once
#include <cstdint>
#include <cstdio>
#include <cstdlib>
#include <cstring>
#include <map>
#include <string>
#include <vector>

namespace js {
struct Val {
	enum T { NUL, BOOL, INT, DBL, STR, ARR, OBJ } t = NUL;
	bool b = false;
	int64_t i = 0;
	double d = 0;
	std::string s;
	std::vector<Val> a;
	std::vector<std::pair<std::string, Val>> o;	// insertion ordered

	Val() {}
	Val(bool v) : t(BOOL), b(v) {}
	Val(int v) : t(INT), i(v) {}
	Val(long v) : t(INT), i(v) {}
	Val(long long v) : t(INT), i(v) {}
	Val(unsigned v) : t(INT), i(v) {}
	Val(unsigned long v) : t(INT), i((int64_t)v) {}
	Val(unsigned long long v) : t(INT), i((int64_t)v) {}
	Val(double v) : t(DBL), d(v) {}
	Val(const char *v) : t(STR), s(v) {}
	Val(const std::string &v) : t(STR), s(v) {}
	static Val arr() { Val v; v.t = ARR; return v; }
	static Val obj() { Val v; v.t = OBJ; return v; }

	Val &operator[](const std::string &k) {
		if (t == NUL) t = OBJ;
		for (auto &kv : o) if (kv.first == k) return kv.second;
		o.emplace_back(k, Val());
		return o.back().second;
	}
	const Val *get(const std::string &k) const {
		for (auto &kv : o) if (kv.first == k) return &kv.second;
		return nullptr;
	}
	bool has(const std::string &k) const { return get(k) != nullptr; }
	int64_t geti(const std::string &k, int64_t def = 0) const {
		const Val *v = get(k);
		if (!v) return def;
		if (v->t == INT) return v->i;
		if (v->t == DBL) return (int64_t)v->d;
		if (v->t == BOOL) return v->b;
		return def;
	}
	std::string gets(const std::string &k, const std::string &def = "") const {
		const Val *v = get(k);
		return (v && v->t == STR) ? v->s : def;
	}
	void push(const Val &v) { if (t == NUL) t = ARR; a.push_back(v); }
};

inline void esc(std::string &out, const std::string &s) {
	out += '"';
	for (unsigned char c : s) {
		switch (c) {
		case '"': out += "\\\""; break;
		case '\\': out += "\\\\"; break;
		case '\n': out += "\\n"; break;
		case '\r': out += "\\r"; break;
		case '\t': out += "\\t"; break;
		default:
			if (c < 0x20 || c >= 0x7f) { char b[8]; snprintf(b, sizeof b, "\\u%04x", c); out += b; }
			else out += (char)c;
		}
	}
	out += '"';
}

inline void dump(const Val &v, std::string &out) {
	char b[40];
	switch (v.t) {
	case Val::NUL: out += "null"; break;
	case Val::BOOL: out += v.b ? "true" : "false"; break;
	case Val::INT: snprintf(b, sizeof b, "%lld", (long long)v.i); out += b; break;
	case Val::DBL: snprintf(b, sizeof b, "%.6g", v.d); out += b; break;
	case Val::STR: esc(out, v.s); break;
	case Val::ARR:
		out += '[';
		for (size_t k = 0; k < v.a.size(); k++) { if (k) out += ','; dump(v.a[k], out); }
		out += ']';
		break;
	case Val::OBJ:
		out += '{';
		for (size_t k = 0; k < v.o.size(); k++) {
			if (k) out += ',';
			esc(out, v.o[k].first); out += ':'; dump(v.o[k].second, out);
		}
		out += '}';
		break;
	}
}
inline std::string dump(const Val &v) { std::string s; dump(v, s); return s; }

struct Parser {
	const char *p, *e;
	bool ok = true;
	void ws() { while (p < e && (*p == ' ' || *p == '\n' || *p == '\t' || *p == '\r')) p++; }
	Val parse() {
		ws();
		if (p >= e) { ok = false; return Val(); }
		char c = *p;
		if (c == '{') {
			Val v = Val::obj(); p++; ws();
			if (p < e && *p == '}') { p++; return v; }
			while (ok) {
				ws(); Val k = parse(); ws();
				if (k.t != Val::STR || p >= e || *p != ':') { ok = false; break; }
				p++;
				Val x = parse();
				v.o.emplace_back(k.s, x);
				ws();
				if (p < e && *p == ',') { p++; continue; }
				if (p < e && *p == '}') { p++; break; }
				ok = false;
			}
			return v;
		}
		if (c == '[') {
			Val v = Val::arr(); p++; ws();
			if (p < e && *p == ']') { p++; return v; }
			while (ok) {
				v.a.push_back(parse()); ws();
				if (p < e && *p == ',') { p++; continue; }
				if (p < e && *p == ']') { p++; break; }
				ok = false;
			}
			return v;
		}
		if (c == '"') {
			p++; std::string s;
			while (p < e && *p != '"') {
				if (*p == '\\' && p + 1 < e) {
					p++;
					switch (*p) {
					case 'n': s += '\n'; break;
					case 'r': s += '\r'; break;
					case 't': s += '\t'; break;
					case 'u': {
						if (p + 4 < e) { char h[5] = {p[1], p[2], p[3], p[4], 0}; s += (char)strtol(h, nullptr, 16); p += 4; }
						break;
					}
					default: s += *p;
					}
					p++;
				} else s += *p++;
			}
			if (p < e) p++; else ok = false;
			return Val(s);
		}
		if (!strncmp(p, "true", 4)) { p += 4; return Val(true); }
		if (!strncmp(p, "false", 5)) { p += 5; return Val(false); }
		if (!strncmp(p, "null", 4)) { p += 4; return Val(); }
		{
			char *end; bool isd = false;
			for (const char *q = p; q < e && (isdigit((unsigned char)*q) || *q == '-' || *q == '+' || *q == '.' || *q == 'e' || *q == 'E'); q++)
				if (*q == '.' || *q == 'e' || *q == 'E') isd = true;
			if (isd) { double d = strtod(p, &end); if (end == p) ok = false; p = end; return Val(d); }
			long long i = strtoll(p, &end, 10);
			if (end == p) ok = false;
			p = end;
			return Val(i);
		}
	}
};
inline bool parse(const std::string &s, Val &out) {
	Parser P{s.data(), s.data() + s.size()};
	out = P.parse();
	return P.ok;
}
}	// namespace js
