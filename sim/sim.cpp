#include "sim.hpp"
#include <algorithm>
#include <errno.h>
#include <fcntl.h>
#include <signal.h>
#include <sys/mman.h>
#include <sys/resource.h>
#include <sys/stat.h>
#include <sys/time.h>
#include <sys/wait.h>
#include <time.h>
#include <unistd.h>

// run-scope hooks implemented by vk/ and mon/
extern "C" int __real_clock_gettime(clockid_t, struct timespec *);
extern "C" void vk_run_begin(void);
extern "C" void vk_run_end(void);
extern "C" void mon_process_init(int cls);
extern "C" void mon_run_begin(void);
extern "C" void mon_run_end(void);
extern "C" long mon_process_exit_live(void);

extern "C" void __sanitizer_print_stack_trace(void);
namespace sim {

Ctx G;
std::set<std::string> g_suppress;
std::string g_prop;

void Ctx::reset(uint64_t sd) {
	seed = sd;
	net.seed(mix(sd, hash_str("net")));
	sched.seed(mix(sd, hash_str("sched")));
	lib.seed(mix(sd, hash_str("lib-rng")));
	bug.seed(mix(sd, hash_str("buggify")));
	alloc.seed(mix(sd, hash_str("alloc")));
	misc.seed(mix(sd, hash_str("misc")));
	hash = 0xcbf29ce484222325ULL;
	nlines = 0;
	lines.clear();
	violated = false;
	rule.clear();
	detail.clear();
	cnt.clear();
	nontrivial = false;
	capped = false;
	now_ns = start_ns = CLOCK_START_NS;
	wall_off_ns = 1700000000LL * NS - CLOCK_START_NS;
	steps = 0;
}

void tr(const char *fmt, ...) {
	char buf[512];
	va_list ap;
	va_start(ap, fmt);
	int n = vsnprintf(buf, sizeof buf, fmt, ap);
	va_end(ap);
	if (n < 0) n = 0;
	if (n >= (int)sizeof buf) n = sizeof buf - 1;
	uint64_t h = G.hash;
	for (int i = 0; i < n; i++) { h ^= (unsigned char)buf[i]; h *= 1099511628211ULL; }
	h ^= 0xff; h *= 1099511628211ULL;
	G.hash = h;
	G.nlines++;
	static int live = getenv("SIM_LIVE") ? 1 : 0;
	if (live) fprintf(stderr, "%6llu t=%lld.%09lld %s\n", (unsigned long long)G.nlines, (long long)(G.now_ns / NS), (long long)(G.now_ns % NS), buf);
	if (G.keep) {
		char pre[48];
		snprintf(pre, sizeof pre, "%6llu t=%lld.%09lld ", (unsigned long long)G.nlines,
		    (long long)(G.now_ns / NS), (long long)(G.now_ns % NS));
		G.lines.push_back(std::string(pre) + buf);
		if (G.lines.size() > 300) G.lines.pop_front();
	}
}

void violation(const char *rule, const char *fmt, ...) {
	char buf[768];
	va_list ap;
	va_start(ap, fmt);
	vsnprintf(buf, sizeof buf, fmt, ap);
	va_end(ap);
	if (G.violated) return;
	G.violated = true;
	G.rule = rule;
	G.detail = buf;
	tr("orc VIOLATION %s: %s", rule, buf);
	fprintf(stderr, "EARLY-VIOLATION %s %s\n", rule, buf);
	if (getenv("VERIF_BT")) __sanitizer_print_stack_trace();
}

// ---------------------------------------------------------------------------
static const Harness *H;

static const char *opname(int code) { return (code >= 0 && code < H->nops) ? H->opnames[code] : "?"; }
static int opcode(const std::string &s) {
	for (int i = 0; i < H->nops; i++) if (s == H->opnames[i]) return i;
	return -1;
}

static bool printable(const std::string &s) {
	for (unsigned char c : s) if (c < 0x20 || c >= 0x7f || c == '\\') return false;
	return true;
}
static std::string tohex(const std::string &s) {
	static const char *d = "0123456789abcdef";
	std::string o;
	for (unsigned char c : s) { o += d[c >> 4]; o += d[c & 15]; }
	return o;
}
static std::string fromhex(const std::string &s) {
	std::string o;
	for (size_t i = 0; i + 1 < s.size(); i += 2) {
		char h[3] = {s[i], s[i + 1], 0};
		o += (char)strtol(h, nullptr, 16);
	}
	return o;
}

js::Val plan_to_json(const Plan &p, const Harness &h) {
	js::Val v = js::Val::obj();
	v["format"] = 1;
	v["harness"] = h.name;
	v["property"] = p.prop;
	v["tier"] = p.tier;
	v["seed"] = (long long)p.seed;
	v["class"] = p.cls;
	js::Val cfg = js::Val::obj();
	for (auto &kv : p.cfg) cfg[kv.first] = (long long)kv.second;
	v["config"] = cfg;
	js::Val ops = js::Val::arr();
	for (auto &op : p.ops) {
		js::Val o = js::Val::arr();
		o.push(opname(op.code));
		int last = SIM_MAXARGS - 1;
		while (last >= 0 && op.a[last] == 0) last--;
		for (int i = 0; i <= last; i++) o.push((long long)op.a[i]);
		if (op.ctx >= 0 || !op.s.empty()) {
			js::Val x = js::Val::obj();
			if (op.ctx >= 0) x["in_cb_of"] = op.ctx;
			if (!op.s.empty()) {
				if (printable(op.s)) x["s"] = op.s; else x["hex"] = tohex(op.s);
			}
			o.push(x);
		}
		ops.push(o);
	}
	v["ops"] = ops;
	return v;
}

bool plan_from_json(const js::Val &v, Plan &p, const Harness &h) {
	p.harness = v.gets("harness");
	p.prop = v.gets("property");
	p.tier = v.gets("tier", "quick");
	p.seed = (uint64_t)v.geti("seed");
	p.cls = (int)v.geti("class");
	p.cfg.clear();
	p.ops.clear();
	if (const js::Val *c = v.get("config"))
		for (auto &kv : c->o) p.cfg[kv.first] = kv.second.i;
	if (const js::Val *o = v.get("ops")) {
		for (auto &e : o->a) {
			if (e.t != js::Val::ARR || e.a.empty()) return false;
			Op op;
			op.code = opcode(e.a[0].s);
			if (op.code < 0) return false;
			int k = 0;
			for (size_t i = 1; i < e.a.size(); i++) {
				if (e.a[i].t == js::Val::OBJ) {
					op.ctx = (int)e.a[i].geti("in_cb_of", -1);
					if (e.a[i].has("s")) op.s = e.a[i].gets("s");
					else if (e.a[i].has("hex")) op.s = fromhex(e.a[i].gets("hex"));
				} else if (k < SIM_MAXARGS) op.a[k++] = e.a[i].i;
			}
			p.ops.push_back(op);
		}
	}
	return true;
}

struct Result {
	bool violated = false, crashed = false, capped = false, nontrivial = false;
	std::string rule, detail;
	uint64_t hash = 0, steps = 0;
	int64_t sim_ns = 0;
	std::map<std::string, int64_t> cnt;
	std::vector<std::string> tail;
};

static void run_inproc(const Plan &p, bool keep, Result &r) {
	G.reset(p.seed);
	G.keep = keep;
	G.cls = p.cls;
	vk_run_begin();
	mon_run_begin();
	H->execute(p);
	mon_run_end();
	vk_run_end();
	r.violated = G.violated;
	r.rule = G.rule;
	r.detail = G.detail;
	r.hash = G.hash;
	r.capped = G.capped;
	r.nontrivial = G.nontrivial;
	r.steps = G.steps;
	r.sim_ns = G.now_ns - G.start_ns;
	r.cnt = G.cnt;
	if (keep) r.tail.assign(G.lines.begin(), G.lines.end());
}

static js::Val result_to_json(const Result &r) {
	js::Val v = js::Val::obj();
	v["violated"] = r.violated;
	v["rule"] = r.rule;
	v["detail"] = r.detail;
	char hb[32];
	snprintf(hb, sizeof hb, "%016llx", (unsigned long long)r.hash);
	v["hash"] = hb;
	v["capped"] = r.capped;
	v["nontrivial"] = r.nontrivial;
	v["steps"] = (long long)r.steps;
	v["sim_ns"] = (long long)r.sim_ns;
	js::Val c = js::Val::obj();
	for (auto &kv : r.cnt) c[kv.first] = (long long)kv.second;
	v["counters"] = c;
	js::Val t = js::Val::arr();
	for (auto &l : r.tail) t.push(l);
	v["tail"] = t;
	return v;
}
static void result_from_json(const js::Val &v, Result &r) {
	r.violated = v.geti("violated");
	r.rule = v.gets("rule");
	r.detail = v.gets("detail");
	r.hash = strtoull(v.gets("hash", "0").c_str(), nullptr, 16);
	r.capped = v.geti("capped");
	r.nontrivial = v.geti("nontrivial");
	r.steps = v.geti("steps");
	r.sim_ns = v.geti("sim_ns");
	if (const js::Val *c = v.get("counters")) for (auto &kv : c->o) r.cnt[kv.first] = kv.second.i;
	if (const js::Val *t = v.get("tail")) for (auto &l : t->a) r.tail.push_back(l.s);
}

static int high_fd(int fd) {
	int n = fcntl(fd, F_DUPFD_CLOEXEC, 1000);
	if (n < 0) { perror("F_DUPFD"); _exit(99); }
	close(fd);
	return n;
}

// Classify a crash from the sanitizer / fatal text the child wrote on stderr.
static std::string classify_crash(const std::string &err, int status) {
	std::string kind = "crash";
	size_t p = err.find("ERROR: AddressSanitizer: ");
	if (p != std::string::npos) {
		size_t s = p + strlen("ERROR: AddressSanitizer: ");
		size_t e = err.find_first_of(" \n", s);
		kind = "asan-" + err.substr(s, e - s);
	} else if (WIFSIGNALED(status)) {
		int sg = WTERMSIG(status);
		if (sg == SIGALRM || sg == SIGPROF) return "hang";
		kind = "signal-" + std::to_string(sg);
	} else if (WIFEXITED(status)) {
		kind = "exit-" + std::to_string(WEXITSTATUS(status));
	}
	// first frame that names a libevent source function: "in <func> /path/file.c:line"
	std::string func;
	size_t q = p == std::string::npos ? 0 : p;
	while ((q = err.find("    #", q)) != std::string::npos) {
		size_t in = err.find(" in ", q);
		size_t nl = err.find('\n', q);
		if (in == std::string::npos || (nl != std::string::npos && in > nl)) { q = nl == std::string::npos ? err.size() : nl; continue; }
		size_t fe = err.find(' ', in + 4);
		std::string f = err.substr(in + 4, fe - (in + 4));
		std::string rest = err.substr(fe, (nl == std::string::npos ? err.size() : nl) - fe);
		bool lib = rest.find(".c:") != std::string::npos && rest.find("/verif/") == std::string::npos && rest.find("compiler-rt") == std::string::npos;
		if (lib && f.find("__") != 0 && f != "free" && f != "malloc") { func = f; break; }
		q = nl == std::string::npos ? err.size() : nl;
	}
	return func.empty() ? kind : kind + "@" + func;
}

// Watchdog for one run: CPU time (independent of how loaded the machine is) with a generous wall-clock backstop for a
// run that blocks in the kernel. A run of this suite takes milliseconds to a few seconds of CPU.
static void watchdog(int cpu_s) {
	struct itimerval it;
	memset(&it, 0, sizeof it);
	it.it_value.tv_sec = cpu_s;
	setitimer(ITIMER_PROF, &it, nullptr);
	alarm(cpu_s ? 10 * cpu_s : 0);
}

static int g_forked_runs = 0;
static Result run_forked(const Plan &p, bool keep) {
	Result r;
	g_forked_runs++;
	int pfd[2];
	if (pipe(pfd) < 0) { perror("pipe"); _exit(99); }
	int rd = high_fd(pfd[0]), wr = high_fd(pfd[1]);
	int efd = high_fd(memfd_create("stderr", 0));
	fflush(stdout);
	fflush(stderr);
	pid_t pid = fork();
	if (pid == 0) {
		close(rd);
		if (!getenv("SIM_LIVE")) dup2(efd, 2);
		signal(SIGPROF, SIG_DFL);
		watchdog(30);
		Result cr;
		run_inproc(p, keep, cr);
		std::string s = js::dump(result_to_json(cr));
		size_t off = 0;
		while (off < s.size()) {
			ssize_t n = ::write(wr, s.data() + off, s.size() - off);
			if (n <= 0) break;
			off += n;
		}
		_exit(0);
	}
	close(wr);
	std::string in;
	char buf[65536];
	ssize_t n;
	while ((n = read(rd, buf, sizeof buf)) > 0) in.append(buf, n);
	close(rd);
	int status = 0;
	waitpid(pid, &status, 0);
	std::string err;
	lseek(efd, 0, SEEK_SET);
	while ((n = read(efd, buf, sizeof buf)) > 0) { err.append(buf, n); if (err.size() > (1 << 20)) break; }
	close(efd);
	js::Val v;
	if (!in.empty() && js::parse(in, v) && WIFEXITED(status) && WEXITSTATUS(status) == 0) {
		result_from_json(v, r);
		return r;
	}
	r.violated = true;
	r.crashed = true;
	std::string cls = classify_crash(err, status);
	// a fatal/ASan report belongs to the property under check unless the harness said otherwise
	r.rule = p.prop + "." + cls;
	size_t ep = err.find("ERROR: AddressSanitizer");
	r.detail = ep == std::string::npos ? err.substr(0, 600) : err.substr(ep, 900);
	if (!in.empty() && js::parse(in, v)) {	// child reported and then died in teardown
		Result pr; result_from_json(v, pr);
		if (pr.violated) { r.rule = pr.rule; r.detail = pr.detail; r.crashed = false; }
	}
	// early violation recorded by the child before it died
	size_t evp = err.rfind("EARLY-VIOLATION ");
	if (evp != std::string::npos) {
		size_t sp = err.find(' ', evp + 16);
		size_t nl = err.find('\n', evp);
		if (sp != std::string::npos && nl != std::string::npos && sp < nl) {
			r.rule = err.substr(evp + 16, sp - (evp + 16));
			r.detail = err.substr(sp + 1, nl - sp - 1);
		}
	}
	r.hash = hash_str(r.rule.c_str());
	return r;
}

static std::string ruleclass(const std::string &rule) {	// strip "@func" detail? keep whole rule as class
	return rule;
}

static double wall() {
	struct timespec ts;
	__real_clock_gettime(CLOCK_MONOTONIC, &ts);	// the real clock (driver bookkeeping only, never in a trace)
	return ts.tv_sec + ts.tv_nsec * 1e-9;
}

// ddmin + argument + configuration shrinking; candidates accepted only for the same rule
static Plan shrink(const Plan &orig, const std::string &rule, int budget, double tbudget) {
	Plan best = orig;
	double t0 = wall();
	int used = 0;
	auto fails = [&](const Plan &c) -> bool {
		if (used >= budget || wall() - t0 > tbudget) return false;
		used++;
		Result r = run_forked(c, false);
		return r.violated && ruleclass(r.rule) == rule;
	};
	// 1. ddmin over ops
	size_t chunk = best.ops.size() / 2;
	while (chunk >= 1 && !best.ops.empty()) {
		bool any = false;
		for (size_t start = 0; start < best.ops.size();) {
			Plan c = best;
			size_t end = std::min(start + chunk, c.ops.size());
			c.ops.erase(c.ops.begin() + start, c.ops.begin() + end);
			if (fails(c)) { best = c; any = true; }
			else start += chunk;
		}
		if (!any) chunk /= 2;
		else chunk = std::min(chunk, std::max<size_t>(1, best.ops.size() / 2));
		if (used >= budget || wall() - t0 > tbudget) break;
	}
	// 2. per-op simplification
	for (size_t i = 0; i < best.ops.size(); i++) {
		if (best.ops[i].ctx >= 0) {
			Plan c = best; c.ops[i].ctx = -1;
			if (fails(c)) best = c;
		}
		for (int k = 0; k < SIM_MAXARGS; k++) {
			int64_t v = best.ops[i].a[k];
			if (v == 0) continue;
			for (int64_t cand : {(int64_t)0, (int64_t)1, v / 2, v - 1}) {
				if (cand == best.ops[i].a[k] || (cand == 1 && v < 0)) continue;
				Plan c = best; c.ops[i].a[k] = cand;
				if (fails(c)) { best = c; if (cand == 0) break; }
			}
		}
	}
	// 3. configuration
	for (auto kv : best.cfg) {
		std::vector<int64_t> cands;
		if (H->cfg_simpler) cands = H->cfg_simpler(kv.first, kv.second);
		else if (kv.second != 0) cands = {0};
		for (int64_t cand : cands) {
			if (cand == best.cfg[kv.first]) continue;
			Plan c = best; c.cfg[kv.first] = cand;
			if (fails(c)) { best = c; break; }
		}
	}
	// 4. one more pass of single-op deletion (ops freed up by simpler config/args)
	for (size_t i = 0; i < best.ops.size();) {
		Plan c = best; c.ops.erase(c.ops.begin() + i);
		if (fails(c)) best = c; else i++;
	}
	fprintf(stderr, "shrink: %zu -> %zu ops in %d re-runs, %.1fs\n", orig.ops.size(), best.ops.size(), used, wall() - t0);
	return best;
}

static bool read_file(const char *path, std::string &out) {
	FILE *f = fopen(path, "rb");
	if (!f) return false;
	char buf[65536];
	size_t n;
	while ((n = fread(buf, 1, sizeof buf, f)) > 0) out.append(buf, n);
	fclose(f);
	return true;
}

static void hygiene() {
	struct rlimit rl;
	if (getrlimit(RLIMIT_NOFILE, &rl) == 0 && rl.rlim_cur < 4096) {
		rl.rlim_cur = rl.rlim_max < 4096 ? rl.rlim_max : 4096;
		setrlimit(RLIMIT_NOFILE, &rl);
	}
	for (int fd = 3; fd < 1000; fd++) close(fd);
	signal(SIGPIPE, SIG_IGN);
}

static Plan gen_plan(const std::string &prop, const std::string &tier, int cls, uint64_t seed) {
	Plan p;
	p.harness = H->name;
	p.prop = prop;
	p.tier = tier;
	p.seed = seed;
	p.cls = cls;
	Rng r(mix(seed, hash_str("plan")));
	H->generate(p, r);
	return p;
}

static void write_replay(const char *path, const Plan &p, const Result &r, const Plan *orig) {
	js::Val v = plan_to_json(p, *H);
	js::Val e = js::Val::obj();
	e["rule"] = r.rule;
	char hb[32];
	snprintf(hb, sizeof hb, "%016llx", (unsigned long long)r.hash);
	e["trace_hash"] = hb;
	e["detail"] = r.detail;
	e["crashed"] = r.crashed;
	v["expect"] = e;
	if (orig) v["original_ops"] = (long long)orig->ops.size();
	js::Val t = js::Val::arr();
	size_t from = r.tail.size() > 120 ? r.tail.size() - 120 : 0;
	for (size_t i = from; i < r.tail.size(); i++) t.push(r.tail[i]);
	v["trace_tail"] = t;
	js::Val sup = js::Val::arr();
	for (auto &s : g_suppress) sup.push(s);
	v["suppressed_features"] = sup;
	std::string s = js::dump(v);
	// pretty-ish: one op per line
	FILE *f = fopen(path, "wb");
	if (!f) { perror(path); _exit(99); }
	fwrite(s.data(), 1, s.size(), f);
	fputc('\n', f);
	fclose(f);
}

static uint64_t run_seed(uint64_t base, const std::string &prop, uint64_t idx) {
	return mix(mix(base, hash_str(prop.c_str())), idx) & 0x7fffffffffffffffULL;
}

int harness_main(int argc, char **argv, const Harness &h) {
	H = &h;
	std::string mode, prop, tier = "quick", path, out, rule, hashes, status;
	int cls = 0;
	uint64_t base = 1, first = 0, count = 1, stride = 1, seed = 0;
	bool verbose = false, have_seed = false;
	double tlimit = 1e9;
	for (int i = 1; i < argc; i++) {
		std::string a = argv[i];
		auto nx = [&]() -> const char * { return i + 1 < argc ? argv[++i] : ""; };
		if (a == "--worker" || a == "--gen" || a == "--one") mode = a;
		else if (a == "--shrink") { mode = a; path = nx(); }
		else if (a == "--shrink-seed") { mode = a; }
		else if (a == "--replay") { mode = a; path = nx(); }
		else if (a == "--prop") prop = nx();
		else if (a == "--tier") tier = nx();
		else if (a == "--class") cls = atoi(nx());
		else if (a == "--base-seed") base = strtoull(nx(), nullptr, 10);
		else if (a == "--first") first = strtoull(nx(), nullptr, 10);
		else if (a == "--count") count = strtoull(nx(), nullptr, 10);
		else if (a == "--stride") stride = strtoull(nx(), nullptr, 10);
		else if (a == "--index") { first = strtoull(nx(), nullptr, 10); }
		else if (a == "--seed") { seed = strtoull(nx(), nullptr, 10); have_seed = true; }
		else if (a == "--out") out = nx();
		else if (a == "--rule") rule = nx();
		else if (a == "--hashes") hashes = nx();
		else if (a == "--status") status = nx();
		else if (a == "--time-limit") tlimit = atof(nx());
		else if (a == "--verbose") verbose = true;
		else if (a == "--suppress") {
			std::string s = nx();
			size_t p = 0;
			while (p < s.size()) {
				size_t c = s.find(',', p);
				if (c == std::string::npos) c = s.size();
				if (c > p) g_suppress.insert(s.substr(p, c - p));
				p = c + 1;
			}
		} else { fprintf(stderr, "unknown arg %s\n", a.c_str()); return 99; }
	}
	g_prop = prop;
	hygiene();

	if (mode == "--replay") {
		std::string txt;
		js::Val v;
		if (!read_file(path.c_str(), txt) || !js::parse(txt, v)) { fprintf(stderr, "cannot read %s\n", path.c_str()); return 99; }
		Plan p;
		if (v.gets("harness") != h.name) { fprintf(stderr, "replay is for harness %s\n", v.gets("harness").c_str()); return 99; }
		if (!plan_from_json(v, p, h)) { fprintf(stderr, "bad plan\n"); return 99; }
		g_prop = p.prop;
		if (const js::Val *sf = v.get("suppressed_features")) for (auto &s : sf->a) g_suppress.insert(s.s);
		mon_process_init(p.cls);
		if (h.process_init) h.process_init(p.cls);
		Result r = run_forked(p, true);
		const js::Val *e = v.get("expect");
		std::string erule = e ? e->gets("rule") : "";
		uint64_t ehash = e ? strtoull(e->gets("trace_hash", "0").c_str(), nullptr, 16) : 0;
		if (verbose) for (auto &l : r.tail) printf("%s\n", l.c_str());
		printf("REPLAY violated=%d rule=%s hash=%016llx expect_rule=%s expect_hash=%016llx\n", r.violated, r.rule.c_str(),
		    (unsigned long long)r.hash, erule.c_str(), (unsigned long long)ehash);
		if (r.violated) printf("DETAIL %s\n", r.detail.c_str());
		if (!r.violated) return 0;
		if (r.rule == erule && (r.crashed || r.hash == ehash)) return 1;
		return 2;
	}

	mon_process_init(cls);
	if (h.process_init) h.process_init(cls);

	if (mode == "--gen" || mode == "--one") {
		Plan p = gen_plan(prop, tier, cls, have_seed ? seed : run_seed(base, prop, first));
		if (mode == "--gen") { printf("%s\n", js::dump(plan_to_json(p, h)).c_str()); return 0; }
		Result r;
		run_inproc(p, true, r);
		if (verbose) for (auto &l : r.tail) printf("%s\n", l.c_str());
		printf("%s\n", js::dump(plan_to_json(p, h)).c_str());
		js::Val rv = result_to_json(r);
		rv["tail"] = js::Val::arr();
		printf("%s\n", js::dump(rv).c_str());
		return r.violated ? 1 : 0;
	}

	if (mode == "--shrink" || mode == "--shrink-seed") {
		Plan p;
		if (mode == "--shrink") {
			std::string txt;
			js::Val v;
			if (!read_file(path.c_str(), txt) || !js::parse(txt, v) || !plan_from_json(v, p, h)) return 99;
		} else p = gen_plan(prop, tier, cls, have_seed ? seed : run_seed(base, prop, first));
		Result r0 = run_forked(p, false), r1 = run_forked(p, false);
		if (!r0.violated && !r1.violated) { printf("SHRINK no-violation\n"); return 0; }
		if (r0.violated != r1.violated || r0.rule != r1.rule || (!r0.crashed && r0.hash != r1.hash)) {
			printf("SHRINK nondeterministic rule0=%s rule1=%s hash0=%016llx hash1=%016llx\n", r0.rule.c_str(), r1.rule.c_str(),
			    (unsigned long long)r0.hash, (unsigned long long)r1.hash);
			return 2;
		}
		if (!rule.empty() && rule != r0.rule) fprintf(stderr, "note: worker reported rule %s, forked run reports %s\n", rule.c_str(), r0.rule.c_str());
		Plan m = shrink(p, r0.rule, 800, 90.0);
		Result rf = run_forked(m, true);
		if (!rf.violated || rf.rule != r0.rule) { m = p; rf = run_forked(m, true); }
		write_replay(out.c_str(), m, rf, &p);
		printf("SHRUNK rule=%s ops=%zu replay=%s\n", rf.rule.c_str(), m.ops.size(), out.c_str());
		printf("DETAIL %s\n", rf.detail.c_str());
		return 1;
	}

	if (mode == "--worker") {
		int sfd = -1;
		FILE *hf = nullptr;
		if (!status.empty()) sfd = high_fd(open(status.c_str(), O_WRONLY | O_CREAT | O_TRUNC, 0644));
		if (!hashes.empty()) {
			int fd = high_fd(open(hashes.c_str(), O_WRONLY | O_CREAT | O_TRUNC, 0644));
			hf = fdopen(fd, "wb");
		}
		double t0 = wall();
		uint64_t runs = 0, nontriv = 0, capped = 0, steps = 0, foreign = 0;
		double sim_s = 0;
		std::map<std::string, int64_t> cnt;
		js::Val samples = js::Val::arr();
		js::Val foreigns = js::Val::arr();
		int rc = 0;
		uint64_t idx = first;
		bool timed_out = false;
		for (uint64_t k = 0; k < count; k++, idx += stride) {
			if ((k & 7) == 0 && wall() - t0 > tlimit) { timed_out = true; break; }
			if (sfd >= 0) {
				char b[32];
				int n = snprintf(b, sizeof b, "%-20llu\n", (unsigned long long)idx);
				if (pwrite(sfd, b, n, 0) < 0) {}
			}
			Plan p = gen_plan(prop, tier, cls, run_seed(base, prop, idx));
			Result r;
			watchdog(tier == "thorough" ? 120 : 60);	// a run that burns 60 s of CPU (120 s in the thorough tier, whose plans are several times longer), or ten times that in wall time, kills the worker; the driver replays the seed. Ordinary runs take well under a second; the margin is for a machine that is paging or otherwise starved (seen in fresh restores)
			run_inproc(p, false, r);
			watchdog(0);
			runs++;
			steps += r.steps;
			sim_s += r.sim_ns * 1e-9;
			if (r.capped) capped++;
			for (auto &kv : r.cnt) cnt[kv.first] += kv.second;
			if (r.nontrivial && !r.violated) {
				nontriv++;
				if (samples.a.size() < 2) samples.push(plan_to_json(p, h));
			}
			if (hf) {
				uint64_t rec[2] = {idx, r.hash};
				unsigned char fl = (r.nontrivial ? 1 : 0) | (r.violated ? 2 : 0);
				fwrite(rec, 8, 2, hf);
				fwrite(&fl, 1, 1, hf);
			}
			if (r.violated) {
				js::Val v = js::Val::obj();
				v["index"] = (long long)idx;
				v["seed"] = (long long)p.seed;
				v["rule"] = r.rule;
				v["detail"] = r.detail;
				bool own = r.rule.compare(0, prop.size() + 1, prop + ".") == 0;
				if (own) {
					printf("VIOL %s\n", js::dump(v).c_str());
					rc = 3;
					idx += stride;
					break;
				}
				foreign++;
				if (foreigns.a.size() < 5) foreigns.push(v);
				// state may be poisoned by whatever was violated: restart in a new process
				rc = 4;
				idx += stride;
				break;
			}
		}
		if (hf) fclose(hf);
		js::Val s = js::Val::obj();
		s["runs"] = (long long)runs;
		s["nontrivial"] = (long long)nontriv;
		s["capped"] = (long long)capped;
		s["steps"] = (long long)steps;
		s["sim_s"] = sim_s;
		s["foreign"] = (long long)foreign;
		s["foreign_samples"] = foreigns;
		s["next_index"] = (long long)idx;
		s["timed_out"] = timed_out;
		s["wall_s"] = wall() - t0;
		s["exit_live_blocks"] = rc == 0 ? (long long)mon_process_exit_live() : -1LL;
		js::Val c = js::Val::obj();
		for (auto &kv : cnt) c[kv.first] = (long long)kv.second;
		s["counters"] = c;
		s["samples"] = samples;
		printf("SUMMARY %s\n", js::dump(s).c_str());
		fflush(stdout);
		return rc;
	}
	fprintf(stderr, "no mode\n");
	return 99;
}

}	// namespace sim
