// Deterministic-simulation core: PRNG streams, trace hash, plans, violation
// record, counters, harness driver (worker / shrink / replay modes).
#pragma once
#include <cstdarg>
#include <cstdint>
#include <cstdio>
#include <cstring>
#include <deque>
#include <map>
#include <set>
#include <string>
#include <vector>
#include "json.hpp"

namespace sim {

static inline uint64_t mix64(uint64_t x) {
	x += 0x9e3779b97f4a7c15ULL;
	x = (x ^ (x >> 30)) * 0xbf58476d1ce4e5b9ULL;
	x = (x ^ (x >> 27)) * 0x94d049bb133111ebULL;
	return x ^ (x >> 31);
}
static inline uint64_t mix(uint64_t a, uint64_t b) { return mix64(a ^ mix64(b + 0x632be59bd9b4e019ULL)); }
static inline uint64_t hash_str(const char *s) {
	uint64_t h = 1469598103934665603ULL;
	while (*s) { h ^= (unsigned char)*s++; h *= 1099511628211ULL; }
	return h;
}

struct Rng {
	uint64_t s[4];
	Rng() { seed(0); }
	explicit Rng(uint64_t x) { seed(x); }
	void seed(uint64_t x) { for (int i = 0; i < 4; i++) { x = mix64(x + i); s[i] = x | 1; } }
	static inline uint64_t rotl(uint64_t x, int k) { return (x << k) | (x >> (64 - k)); }
	uint64_t next() {
		const uint64_t r = rotl(s[1] * 5, 7) * 9, t = s[1] << 17;
		s[2] ^= s[0]; s[3] ^= s[1]; s[1] ^= s[2]; s[0] ^= s[3]; s[2] ^= t; s[3] = rotl(s[3], 45);
		return r;
	}
	uint64_t below(uint64_t n) { return n ? next() % n : 0; }
	int64_t range(int64_t lo, int64_t hi) { return lo + (int64_t)below((uint64_t)(hi - lo + 1)); }	// inclusive
	bool chance(double p) { return (next() >> 11) * (1.0 / 9007199254740992.0) < p; }
	bool coin() { return next() & 1; }
	template <class T> const T &pick(const std::vector<T> &v) { return v[below(v.size())]; }
	template <class T, size_t N> const T &pick(const T (&v)[N]) { return v[below(N)]; }
};

#define SIM_MAXARGS 6
struct Op {
	int code = 0;
	int64_t a[SIM_MAXARGS] = {0, 0, 0, 0, 0, 0};
	int ctx = -1;	// -1: top level; >=0: run inside the next callback of object slot `ctx`
	std::string s;	// optional payload (byte strings for protocol harnesses), hex in JSON when non-printable
};

struct Plan {
	std::string harness, prop, tier = "quick";
	uint64_t seed = 0;
	int cls = 0;
	std::map<std::string, int64_t> cfg;
	std::vector<Op> ops;
	int64_t c(const std::string &k, int64_t def = 0) const {
		auto it = cfg.find(k);
		return it == cfg.end() ? def : it->second;
	}
};

// --- per-run context -------------------------------------------------------
struct Ctx {
	uint64_t seed = 0;
	Rng net, sched, lib, bug, alloc, misc;
	uint64_t hash = 0;
	uint64_t nlines = 0;
	bool keep = false;
	std::deque<std::string> lines;
	bool violated = false;
	std::string rule, detail;
	std::map<std::string, int64_t> cnt;	// faults fired + probes, this run
	bool nontrivial = false;
	bool capped = false;
	int64_t now_ns = 0, start_ns = 0;	// virtual monotonic clock
	int64_t wall_off_ns = 0;
	uint64_t steps = 0;
	int cls = 0;
	void reset(uint64_t sd);
};
extern Ctx G;
extern std::set<std::string> g_suppress;	// known-finding features left out of generation
extern std::string g_prop;			// property under check ("" in replay until loaded)
inline bool suppressed(const char *feat) { return g_suppress.count(feat) != 0; }

void tr(const char *fmt, ...) __attribute__((format(printf, 1, 2)));
void violation(const char *rule, const char *fmt, ...) __attribute__((format(printf, 2, 3)));
inline void count(const char *name, int64_t n = 1) { G.cnt[name] += n; }
inline void fault(const char *kind) { G.cnt[std::string("fault.") + kind]++; }
inline void probe(const char *name) { G.cnt[std::string("probe.") + name]++; }
inline bool stop() { return G.violated; }

static const int64_t NS = 1000000000LL;
static const int64_t CLOCK_START_NS = 1000 * NS;

// --- harness interface -----------------------------------------------------
struct Harness {
	const char *name;
	const char *const *opnames;
	int nops;
	void (*generate)(Plan &p, Rng &r);
	void (*execute)(const Plan &p);
	// optional: value candidates that simplify a configuration key during shrinking
	std::vector<int64_t> (*cfg_simpler)(const std::string &key, int64_t cur);
	// optional: called once per process after class initialisation
	void (*process_init)(int cls);
};

int harness_main(int argc, char **argv, const Harness &h);

js::Val plan_to_json(const Plan &p, const Harness &h);
bool plan_from_json(const js::Val &v, Plan &p, const Harness &h);

// class bits
enum { CLS_LOCKS_MASK = 3, CLS_NOLOCK = 0, CLS_LOCK = 1, CLS_LOCKDEBUG = 2, CLS_DEBUGMODE = 4 };

}	// namespace sim
