#include "thr.hpp"
#include "../sim/sim.hpp"
#include "../vk/vk.hpp"
#include "../mon/mon.hpp"
#include <atomic>
#include <climits>
#include <memory>
#include <pthread.h>
#include <linux/futex.h>
#include <sys/syscall.h>
#include <unistd.h>
#include <vector>

using sim::G;

namespace thr {

int stickiness_pct = 60;

enum St { RUNNABLE, B_LOCK, B_COND, B_WAIT, B_SLEEP, B_JOIN, DONE };
struct T {
	int id = 0;
	pthread_t pt{};
	std::atomic<int> go{0};		// futex word: 1 = you hold the baton
	St st = RUNNABLE;
	void *obj = nullptr;		// lock or condition blocked on
	void *cond_lock = nullptr;
	int64_t deadline = INT64_MAX;
	bool signalled = false, timed_out = false;
	std::function<int()> query;
	int wait_result = 0;
	std::function<void()> body;
	bool started = false;
};
static std::vector<std::unique_ptr<T>> ts;
static int cur = 0;			// id of the thread holding the baton
static uint64_t nswitch = 0;
static bool active = false;
static thread_local T *me = nullptr;

static void fwait(std::atomic<int> *w) {
	while (w->load(std::memory_order_acquire) == 0) syscall(SYS_futex, (int *)w, FUTEX_WAIT_PRIVATE, 0, nullptr, nullptr, 0);
	w->store(0, std::memory_order_relaxed);
}
static void fwake(std::atomic<int> *w) {
	w->store(1, std::memory_order_release);
	syscall(SYS_futex, (int *)w, FUTEX_WAKE_PRIVATE, 1, nullptr, nullptr, 0);
}

int self() { return me ? me->id : 1; }
uint64_t switches() { return nswitch; }
int nthreads_alive() { int n = 0; for (auto &t : ts) if (t->st != DONE) n++; return n; }

static const char *stname(St s) { static const char *n[] = {"runnable", "lock", "cond", "wait", "sleep", "join", "done"}; return n[s]; }

[[noreturn]] static void die_deadlock() {
	std::string d;
	for (auto &t : ts) { char b[96]; snprintf(b, sizeof b, " T%d:%s", t->id, stname(t->st)); if (t->st == B_LOCK) snprintf(b, sizeof b, " T%d:lock%d(held by T%d)", t->id, mon::lock_id(t->obj), mon::lock_owner(t->obj)); d += b; }
	sim::violation("C08.deadlock", "no thread can run and no timer or network event is pending:%s", d.c_str());
	fflush(stdout);
	fflush(stderr);
	_exit(78);
}

// choose who runs next; called by the baton holder. Returns the chosen thread (may be the caller).
static T *pick(T *holder) {
	for (int guard = 0;; guard++) {
		vk::run_due_events();
		// readiness of loops blocked in their wait, expired deadlines, join
		for (auto &t : ts) {
			if (t->st == B_WAIT) {
				int n = t->query();
				if (n != 0) { t->wait_result = n; t->st = RUNNABLE; }
				else if (G.now_ns >= t->deadline) { t->wait_result = 0; t->st = RUNNABLE; }
			} else if (t->st == B_COND && G.now_ns >= t->deadline) { t->timed_out = true; t->st = RUNNABLE; }
			else if (t->st == B_SLEEP && G.now_ns >= t->deadline) t->st = RUNNABLE;
			else if (t->st == B_JOIN) { bool all = true; for (auto &o : ts) if (o.get() != t.get() && o->st != DONE) all = false; if (all) t->st = RUNNABLE; }
		}
		std::vector<T *> c;
		for (auto &t : ts) if (t->st == RUNNABLE) c.push_back(t.get());
		if (!c.empty()) {
			if (holder && holder->st == RUNNABLE && c.size() > 1 && (int)G.sched.below(100) < stickiness_pct) return holder;
			return c[G.sched.below(c.size())];
		}
		// nobody can run: let virtual time pass to the next thing that can change that
		int64_t next = vk::next_event_time();
		for (auto &t : ts) if ((t->st == B_WAIT || t->st == B_COND || t->st == B_SLEEP) && t->deadline < next) next = t->deadline;
		if (next == INT64_MAX || guard > 100000) die_deadlock();
		vk::advance_running(std::max<int64_t>(0, next - G.now_ns));
		G.steps++;
		if (G.steps > 400000) { sim::violation("C09.hang", "the run does not end: %llu scheduler steps", (unsigned long long)G.steps); fflush(stdout); fflush(stderr); _exit(78); }
	}
}

static void hand_over(T *from, T *to) {
	if (to == from) return;
	nswitch++;
	sim::tr("sched T%d -> T%d", from->id, to->id);
	cur = to->id;
	fwake(&to->go);
	fwait(&from->go);
}
// the holder gives the scheduler a chance; returns when the holder has the baton again and is RUNNABLE
static void reschedule() {
	T *m = me;
	for (;;) {
		T *n = pick(m);
		hand_over(m, n);
		if (m->st == RUNNABLE || m->st == DONE) return;
		// woken although not runnable cannot happen: only the chosen (runnable) thread is woken
	}
}

void yield(const char *why) {
	(void)why;
	if (!active || !me) return;
	if (ts.size() < 2) return;
	reschedule();
}
void sleep_ns(int64_t dt) {
	if (!active || !me) { vk::advance_running(dt); return; }
	me->st = B_SLEEP;
	me->deadline = G.now_ns + dt;
	reschedule();
	me->deadline = INT64_MAX;
}
void join_all() {
	if (!active || !me) return;
	me->st = B_JOIN;
	reschedule();
}

static void *tramp(void *arg) {
	T *t = (T *)arg;
	me = t;
	fwait(&t->go);	// born parked
	t->body();
	t->st = DONE;
	sim::tr("sched T%d done", t->id);
	T *n = pick(nullptr);
	nswitch++;
	cur = n->id;
	fwake(&n->go);
	return nullptr;
}

int spawn(std::function<void()> body) {
	T *t = new T();
	t->id = (int)ts.size() + 1;
	t->body = std::move(body);
	ts.emplace_back(t);
	pthread_attr_t a;
	pthread_attr_init(&a);
	pthread_attr_setstacksize(&a, 1 << 20);
	if (pthread_create(&t->pt, &a, tramp, t) != 0) { perror("pthread_create"); _exit(99); }
	pthread_attr_destroy(&a);
	t->started = true;
	return t->id;
}

void run_begin() {
	ts.clear();
	T *m = new T();
	m->id = 1;
	ts.emplace_back(m);
	me = m;
	cur = 1;
	nswitch = 0;
	active = true;
	mon::th.tid = []() { return self(); };
	mon::th.yield = [](const char *w) { yield(w); };
	mon::th.block_on_lock = [](void *l) { me->st = B_LOCK; me->obj = l; reschedule(); me->obj = nullptr; };
	mon::th.lock_released = [](void *l) { for (auto &t : ts) if (t->st == B_LOCK && t->obj == l) t->st = RUNNABLE; };
	mon::th.cond_wait = [](void *c, void *l, int64_t timeout_ns) -> int {
		int saved = 0;
		mon::lock_force_release_all(l, &saved);
		for (auto &t : ts) if (t->st == B_LOCK && t->obj == l) t->st = RUNNABLE;
		me->st = B_COND;
		me->obj = c;
		me->signalled = me->timed_out = false;
		me->deadline = timeout_ns < 0 ? INT64_MAX : G.now_ns + timeout_ns;
		reschedule();
		bool to = me->timed_out && !me->signalled;
		me->obj = nullptr;
		me->deadline = INT64_MAX;
		// take the lock back, waiting for it if need be
		while (!mon::lock_is_free(l)) { me->st = B_LOCK; me->obj = l; reschedule(); me->obj = nullptr; }
		mon::lock_force_acquire(l, me->id, saved);
		return to ? 1 : 0;
	};
	mon::th.cond_signal = [](void *c, bool all) {
		for (auto &t : ts) if (t->st == B_COND && t->obj == c) { t->signalled = true; t->st = RUNNABLE; if (!all) break; }
	};
	vk::hooks.block = [](std::function<int()> query, int64_t deadline_ns) -> int {
		if (!me) return query();
		int n = query();
		if (n != 0) { yield("wait-ready"); return n; }
		me->st = B_WAIT;
		me->query = query;
		me->deadline = deadline_ns;
		me->wait_result = 0;
		reschedule();
		me->query = nullptr;
		me->deadline = INT64_MAX;
		return me->wait_result;
	};
}

void run_end() {
	for (auto &t : ts) if (t->id != 1 && t->started) pthread_join(t->pt, nullptr);
	ts.clear();
	me = nullptr;
	active = false;
}

}	// namespace thr
