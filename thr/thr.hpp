// Simulated threads: real pthreads of which exactly one runs at a time (the "baton"); every hand-over is decided by the
// run's scheduling PRNG stream, so an interleaving is a function of the seed. Scheduling points: lock acquire/release
// (mon/), condition wait/signal, the blocking wait of an event loop (vk::hooks.block), explicit yields, sleeps, join.
// Virtual time moves only when no thread is runnable.
#pragma once
#include <cstdint>
#include <functional>

namespace thr {
void run_begin();			// the calling thread becomes thread 1 of the run; installs the mon/vk hooks
void run_end();				// all other threads must have finished
int spawn(std::function<void()> body);	// returns the new thread's id (2, 3, ...)
int self();
void yield(const char *why);		// scheduling point
void sleep_ns(int64_t dt);		// block for virtual time
void join_all();			// block until every other thread has finished
int nthreads_alive();
uint64_t switches();			// baton hand-overs so far in this run
extern int stickiness_pct;		// probability (percent) of keeping the baton at a yield when the holder is still runnable
}
