#!/usr/bin/env python3
# add_fixed.py <property> <commit> <signature> <replay-src> <name> <what>   (status fixed; copies the replay under replays/fixed/)
import json,sys,shutil,os
prop,commit,sig,src,name,what=sys.argv[1:7]
d=json.load(open('/verif/known_findings.json'))
dst='replays/fixed/%s-%s.json'%(prop,name)
if src!='-': shutil.copy(src,'/verif/'+dst)
d['findings'].append({"property":prop,"status":"fixed","commit":commit,"signature":sig,"what":what,"replay":dst if src!='-' else "","suppress_features":[]})
json.dump(d,open('/verif/known_findings.json','w'),indent=1); print('added',dst)
