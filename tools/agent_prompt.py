#!/usr/bin/env python3
"""Print the prompt given to an independent sub-agent that seeds a property-breaking change.
Usage: agent_prompt.py C01   (the agent gets only the property text and its own scratch worktree)"""
import json, sys
pid = sys.argv[1]
wt = sys.argv[2] if len(sys.argv) > 2 else f"/tmp/wt-{pid}"
for l in open('/verif/properties.jsonl'):
    p = json.loads(l)
    if p['id'] == pid: break
else: sys.exit("no such property")
print(f"""You are working in a scratch git worktree of libevent (a portable C event-notification library) at {wt}. Work ONLY inside {wt}. Never touch /repo or /verif, and do not read anything under /verif. There is no network.

Build:   cmake -G Ninja -S {wt} -B {wt}/_build >/dev/null && cmake --build {wt}/_build -j4
Pinned baseline test suite (68 tests; the `regress` tests always fail in this sandbox and are NOT part of the baseline):
         ctest --test-dir {wt}/_build -j4 --timeout 900 -E regress
(the suite takes several minutes; test-time/test-ratelim are timing-sensitive, re-run once if one of them fails under load before concluding anything).

Here is a semantic property that libevent is supposed to satisfy:

  id: {p['id']}
  title: {p['title']}
  statement: {p['statement']}
  quantifier: {p['quantifier']['text']}
  anchors (where the mechanism lives): files {p['anchors']['files']}; mechanism: {p['anchors']['mechanism']}

YOUR TASK: produce TWO different, independent, realistic changes to the libevent library sources (not to tests or samples) that each BREAK this property while the tree still compiles and the pinned baseline suite above still passes completely. Think of the kind of slip a maintainer could make in a refactoring or an "optimisation": an off-by-one, a dropped re-check, a wrong comparison, a missing state reset, an early return, a reordered pair of statements, two sites that each look fine alone. Each change must need something SPECIFIC to manifest -- a particular interleaving or ordering of operations, a fault (short read/write, EAGAIN, failed allocation, reset) at a particular point, a multi-step sequence, an unusual input or size, a particular configuration -- NOT something that ordinary use would expose immediately. Keep each change small (1-15 lines). The two changes should be in different functions/mechanisms.

For each change k in {{A,B}} deliver, in {wt}/_seeded/k/ :
  * patch.diff      -- `git diff` against the clean HEAD of the worktree (only that change; must apply with `git apply` to a clean tree)
  * demo.c (or demo.sh + sources) -- a small self-contained demonstration program using the public (or, if needed, internal) API, linked against {wt}/_build/lib/libevent.a (include dirs {wt}/include and {wt}/_build/include; add {wt} for internal headers), that EXITS 0 on the clean tree and EXITS NON-ZERO (or crashes) with the change applied. Put the exact build+run command in a comment at its top.
  * notes.txt       -- which property clause it breaks, what it needs in order to manifest, and why the baseline tests do not notice.

You must actually verify, for each change: (1) clean tree: demo passes; (2) with the change: builds, the baseline suite passes (report the pass count), and the demo fails. Work on one change at a time and restore the tree (`git -C {wt} checkout -- .`) between them; leave the worktree clean (apart from _seeded/ and _build/) at the end.

Final report (concise): for each change: file/function, the diff in a few lines, what is needed to manifest, the commands you ran and their observed results (suite pass counts, demo exit codes clean vs changed). If you could not produce a second change, say so plainly rather than padding.""")
