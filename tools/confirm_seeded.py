#!/usr/bin/env python3
"""Confirm seeded changes from seeded/_incoming/<prop>/<k>/ in one scratch worktree of /repo (outside /repo and /verif):
clean tree: demo exits 0; with the change: builds, baseline suite (ctest -E regress) passes, demo exits non-zero.
Confirmed changes are copied to seeded/<prop>-<k>/ with meta.json. Usage: confirm_seeded.py C01/A C01/B ..."""
import json, os, subprocess, sys, shutil, re
V = "/verif"
WT = "/tmp/cs-worktree"

def sh(cmd, **kw):
    return subprocess.run(cmd, shell=isinstance(cmd, str), stdout=subprocess.PIPE, stderr=subprocess.STDOUT, text=True, errors='replace', **kw)

def ensure_wt():
    if not os.path.exists(WT):
        r = sh(["git", "-C", "/repo", "worktree", "add", "-f", "--detach", WT, "HEAD"]); assert r.returncode == 0, r.stdout
        r = sh("cmake -G Ninja -S %s -B %s/_build >/dev/null && cmake --build %s/_build -j12" % (WT, WT, WT)); assert r.returncode == 0, r.stdout[-3000:]
    else:
        sh(["git", "-C", WT, "checkout", "--", "."])
        sh(["git", "-C", WT, "checkout", "--detach", sh(["git", "-C", "/repo", "rev-parse", "HEAD"]).stdout.strip()])
        r = sh("cmake --build %s/_build -j12" % WT); assert r.returncode == 0, r.stdout[-3000:]

def build_demo(src, out):
    inc = "-I%s/include -I%s/_build/include -I%s -I%s/compat" % (WT, WT, WT, WT)
    cc = "g++ -std=c++17" if src.endswith((".cc", ".cpp")) else "cc"
    r = sh("%s -O0 -g -w %s -o %s %s %s/_build/lib/libevent.a %s/_build/lib/libevent_pthreads.a -lpthread" % (cc, inc, out, src, WT, WT))
    return r

def run_demo(out):
    r = sh("timeout 120 " + out)
    return r.returncode, r.stdout[-600:]

def suite():
    r = sh("ctest --test-dir %s/_build -j8 --timeout 900 -E regress" % WT)
    m = re.search(r"(\d+)% tests passed, (\d+) tests failed out of (\d+)", r.stdout)
    if not m or int(m.group(2)):
        r = sh("ctest --test-dir %s/_build -j4 --timeout 900 -E regress" % WT)   # timing-sensitive tests: one retry
        m = re.search(r"(\d+)% tests passed, (\d+) tests failed out of (\d+)", r.stdout)
    return (int(m.group(3)) - int(m.group(2)), int(m.group(3))) if m else (0, 0)

def main():
    ensure_wt()
    for item in sys.argv[1:]:
        prop, k = item.split("/")
        d = os.path.join(V, "seeded", "_incoming", prop, k)
        patch = os.path.join(d, "patch.ported.diff") if os.path.exists(os.path.join(d, "patch.ported.diff")) else os.path.join(d, "patch.diff")
        demo_src = None
        for n in ("demo.c", "demo.cc", "demo.cpp"):
            if os.path.exists(os.path.join(d, n)): demo_src = os.path.join(d, n)
        res = dict(item=item, patch=os.path.basename(patch))
        sh(["git", "-C", WT, "checkout", "--", "."])
        r = sh("cmake --build %s/_build -j12" % WT)
        exe = "/tmp/cs-demo-%s-%s" % (prop, k)
        b = build_demo(demo_src, exe)
        if b.returncode: res["error"] = "demo does not build on clean tree: " + b.stdout[-400:]; print(json.dumps(res)); continue
        rc0, out0 = run_demo(exe)
        res["clean_demo_exit"] = rc0
        a = sh(["git", "-C", WT, "apply", patch])
        if a.returncode: res["error"] = "patch does not apply: " + a.stdout[-300:]; print(json.dumps(res)); continue
        r = sh("cmake --build %s/_build -j12" % WT)
        if r.returncode: res["error"] = "does not build with change: " + r.stdout[-500:]; sh(["git", "-C", WT, "checkout", "--", "."]); print(json.dumps(res)); continue
        res["suite_pass"], res["suite_total"] = suite()
        b = build_demo(demo_src, exe)
        rc1, out1 = run_demo(exe) if b.returncode == 0 else (-999, b.stdout[-300:])
        res["changed_demo_exit"] = rc1
        res["changed_demo_tail"] = out1[-300:]
        sh(["git", "-C", WT, "checkout", "--", "."])
        ok = rc0 == 0 and rc1 != 0 and res["suite_pass"] == res["suite_total"] == 68
        res["confirmed"] = ok
        print(json.dumps(res)); sys.stdout.flush()
        if ok:
            dst = os.path.join(V, "seeded", "%s-%s" % (prop, k))
            os.makedirs(dst, exist_ok=True)
            shutil.copy(patch, os.path.join(dst, "patch.diff"))
            if patch.endswith("patch.ported.diff"): shutil.copy(os.path.join(d, "patch.diff"), os.path.join(dst, "patch.as-delivered.diff"))
            shutil.copy(demo_src, dst)
            if os.path.exists(os.path.join(d, "notes.txt")): shutil.copy(os.path.join(d, "notes.txt"), dst)
            meta = dict(property=prop, breaks=open(os.path.join(d, "notes.txt")).read()[:1500] if os.path.exists(os.path.join(d, "notes.txt")) else "",
                        origin="independent sub-agent given only the property text and a scratch worktree",
                        confirmed_by="tools/confirm_seeded.py in a scratch worktree of /repo HEAD (with the fix: commits): clean demo exit %d; with change: build ok, baseline suite %d/%d, demo exit %d" % (rc0, res["suite_pass"], res["suite_total"], rc1),
                        ported=patch.endswith("patch.ported.diff"), detected_by=None)
            json.dump(meta, open(os.path.join(dst, "meta.json"), "w"), indent=1)
        try: os.remove(exe)
        except OSError: pass

if __name__ == "__main__":
    main()
