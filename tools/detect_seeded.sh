#!/bin/sh
# usage: detect_seeded.sh <seeded-id> [seed]   -- e.g. C01-A
# Applies seeded/<id>/patch.diff in a scratch worktree of /repo HEAD under /tmp (never in /repo), runs that property's quick
# check against the worktree without writing evidence, prints the verdict lines, removes the worktree and its build output.
id="$1"; seed="${2:-1}"
prop=$(echo "$id" | cut -d- -f1)
wt=/tmp/ds-$id
d=/verif/seeded/$id
patch=$d/patch.diff; [ -f $d/patch.ported.diff ] && patch=$d/patch.ported.diff
git -C /repo worktree remove --force $wt >/dev/null 2>&1
git -C /repo worktree add -f --detach $wt HEAD >/dev/null 2>&1 || { echo "$id: worktree failed"; exit 2; }
if ! git -C $wt apply $patch; then echo "$id: patch does not apply"; git -C /repo worktree remove --force $wt; exit 2; fi
h=$(cd /verif && python3 -c "import sys; sys.path.insert(0,'bin'); import vbuild; print(vbuild.repo_hash('$wt'))" 2>/dev/null)
VERIF_NO_EVIDENCE=1 VERIF_SEED=$seed /verif/bin/check $prop --repo $wt 2>&1 | grep -E "VIOLATION|rule=|KNOWN|quick:|HARNESS|NOTE|FOREIGN" | cut -c1-500 | sed "s/^/$id: /"
git -C /repo worktree remove --force $wt
[ -n "$h" ] && rm -rf /verif/build/*-$h* 2>/dev/null
exit 0
