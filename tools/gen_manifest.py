#!/usr/bin/env python3
"""Regenerate MANIFEST.json from bin/props.py (claimed checks) and the not-applicable table."""
import json, os, sys
V = os.path.dirname(os.path.dirname(os.path.abspath(__file__)))
sys.path.insert(0, os.path.join(V, "bin"))
from props import PROPS
NA = {
 "C06": "pure 512-entry table: a function of one index with no schedule, clock, fault or interleaving; enumeration, not simulation (reachable entries are exercised against the real kernel as a by-product of C05)",
 "C21": "pure 64-/32-bit arithmetic over all values; a bit-precise question for a solver, nothing for a simulator to schedule or fail",
 "C28": "pure string function (URI parse/join round trip); no schedule, time, I/O or fault dimension",
 "C29": "pure string functions (URI escape/unescape, query split, HTML escape)",
 "C30": "pure function of (registered paths and vhosts, one parsed request); segmentation independence of the request itself is C23",
 "C32": "pure codec: accept-key computation and outgoing frame encoding are functions of (key) / (opcode, payload)",
 "C39": "pure function of file content / option strings",
 "C40": "pure address text conversion",
 "C41": "pure ASCII / snprintf / sockaddr comparison helpers",
 "C42": "pure codec over (value) / (bytes, chain layout); chain layout is an input shape, not a schedule",
 "C46": "pure function of (generator state, bound) / (length)",
}
TEXT = {
 "exploration": "seeded search over plans (operation sequences with attached faults) executed by the real library inside the simulator, compared op by op and callback by callback with a reference model; every violation is shrunk and must replay in a fresh process",
 "fault_enumeration": "for each sampled plan a counting pass finds the fault positions, then the plan is re-run with exactly one fault at every position (allocation index / scripted syscall result / cut point); the plans themselves are sampled by seed",
}
props = [json.loads(l) for l in open(os.path.join(V, "properties.jsonl"))]
checks, na = [], []
for p in props:
    pid = p["id"]
    if pid in PROPS:
        s = PROPS[pid]
        checks.append(dict(property_id=pid, quick_cmd="bin/check %s --tier quick" % pid, thorough_cmd="bin/check %s --tier thorough" % pid,
            evidence_file="evidence/%s.json" % pid, replay_cmd_template="bin/check --replay {path}", engine=s.get("engine", "simkernel"),
            level_claimed=dict(category=s["level"], text=s.get("level_text", TEXT[s["level"]]), design_ref=s.get("design_ref", "DESIGN.md section 3, " + pid)),
            level_note="; ".join(s["assumptions"]), technique=s.get("technique", "deterministic simulation with fault injection: seeded plan search under a virtual clock and interposed syscalls, reference-model oracle, ddmin-shrunk replay files")))
    elif pid in NA:
        na.append(dict(property_id=pid, reason=NA[pid]))
    else:
        na.append(dict(property_id=pid, reason="designed in DESIGN.md, harness not built yet: no check is registered, nothing is claimed"))
m = dict(version=1, setup_cmd="bin/setup",
    hooks=dict(guard="LIBEVENT_VERIF", enable="-DLIBEVENT_VERIF on every libevent object compiled by bin/vbuild.py (guards nothing: every seam is a link-time --wrap of a libc symbol or a public libevent API such as event_set_mem_functions / evthread_set_lock_callbacks)",
               baseline_off_cmd="cmake --build /repo/_build -j16 && ctest --test-dir /repo/_build -j8 --timeout 900 -E regress", source_commits=[], add_only=True),
    engines=[dict(name="simkernel", path="vk/ sim/ mon/ bin/check", serves_properties=sorted(PROPS), kind_free_text="link-time syscall interposition (virtual clock, scripted/faulty I/O, simulated sockets and network), seeded plan generator, worker pool, ddmin shrinker, fresh-process replay")],
    checks=checks, not_applicable=na,
    notes="See DESIGN.md. fix: commits in /repo and their replay files are listed in known_findings.json (status fixed).")
json.dump(m, open(os.path.join(V, "MANIFEST.json"), "w"), indent=1)
print("checks:", len(checks), "not claimed:", len(na))
