#!/bin/sh
# usage: one.sh harness prop class index [grep-pattern]
H=$(ls -t /verif/build/bin-*/$1 | head -1)
$H --one --prop $2 --class $3 --index $4 --verbose 2>&1 | grep -v "^{" | tail -${5:-60}
