#!/bin/sh
# usage: runall.sh <seed> <logdir> [props...]  — every claimed property's quick check, one after the other
seed=$1; out=$2; shift 2
mkdir -p "$out"
cd /verif || exit 1
props=${*:-$(python3 -c "import json;print(' '.join(c['property_id'] for c in json.load(open('MANIFEST.json'))['checks']))")}
for p in $props; do
  s=$(date +%s)
  VERIF_SEED=$seed VERIF_TIER=quick bin/check $p --tier quick > "$out/$p.log" 2>&1
  echo "$p rc=$? $(( $(date +%s) - s ))s $(tail -1 "$out/$p.log" | cut -c1-160)"
done
