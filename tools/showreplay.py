#!/usr/bin/env python3
import json,sys
p=json.load(open(sys.argv[1]))
n=int(sys.argv[2]) if len(sys.argv)>2 else 30
print(p['property'], 'class', p['class'], {k:v for k,v in p['config'].items() if v})
for o in p['ops']: print('  ',o)
print(p['expect']['rule']); print(p['expect']['detail'][:1500])
for l in p['trace_tail'][-n:]: print(l)
