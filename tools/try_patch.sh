#!/bin/sh
# usage: try_patch.sh <patch.diff> <prop> [scale]   -- apply to /repo, run the quick check, undo
set -e
git -C /repo apply "$1"
VERIF_NO_EVIDENCE=1 /verif/bin/check $2 --scale ${3:-1} 2>&1 | grep -E "VIOLATION|rule=|KNOWN|quick:|HARNESS|NOTE" | cut -c1-400 || true
git -C /repo checkout -- .
