// vkernel implementation. See vk.hpp and DESIGN.md §2.2.
#include "vk.hpp"
#include "../sim/sim.hpp"
#include <algorithm>
#include <cassert>
#include <cerrno>
#include <climits>
#include <cstdarg>
#include <cstdlib>
#include <cstring>
#include <deque>
#include <map>
#include <memory>
#include <queue>
#include <fcntl.h>
#include <poll.h>
#include <signal.h>
#include <sys/epoll.h>
#include <sys/eventfd.h>
#include <sys/ioctl.h>
#include <sys/mman.h>
#include <sys/select.h>
#include <sys/sendfile.h>
#include <sys/signalfd.h>
#include <sys/stat.h>
#include <sys/time.h>
#include <sys/uio.h>
#include <sys/un.h>
#include <time.h>
#include <unistd.h>

using sim::G;
using sim::NS;

extern "C" {
int __real_clock_gettime(clockid_t, struct timespec *);
int __real_gettimeofday(struct timeval *, void *);
time_t __real_time(time_t *);
int __real_nanosleep(const struct timespec *, struct timespec *);
int __real_epoll_create1(int);
int __real_epoll_create(int);
int __real_epoll_ctl(int, int, int, struct epoll_event *);
int __real_epoll_wait(int, struct epoll_event *, int, int);
int __real_poll(::pollfd *, nfds_t, int);
int __real_select(int, fd_set *, fd_set *, fd_set *, struct timeval *);
ssize_t __real_read(int, void *, size_t);
ssize_t __real_write(int, const void *, size_t);
ssize_t __real_readv(int, const struct iovec *, int);
ssize_t __real_writev(int, const struct iovec *, int);
ssize_t __real_pread(int, void *, size_t, off_t);
ssize_t __real_sendfile(int, int, off_t *, size_t);
ssize_t __real_sendto(int, const void *, size_t, int, const struct sockaddr *, socklen_t);
ssize_t __real_recvfrom(int, void *, size_t, int, struct sockaddr *, socklen_t *);
ssize_t __real_send(int, const void *, size_t, int);
ssize_t __real_recv(int, void *, size_t, int);
int __real_socket(int, int, int);
int __real_socketpair(int, int, int, int[2]);
int __real_bind(int, const struct sockaddr *, socklen_t);
int __real_listen(int, int);
int __real_accept(int, struct sockaddr *, socklen_t *);
int __real_accept4(int, struct sockaddr *, socklen_t *, int);
int __real_connect(int, const struct sockaddr *, socklen_t);
int __real_shutdown(int, int);
int __real_close(int);
int __real_dup(int);
int __real_dup2(int, int);
int __real_fcntl(int, int, ...);
int __real_ioctl(int, unsigned long, ...);
int __real_getsockopt(int, int, int, void *, socklen_t *);
int __real_setsockopt(int, int, int, const void *, socklen_t);
int __real_getsockname(int, struct sockaddr *, socklen_t *);
int __real_getpeername(int, struct sockaddr *, socklen_t *);
int __real_pipe(int[2]);
int __real_pipe2(int[2], int);
int __real_eventfd(unsigned, int);
int __real_signalfd(int, const sigset_t *, int);
int __real_open(const char *, int, ...);
pid_t __real_getpid(void);
uint32_t __real_evutil_weakrand_seed_(void *, uint32_t);
uint32_t __real_arc4random(void);
void __real_arc4random_buf(void *, size_t);
}

namespace vk {

const char *const site_names[S_NSITES] = {
	"read.short", "read.eagain", "read.eintr", "read.err",
	"write.short", "write.eagain", "write.eintr", "write.err",
	"wait.eintr", "accept.eagain", "accept.eintr", "accept.aborted", "accept.emfile",
	"sendto.eagain", "sendto.err", "recv.eagain",
	"dgram.drop", "dgram.dup", "dgram.reorder",
};
static int fault_pm[S_NSITES];
static bool active = false;

Hooks hooks;
unsigned rng_byte_mask = 0xff;
uint64_t wait_cap = 20000;
NetCfg net;
std::function<ConnectDecision(const sockaddr *, socklen_t)> connect_policy;
std::function<void(int, bool, const char *, size_t)> tap_stream;
std::function<void(int, bool, const char *, size_t, const sockaddr *)> tap_dgram;
std::function<void(int, bool, size_t)> io_ledger;
std::function<void(int, bool)> io_retry;
std::function<void(int, int, int, int)> accept_hook;

void set_fault(Site s, int permille) { fault_pm[s] = permille; }
bool unusual(Site s) {
	if (!active || fault_pm[s] <= 0) return false;
	if ((int)G.bug.below(1000) < fault_pm[s]) {
		G.cnt[std::string("fault.") + site_names[s]]++;
		return true;
	}
	return false;
}

// ---------------------------------------------------------------------------
// event queue
struct Ev {
	int64_t t;
	uint64_t seq;
	std::function<void()> fn;
};
struct EvCmp {
	bool operator()(const Ev &a, const Ev &b) const { return a.t != b.t ? a.t > b.t : a.seq > b.seq; }
};
static std::priority_queue<Ev, std::vector<Ev>, EvCmp> evq;
static uint64_t evseq;

void at(int64_t t, std::function<void()> fn) {
	if (t < G.now_ns) t = G.now_ns;
	evq.push(Ev{t, ++evseq, std::move(fn)});
}
void after(int64_t dt, std::function<void()> fn) { at(G.now_ns + dt, std::move(fn)); }
bool events_pending() { return !evq.empty(); }
int64_t next_event_time() { return evq.empty() ? INT64_MAX : evq.top().t; }
void run_due_events() {
	int guard = 0;
	while (!evq.empty() && evq.top().t <= G.now_ns) {
		Ev e = evq.top();
		evq.pop();
		e.fn();
		if (++guard > 1000000) break;
	}
}
static void set_clock(int64_t to, const char *why) {
	if (to <= G.now_ns) return;
	int64_t from = G.now_ns;
	G.now_ns = to;
	sim::tr("clk %lld -> %lld (%s)", (long long)from, (long long)to, why);
	if (hooks.clock_jump) hooks.clock_jump(from, to);
}
void advance(int64_t dt) { if (dt > 0) set_clock(G.now_ns + dt, "advance"); }
void advance_running(int64_t dt) {
	int64_t target = G.now_ns + dt;
	while (!evq.empty() && evq.top().t <= target) {
		set_clock(evq.top().t, "event");
		run_due_events();
	}
	set_clock(target, "advance");
}

// ---------------------------------------------------------------------------
// simulated sockets
struct Sock;
struct Pipe {
	std::string rx;
	size_t rxoff = 0;
	size_t inflight = 0;
	size_t cap = 65536;
	bool fin_queued = false, fin = false, rst = false, rst_reported = false;
	int64_t last_deliv = 0;
	uint64_t written = 0, delivered = 0, consumed = 0;
	Sock *reader = nullptr, *writer = nullptr;
	size_t avail() const { return rx.size() - rxoff; }
	size_t room() const { size_t used = inflight + avail(); return used >= cap ? 0 : cap - used; }
};
struct Dgram {
	std::string data;
	sockaddr_storage from;
	socklen_t fromlen;
};
enum SState { ST_NEW, ST_LISTEN, ST_CONNECTING, ST_CONNECTED, ST_FAILED };
struct Sock {
	int id = 0, fd = -1;
	bool is_ep = false;
	int type = SOCK_STREAM, family = AF_INET;
	int state = ST_NEW;
	sockaddr_storage local{}, peer{};
	socklen_t locallen = 0, peerlen = 0;
	bool bound = false, has_peer = false;
	Pipe *in = nullptr, *out = nullptr;
	Sock *other = nullptr;
	int so_error = 0;
	bool rd_shut = false, wr_shut = false, closed = false, paused = false;
	std::deque<Sock *> acceptq;
	std::function<void(Endpoint *)> on_accept;
	std::deque<Dgram> dq;
	EndpointCbs cbs;
	void *user = nullptr;
	std::string key;
	size_t sndbuf = 0;
};
struct Endpoint : Sock {};

static std::vector<std::unique_ptr<Sock>> socks;
static std::vector<std::unique_ptr<Pipe>> pipes;
static std::map<std::string, Sock *> bound_stream, bound_dgram;
static int next_port = 40000;
static int next_sock_id = 1;

// fd table
enum { F_REAL = 0, F_SIM = 1, F_EPOLL = 2 };
struct EpollTab { std::map<int, epoll_event> items; };
struct FdEnt {
	int kind = F_REAL;
	bool harness = false;
	Sock *s = nullptr;
	std::deque<ScriptItem> rscript, wscript;
	bool has_fion = false;
	int64_t fion = 0;
	EpollTab *ep = nullptr;
};
#define VK_MAXFD 4096
static FdEnt *tab[VK_MAXFD];
static int harness_depth = 0;
static int base_efd = -1;

HarnessScope::HarnessScope() { harness_depth++; }
HarnessScope::~HarnessScope() { harness_depth--; }

static FdEnt *ent(int fd) { return (fd >= 0 && fd < VK_MAXFD) ? tab[fd] : nullptr; }
static FdEnt *track(int fd, int kind) {
	if (fd < 0 || fd >= VK_MAXFD) return nullptr;
	delete tab[fd];
	FdEnt *e = new FdEnt();
	e->kind = kind;
	e->harness = harness_depth > 0 || !active;
	tab[fd] = e;
	return e;
}
static void untrack(int fd) {
	if (fd < 0 || fd >= VK_MAXFD || !tab[fd]) return;
	delete tab[fd]->ep;
	delete tab[fd];
	tab[fd] = nullptr;
}
void mark_harness_fd(int fd) { if (FdEnt *e = ent(fd)) e->harness = true; }
int open_fd_count_lib() {
	int n = 0;
	for (int i = 0; i < VK_MAXFD; i++) if (tab[i] && !tab[i]->harness) n++;
	return n;
}
std::string open_fd_list_lib() {
	std::string s;
	for (int i = 0; i < VK_MAXFD; i++) if (tab[i] && !tab[i]->harness) {
		char b[48];
		snprintf(b, sizeof b, "%s%d(%s)", s.empty() ? "" : ",", i, tab[i]->kind == F_SIM ? "sim" : tab[i]->kind == F_EPOLL ? "epoll" : "real");
		s += b;
	}
	return s;
}
bool is_sim_fd(int fd) { FdEnt *e = ent(fd); return e && e->kind == F_SIM; }

void script_read(int fd, ScriptItem it) { FdEnt *e = ent(fd); if (!e) e = track(fd, F_REAL), e->harness = true; e->rscript.push_back(it); }
void script_write(int fd, ScriptItem it) { FdEnt *e = ent(fd); if (!e) e = track(fd, F_REAL), e->harness = true; e->wscript.push_back(it); }
void script_clear(int fd) { if (FdEnt *e = ent(fd)) { e->rscript.clear(); e->wscript.clear(); e->has_fion = false; } }
void script_fionread(int fd, int64_t lie) { FdEnt *e = ent(fd); if (!e) e = track(fd, F_REAL), e->harness = true; e->has_fion = true; e->fion = lie; }

// ---- addresses
sockaddr_in addr4(uint32_t ip_host_order, uint16_t port) {
	sockaddr_in a{};
	a.sin_family = AF_INET;
	a.sin_addr.s_addr = htonl(ip_host_order);
	a.sin_port = htons(port);
	return a;
}
static std::string addr_key(const sockaddr *sa) {
	char b[160];
	if (sa->sa_family == AF_INET) snprintf(b, sizeof b, "i:%d", ntohs(((const sockaddr_in *)sa)->sin_port));
	else if (sa->sa_family == AF_INET6) snprintf(b, sizeof b, "i:%d", ntohs(((const sockaddr_in6 *)sa)->sin6_port));
	else if (sa->sa_family == AF_UNIX) snprintf(b, sizeof b, "u:%s", ((const sockaddr_un *)sa)->sun_path);
	else snprintf(b, sizeof b, "?:%d", sa->sa_family);
	return b;
}
std::string addr_str(const sockaddr *sa) {
	char b[160], ip[64];
	if (sa->sa_family == AF_INET) {
		const sockaddr_in *a = (const sockaddr_in *)sa;
		const unsigned char *p = (const unsigned char *)&a->sin_addr;
		snprintf(b, sizeof b, "%u.%u.%u.%u:%d", p[0], p[1], p[2], p[3], ntohs(a->sin_port));
	} else if (sa->sa_family == AF_INET6) {
		const sockaddr_in6 *a = (const sockaddr_in6 *)sa;
		const unsigned char *p = a->sin6_addr.s6_addr;
		int n = 0;
		for (int i = 0; i < 16; i += 2) n += snprintf(ip + n, sizeof ip - n, "%s%x", i ? ":" : "", (p[i] << 8) | p[i + 1]);
		snprintf(b, sizeof b, "[%s]:%d", ip, ntohs(a->sin6_port));
	} else return addr_key(sa);
	return b;
}
static void set_port(sockaddr_storage &ss, int port) {
	if (ss.ss_family == AF_INET) ((sockaddr_in *)&ss)->sin_port = htons(port);
	else if (ss.ss_family == AF_INET6) ((sockaddr_in6 *)&ss)->sin6_port = htons(port);
}
static int get_port(const sockaddr *sa) {
	if (sa->sa_family == AF_INET) return ntohs(((const sockaddr_in *)sa)->sin_port);
	if (sa->sa_family == AF_INET6) return ntohs(((const sockaddr_in6 *)sa)->sin6_port);
	return -1;
}
static void autobind(Sock *s) {
	if (s->bound) return;
	memset(&s->local, 0, sizeof s->local);
	if (s->family == AF_INET6) {
		sockaddr_in6 *a = (sockaddr_in6 *)&s->local;
		a->sin6_family = AF_INET6;
		a->sin6_addr.s6_addr[15] = 1;
		s->locallen = sizeof *a;
	} else if (s->family == AF_UNIX) {
		s->local.ss_family = AF_UNIX;
		s->locallen = sizeof(sa_family_t);
		s->bound = true;
		return;
	} else {
		sockaddr_in *a = (sockaddr_in *)&s->local;
		a->sin_family = AF_INET;
		a->sin_addr.s_addr = htonl(0x7f000001);
		s->locallen = sizeof *a;
	}
	set_port(s->local, next_port++);
	s->bound = true;
	if (s->type == SOCK_DGRAM) {
		s->key = addr_key((sockaddr *)&s->local);
		bound_dgram[s->key] = s;
	}
}

static Sock *new_sock(bool ep, int family, int type) {
	Sock *s = ep ? new Endpoint() : new Sock();
	s->id = next_sock_id++;
	s->is_ep = ep;
	s->family = family;
	s->type = type;
	socks.emplace_back(s);
	return s;
}
static Pipe *new_pipe(Sock *writer, Sock *reader, size_t cap) {
	Pipe *p = new Pipe();
	p->writer = writer;
	p->reader = reader;
	p->cap = cap;
	pipes.emplace_back(p);
	return p;
}
static void link_pair(Sock *a, Sock *b) {
	size_t capa = a->sndbuf ? a->sndbuf : net.sockbuf, capb = b->sndbuf ? b->sndbuf : net.sockbuf;
	a->out = b->in = new_pipe(a, b, capa);
	b->out = a->in = new_pipe(b, a, capb);
	a->other = b;
	b->other = a;
	a->state = b->state = ST_CONNECTED;
}

static int64_t draw_lat() {
	if (net.lat_max_ns <= net.lat_min_ns) return net.lat_min_ns;
	return net.lat_min_ns + (int64_t)G.net.below((uint64_t)(net.lat_max_ns - net.lat_min_ns + 1));
}

static void consume_ep(Sock *r) {	// an unpaused endpoint consumes everything delivered
	Pipe *p = r->in;
	if (!p || r->paused || r->closed) return;
	if (p->avail()) {
		std::string d = p->rx.substr(p->rxoff);
		p->rx.clear();
		p->rxoff = 0;
		p->consumed += d.size();
		if (r->cbs.on_data) r->cbs.on_data((Endpoint *)r, d);
	}
}
static void notify_writable(Pipe *p) {
	Sock *w = p->writer;
	if (w && w->is_ep && !w->closed && w->cbs.on_writable && p->room() > 0) w->cbs.on_writable((Endpoint *)w);
}

static void deliver(Pipe *p, const std::string &seg) {
	p->inflight -= std::min(p->inflight, seg.size());
	Sock *r = p->reader;
	if (p->rst || !r || r->closed || r->rd_shut) return;	// discarded by the network / receiver
	if (p->rxoff && p->rxoff == p->rx.size()) { p->rx.clear(); p->rxoff = 0; }
	p->rx.append(seg);
	p->delivered += seg.size();
	sim::tr("net deliver sock=%d n=%zu", r->id, seg.size());
	if (r->is_ep) consume_ep(r);
}
static void deliver_fin(Pipe *p) {
	if (p->rst) return;
	p->fin = true;
	Sock *r = p->reader;
	sim::tr("net fin sock=%d", r ? r->id : -1);
	if (r && r->is_ep && !r->closed && r->cbs.on_eof) r->cbs.on_eof((Endpoint *)r);
}

static void schedule_bytes(Pipe *p, const char *buf, size_t n) {
	size_t off = 0;
	while (off < n) {
		size_t seg = n - off;
		switch (net.seg_mode) {
		case 1: seg = 1 + G.net.below(seg); break;
		case 2: seg = 1; break;
		case 3: seg = std::min<size_t>(seg, net.seg_size > 0 ? net.seg_size : 1); break;
		default: break;
		}
		int64_t t = std::max(p->last_deliv, G.now_ns + draw_lat());
		p->last_deliv = t;
		std::string s(buf + off, seg);
		at(t, [p, s]() { deliver(p, s); });
		off += seg;
	}
	p->inflight += n;
	p->written += n;
}
static void schedule_fin(Pipe *p) {
	if (p->fin_queued) return;
	p->fin_queued = true;
	int64_t t = std::max(p->last_deliv, G.now_ns + draw_lat());
	p->last_deliv = t;
	at(t, [p]() { deliver_fin(p); });
}
static void do_reset(Sock *s) {	// connection is torn down in both directions
	for (Pipe *p : {s->in, s->out}) {
		if (!p || p->rst) continue;
		p->rst = true;
		p->rx.clear();
		p->rxoff = 0;
		p->inflight = 0;
	}
	sim::tr("net rst sock=%d", s->id);
	Sock *o = s->other;
	if (o && o->is_ep && !o->closed && o->cbs.on_reset) o->cbs.on_reset((Endpoint *)o);
	if (s->is_ep && !s->closed && s->cbs.on_reset) s->cbs.on_reset((Endpoint *)s);
}

static ssize_t sock_write(Sock *s, const char *buf, size_t n) {
	if (s->state == ST_FAILED || s->state == ST_NEW || s->state == ST_LISTEN) { errno = s->so_error ? s->so_error : ENOTCONN; if (s->so_error) s->so_error = 0; return -1; }
	if (s->state == ST_CONNECTING) { errno = EAGAIN; return -1; }
	Pipe *p = s->out;
	if (s->wr_shut) { errno = EPIPE; return -1; }
	if (p->rst) { errno = s->in && !s->in->rst_reported ? ECONNRESET : EPIPE; if (s->in) s->in->rst_reported = true; return -1; }
	Sock *o = s->other;
	if (o && o->closed && s->in && s->in->fin) { errno = EPIPE; return -1; }
	size_t room = p->room();
	if (room == 0) { errno = EAGAIN; return -1; }
	if (n > room) n = room;
	if (n == 0) return 0;
	schedule_bytes(p, buf, n);
	return (ssize_t)n;
}
static ssize_t sock_read(Sock *s, char *buf, size_t n) {
	if (s->so_error) { errno = s->so_error; s->so_error = 0; return -1; }
	if (s->state == ST_CONNECTING) { errno = EAGAIN; return -1; }
	if (s->state != ST_CONNECTED) { errno = ENOTCONN; return -1; }
	Pipe *p = s->in;
	if (s->rd_shut) return 0;
	size_t av = p->avail();
	if (av) {
		bool was_full = p->room() == 0;
		if (n > av) n = av;
		memcpy(buf, p->rx.data() + p->rxoff, n);
		p->rxoff += n;
		p->consumed += n;
		if (p->rxoff == p->rx.size()) { p->rx.clear(); p->rxoff = 0; }
		if (was_full) notify_writable(p);
		return (ssize_t)n;
	}
	if (p->rst) {
		if (!p->rst_reported) { p->rst_reported = true; errno = ECONNRESET; return -1; }
		return 0;
	}
	if (p->fin) return 0;
	errno = EAGAIN;
	return -1;
}
static void sock_close(Sock *s) {
	if (s->closed) return;
	if (s->type == SOCK_STREAM && s->state == ST_CONNECTED) {
		bool unread = s->in && s->in->avail() > 0;
		s->closed = true;
		if (unread || (s->in && s->in->inflight > 0 && false)) do_reset(s);
		else {
			if (s->out && !s->out->rst) schedule_fin(s->out);
		}
	}
	s->closed = true;
	if (s->state == ST_LISTEN) {
		for (Sock *c : s->acceptq) { c->closed = true; if (c->other) do_reset(c); }
		s->acceptq.clear();
	}
	if (!s->key.empty()) {
		auto &m = s->type == SOCK_DGRAM ? bound_dgram : bound_stream;
		auto it = m.find(s->key);
		if (it != m.end() && it->second == s) m.erase(it);
	}
}

static int sock_revents(Sock *s) {
	int r = 0;
	if (s->type == SOCK_DGRAM) {
		if (!s->dq.empty()) r |= POLLIN;
		r |= POLLOUT;
		return r;
	}
	switch (s->state) {
	case ST_LISTEN: if (!s->acceptq.empty()) r |= POLLIN; break;
	case ST_NEW: r |= POLLOUT | POLLHUP; break;
	case ST_CONNECTING: break;
	case ST_FAILED: r |= POLLIN | POLLOUT | POLLERR | POLLHUP; break;
	case ST_CONNECTED: {
		Pipe *in = s->in, *out = s->out;
		if (in->avail() || in->fin || in->rst || s->rd_shut) r |= POLLIN;
		if (in->fin || in->rst) r |= POLLRDHUP;
		if (out->rst || s->wr_shut) r |= POLLOUT;	// Linux: a socket shut down for sending polls writable (the write then fails)
		else if (out->room() > 0) r |= POLLOUT;
		if (in->rst && !in->rst_reported) r |= POLLERR;
		if (in->rst || (in->fin && s->wr_shut)) r |= POLLHUP;
		break;
	}
	}
	if (s->so_error) r |= POLLERR;
	return r;
}

static int alloc_sim_fd() {
	if (base_efd < 0) {
		base_efd = __real_eventfd(0, EFD_CLOEXEC | EFD_NONBLOCK);
		int hi = __real_fcntl(base_efd, F_DUPFD_CLOEXEC, 1100);
		__real_close(base_efd);
		base_efd = hi;
	}
	int fd = __real_dup(base_efd);
	return fd;
}
static int install_sock(Sock *s) {
	int fd = alloc_sim_fd();
	if (fd < 0) return -1;
	if (fd >= VK_MAXFD) { __real_close(fd); errno = EMFILE; return -1; }
	FdEnt *e = track(fd, F_SIM);
	e->s = s;
	s->fd = fd;
	return fd;
}

static void establish(Sock *c, Sock *l) {	// c: connecting client; l: listener
	Sock *srv = new_sock(l->is_ep, l->family, SOCK_STREAM);
	srv->local = l->local;
	srv->locallen = l->locallen;
	srv->bound = true;
	srv->peer = c->local;
	srv->peerlen = c->locallen;
	srv->has_peer = true;
	link_pair(c, srv);
	sim::tr("net established client=%d server=%d", c->id, srv->id);
	if (l->is_ep) { if (l->on_accept) l->on_accept((Endpoint *)srv); }
	else l->acceptq.push_back(srv);
}
static void complete_connect(Sock *c, int err, std::string key) {
	if (c->closed || c->state != ST_CONNECTING) return;
	Sock *l = nullptr;
	if (!err) {
		auto it = bound_stream.find(key);
		if (it == bound_stream.end() || it->second->state != ST_LISTEN || it->second->closed) err = ECONNREFUSED;
		else l = it->second;
	}
	if (err) {
		c->state = ST_FAILED;
		c->so_error = err;
		sim::tr("net connect-failed sock=%d err=%d", c->id, err);
		if (c->is_ep && c->cbs.on_connect_failed) c->cbs.on_connect_failed((Endpoint *)c, err);
		return;
	}
	establish(c, l);
	if (c->is_ep && c->cbs.on_connected) c->cbs.on_connected((Endpoint *)c);
}
static int sock_connect(Sock *s, const sockaddr *addr, socklen_t len) {
	if (s->type == SOCK_DGRAM) {
		memcpy(&s->peer, addr, std::min<size_t>(len, sizeof s->peer));
		s->peerlen = len;
		s->has_peer = true;
		autobind(s);
		return 0;
	}
	if (s->state == ST_CONNECTED) { errno = EISCONN; return -1; }
	if (s->state == ST_CONNECTING) { errno = EALREADY; return -1; }
	ConnectDecision d;
	if (!s->is_ep && connect_policy) d = connect_policy(addr, len);
	autobind(s);
	memcpy(&s->peer, addr, std::min<size_t>(len, sizeof s->peer));
	s->peerlen = len;
	s->has_peer = true;
	std::string key = addr_key(addr);
	s->state = ST_CONNECTING;
	if (d.immediate) {
		complete_connect(s, d.err, key);
		if (s->state == ST_CONNECTED) return 0;
		errno = s->so_error;
		s->so_error = 0;
		s->state = ST_NEW;
		return -1;
	}
	if (!d.never) {
		int64_t lat = d.lat_ns >= 0 ? d.lat_ns : net.connect_lat_ns;
		int err = d.err;
		after(lat, [s, err, key]() { complete_connect(s, err, key); });
	}
	errno = EINPROGRESS;
	return -1;
}

// ---- endpoints -------------------------------------------------------------
Endpoint *ep_listen(const sockaddr *addr, socklen_t len, std::function<void(Endpoint *)> on_accept) {
	Sock *s = new_sock(true, addr->sa_family, SOCK_STREAM);
	memcpy(&s->local, addr, len);
	s->locallen = len;
	s->bound = true;
	s->state = ST_LISTEN;
	s->on_accept = std::move(on_accept);
	s->key = addr_key(addr);
	bound_stream[s->key] = s;
	return (Endpoint *)s;
}
Endpoint *ep_connect(const sockaddr *addr, socklen_t len, EndpointCbs cbs) {
	Sock *s = new_sock(true, addr->sa_family, SOCK_STREAM);
	s->cbs = std::move(cbs);
	sock_connect(s, addr, len);
	return (Endpoint *)s;
}
Endpoint *ep_dgram(const sockaddr *addr, socklen_t len, EndpointCbs cbs) {
	Sock *s = new_sock(true, addr->sa_family, SOCK_DGRAM);
	memcpy(&s->local, addr, len);
	s->locallen = len;
	s->bound = true;
	s->cbs = std::move(cbs);
	s->key = addr_key(addr);
	bound_dgram[s->key] = s;
	return (Endpoint *)s;
}
void ep_set_cbs(Endpoint *e, EndpointCbs cbs) { e->cbs = std::move(cbs); }
size_t ep_send(Endpoint *e, const std::string &b) {
	if (e->closed || e->state != ST_CONNECTED || e->wr_shut || e->out->rst) return 0;
	size_t n = std::min(b.size(), e->out->room());
	if (n) schedule_bytes(e->out, b.data(), n);
	return n;
}
void ep_send_cut(Endpoint *e, const std::string &b, const std::vector<size_t> &cuts, int64_t gap_ns) {
	// explicit segmentation: ignores the send-buffer limit (the scripted peer has an unbounded buffer)
	if (e->closed || e->state != ST_CONNECTED || e->wr_shut || e->out->rst) return;
	Pipe *p = e->out;
	size_t off = 0;
	std::vector<size_t> cs(cuts);
	cs.push_back(b.size());
	int64_t t = std::max(p->last_deliv, G.now_ns + net.lat_min_ns);
	for (size_t c : cs) {
		if (c > b.size()) c = b.size();
		if (c <= off) continue;
		std::string s = b.substr(off, c - off);
		p->inflight += s.size();
		p->written += s.size();
		at(t, [p, s]() { deliver(p, s); });
		p->last_deliv = t;
		t += gap_ns;
		off = c;
	}
}
void ep_sendto(Endpoint *e, const std::string &b, const sockaddr *to, socklen_t len) {
	std::string key = addr_key(to);
	auto it = bound_dgram.find(key);
	if (it == bound_dgram.end() || it->second->closed) { sim::tr("net dgram to nowhere %s", key.c_str()); return; }
	Sock *d = it->second;
	Dgram g;
	g.data = b;
	g.from = e->local;
	g.fromlen = e->locallen;
	at(G.now_ns + draw_lat(), [d, g]() {
		if (d->closed) return;
		if (d->is_ep) { if (d->cbs.on_dgram) d->cbs.on_dgram((Endpoint *)d, g.data, g.from, g.fromlen); }
		else d->dq.push_back(g);
	});
	(void)len;
}
void ep_shutdown(Endpoint *e) { if (!e->closed && e->state == ST_CONNECTED && !e->wr_shut) { e->wr_shut = true; schedule_fin(e->out); } }
void ep_close(Endpoint *e) { sock_close(e); }
void ep_reset(Endpoint *e) { if (e->state == ST_CONNECTED) do_reset(e); e->closed = true; }
void ep_pause_reading(Endpoint *e, bool paused) {
	e->paused = paused;
	if (!paused && e->in) { bool full = e->in->room() == 0; consume_ep(e); if (full) notify_writable(e->in); }
}
void ep_free(Endpoint *e) { sock_close(e); }
int ep_id(Endpoint *e) { return e->id; }
uint64_t ep_bytes_received(Endpoint *e) { return e->in ? e->in->consumed : 0; }
void *&ep_user(Endpoint *e) { return e->user; }
bool ep_open(Endpoint *e) { return !e->closed; }
int ep_local_port(Endpoint *e) { return e->bound ? get_port((sockaddr *)&e->local) : -1; }
int ep_state(Endpoint *e) { if (e->closed) return 3; if (e->state == ST_CONNECTED) return 1; if (e->state == ST_FAILED) return 2; return 0; }

int sim_socketpair(int fds[2]) {
	Sock *a = new_sock(false, AF_UNIX, SOCK_STREAM), *b = new_sock(false, AF_UNIX, SOCK_STREAM);
	autobind(a);
	autobind(b);
	link_pair(a, b);
	fds[0] = install_sock(a);
	fds[1] = install_sock(b);
	return 0;
}
size_t sim_unread(int fd) { FdEnt *e = ent(fd); return e && e->s && e->s->in ? e->s->in->avail() : 0; }
bool sim_connected(int fd) { FdEnt *e = ent(fd); return e && e->s && e->s->state == ST_CONNECTED; }
size_t sim_unsent_room(int fd) { FdEnt *e = ent(fd); return e && e->s && e->s->out ? e->s->out->room() : 0; }
void sim_inject_reset(int fd) { FdEnt *e = ent(fd); if (e && e->s && e->s->state == ST_CONNECTED) do_reset(e->s); }
void sim_set_sockbuf(int fd, size_t cap) { FdEnt *e = ent(fd); if (e && e->s) { e->s->sndbuf = cap; if (e->s->out) e->s->out->cap = cap; } }

// ---------------------------------------------------------------------------
// waiting
static int do_wait(int kind, int64_t timeout_ns, int epfd, const std::function<int()> &query) {
	G.steps++;
	if (hooks.wait_enter) hooks.wait_enter(kind, timeout_ns, epfd);
	// once a violation is recorded the oracles go quiet; make sure the loop under test still ends
	if (G.violated && hooks.stall) hooks.stall();
	if (G.steps > wait_cap) {
		if (!G.capped) { G.capped = true; sim::tr("cap wait calls"); if (hooks.capped) hooks.capped(); }
	}
	if (unusual(S_WAIT_EINTR)) {
		sim::tr("flt wait EINTR");
		if (hooks.wait_exit) hooks.wait_exit(-1);
		errno = EINTR;
		return -1;
	}
	int n;
	if (hooks.block) {
		int64_t deadline = timeout_ns < 0 ? INT64_MAX : G.now_ns + timeout_ns;
		n = hooks.block(query, deadline);
	} else {
		int64_t deadline = (timeout_ns < 0 || timeout_ns > INT64_MAX - G.now_ns) ? INT64_MAX : G.now_ns + timeout_ns;
		for (;;) {
			run_due_events();
			n = query();
			if (n != 0) break;
			if (G.now_ns >= deadline) break;
			int64_t next = std::min(deadline, next_event_time());
			if (next != INT64_MAX && next > 6000000000000000000LL) {	// virtual clock would overflow: end the run here
				if (!G.capped) { G.capped = true; sim::tr("cap clock"); if (hooks.capped) hooks.capped(); }
				break;
			}
			if (next == INT64_MAX) {
				sim::tr("stall");
				if (hooks.stall) hooks.stall();
				break;
			}
			set_clock(next, next == deadline ? "timeout" : "event");
			if (G.capped) break;
		}
	}
	sim::tr("wait kind=%d to=%lld -> %d", kind, (long long)timeout_ns, n);
	if (hooks.wait_exit) hooks.wait_exit(n);
	return n;
}

}	// namespace vk

using namespace vk;

// ===========================================================================
// wrappers
extern "C" {
ssize_t __wrap_sendto(int fd, const void *buf, size_t n, int flags, const struct sockaddr *to, socklen_t tolen);

int64_t vk_real_mono_ns(void) {
	struct timespec ts;
	__real_clock_gettime(CLOCK_MONOTONIC, &ts);
	return ts.tv_sec * NS + ts.tv_nsec;
}

int __wrap_clock_gettime(clockid_t id, struct timespec *ts) {
	if (!active) return __real_clock_gettime(id, ts);
	int64_t t = G.now_ns;
	if (id == CLOCK_REALTIME || id == CLOCK_REALTIME_COARSE) t += G.wall_off_ns;
	ts->tv_sec = t / NS;
	ts->tv_nsec = t % NS;
	return 0;
}
int __wrap_gettimeofday(struct timeval *tv, void *tz) {
	if (!active) return __real_gettimeofday(tv, tz);
	int64_t t = G.now_ns + G.wall_off_ns;
	tv->tv_sec = t / NS;
	tv->tv_usec = (t % NS) / 1000;
	return 0;
}
time_t __wrap_time(time_t *out) {
	if (!active) return __real_time(out);
	time_t t = (G.now_ns + G.wall_off_ns) / NS;
	if (out) *out = t;
	return t;
}
int __wrap_nanosleep(const struct timespec *req, struct timespec *rem) {
	if (!active) return __real_nanosleep(req, rem);
	advance_running(req->tv_sec * NS + req->tv_nsec);
	return 0;
}
pid_t __wrap_getpid(void) { return active ? 4242 : __real_getpid(); }
// libevent-internal seam (link-time, no source change): a rate-limit group seeds its member-picking generator from the
// clock plus the group's heap address; the address is the one input the simulator does not own, so a non-zero seed is
// re-derived from the virtual clock alone (seed 0 = "use time and pid", both already simulated, is passed through)
uint32_t __wrap_evutil_weakrand_seed_(void *state, uint32_t seed) {
	if (active && seed != 0) { seed = (uint32_t)sim::mix64((uint64_t)G.now_ns ^ 0x5eedULL); if (!seed) seed = 1; }
	return __real_evutil_weakrand_seed_(state, seed);
}

// secure RNG (DNS transaction ids, 0x20 case bits): a dedicated PRNG stream of the run. rng_byte_mask < 0xff narrows every
// byte (few distinct transaction ids), so that the "id already in flight" path is exercised within a handful of requests.
uint32_t __wrap_arc4random(void) {
	if (!active) return __real_arc4random();
	uint32_t v = (uint32_t)G.lib.next();
	unsigned m = rng_byte_mask;
	return v & (m | (m << 8) | (m << 16) | (m << 24));
}
void __wrap_arc4random_buf(void *buf, size_t n) {
	if (!active) { __real_arc4random_buf(buf, n); return; }
	unsigned char *b = (unsigned char *)buf;
	for (size_t i = 0; i < n; i++) b[i] = (unsigned char)(G.lib.next() >> 32) & rng_byte_mask;
}

// ---- epoll
int __wrap_epoll_create1(int flags) {
	int fd = __real_epoll_create1(flags);
	if (fd >= 0 && active) { FdEnt *e = track(fd, F_EPOLL); e->ep = new EpollTab(); }
	return fd;
}
int __wrap_epoll_create(int size) {
	int fd = __real_epoll_create(size);
	if (fd >= 0 && active) { FdEnt *e = track(fd, F_EPOLL); e->ep = new EpollTab(); }
	return fd;
}
int __wrap_epoll_ctl(int epfd, int op, int fd, struct epoll_event *ev) {
	FdEnt *t = ent(fd), *ep = ent(epfd);
	if (active && t && t->kind == F_SIM && ep && ep->ep) {
		auto &items = ep->ep->items;
		auto it = items.find(fd);
		if (op == EPOLL_CTL_ADD) {
			if (it != items.end()) { errno = EEXIST; return -1; }
			items[fd] = *ev;
		} else if (op == EPOLL_CTL_MOD) {
			if (it == items.end()) { errno = ENOENT; return -1; }
			it->second = *ev;
		} else {
			if (it == items.end()) { errno = ENOENT; return -1; }
			items.erase(it);
		}
		sim::tr("sys epoll_ctl op=%d fd=%d ev=%x", op, fd, ev ? ev->events : 0);
		return 0;
	}
	int r = __real_epoll_ctl(epfd, op, fd, ev);
	if (active) sim::tr("sys epoll_ctl op=%d fd=%d ev=%x -> %d/%d", op, fd, ev ? ev->events : 0, r, r < 0 ? errno : 0);
	return r;
}
static int epoll_query(int epfd, struct epoll_event *events, int maxev) {
	int n = __real_epoll_wait(epfd, events, maxev, 0);
	if (n < 0) return n;
	FdEnt *ep = ent(epfd);
	if (ep && ep->ep) {
		for (auto &kv : ep->ep->items) {
			if (n >= maxev) break;
			FdEnt *t = ent(kv.first);
			if (!t || !t->s) continue;
			uint32_t want = kv.second.events;
			uint32_t re = (uint32_t)sock_revents(t->s);
			uint32_t rep = re & (want | EPOLLERR | EPOLLHUP);
			rep &= (EPOLLIN | EPOLLOUT | EPOLLERR | EPOLLHUP | EPOLLRDHUP);
			if (rep) { events[n].events = rep; events[n].data = kv.second.data; n++; }
		}
	}
	return n;
}
int __wrap_epoll_wait(int epfd, struct epoll_event *events, int maxev, int ms) {
	if (!active) return __real_epoll_wait(epfd, events, maxev, ms);
	return do_wait(W_EPOLL, ms < 0 ? -1 : (int64_t)ms * 1000000, epfd, [=]() { return epoll_query(epfd, events, maxev); });
}
int __wrap_epoll_pwait2(int epfd, struct epoll_event *events, int maxev, const struct timespec *to, const sigset_t *sm) {
	(void)sm;
	int64_t t = to ? to->tv_sec * NS + to->tv_nsec : -1;
	if (!active) return __real_epoll_wait(epfd, events, maxev, to ? (int)(t / 1000000) : -1);
	return do_wait(W_EPOLL, t, epfd, [=]() { return epoll_query(epfd, events, maxev); });
}
int __wrap_epoll_pwait(int epfd, struct epoll_event *events, int maxev, int ms, const sigset_t *sm) {
	(void)sm;
	return __wrap_epoll_wait(epfd, events, maxev, ms);
}

// ---- poll
static int poll_query(::pollfd *fds, nfds_t n) {
	std::vector< ::pollfd> real;
	std::vector<nfds_t> idx;
	int cnt = 0;
	for (nfds_t i = 0; i < n; i++) {
		fds[i].revents = 0;
		if (fds[i].fd < 0) continue;
		FdEnt *t = ent(fds[i].fd);
		if (t && t->kind == F_SIM && t->s) {
			int re = sock_revents(t->s) & (fds[i].events | POLLERR | POLLHUP);
			fds[i].revents = (short)re;
			if (re) cnt++;
		} else {
			real.push_back(fds[i]);
			idx.push_back(i);
		}
	}
	if (!real.empty()) {
		int r = __real_poll(real.data(), real.size(), 0);
		if (r < 0) return r;
		for (size_t k = 0; k < real.size(); k++) {
			fds[idx[k]].revents = real[k].revents;
			if (real[k].revents) cnt++;
		}
	}
	return cnt;
}
int __wrap_poll(::pollfd *fds, nfds_t n, int ms) {
	if (!active) return __real_poll(fds, n, ms);
	if (hooks.poll_snapshot) hooks.poll_snapshot(fds, (unsigned)n);
	return do_wait(W_POLL, ms < 0 ? -1 : (int64_t)ms * 1000000, -1, [=]() { return poll_query(fds, n); });
}

// ---- select
static int select_query(int nfds, fd_set *r, fd_set *w, fd_set *x, const fd_set *ir, const fd_set *iw) {
	fd_set rr, rw;
	FD_ZERO(&rr);
	FD_ZERO(&rw);
	bool anyreal = false;
	int cnt = 0;
	fd_set outr, outw;
	FD_ZERO(&outr);
	FD_ZERO(&outw);
	for (int fd = 0; fd < nfds; fd++) {
		bool wr = ir && FD_ISSET(fd, ir), ww = iw && FD_ISSET(fd, iw);
		if (!wr && !ww) continue;
		FdEnt *t = ent(fd);
		if (t && t->kind == F_SIM && t->s) {
			int re = sock_revents(t->s);
			if (wr && (re & (POLLIN | POLLHUP | POLLERR | POLLRDHUP))) { FD_SET(fd, &outr); cnt++; }
			if (ww && (re & (POLLOUT | POLLERR))) { FD_SET(fd, &outw); cnt++; }
		} else {
			if (wr) FD_SET(fd, &rr);
			if (ww) FD_SET(fd, &rw);
			anyreal = true;
		}
	}
	if (anyreal) {
		struct timeval z = {0, 0};
		int k = __real_select(nfds, &rr, &rw, nullptr, &z);
		if (k < 0) return k;
		for (int fd = 0; fd < nfds; fd++) {
			if (FD_ISSET(fd, &rr)) { FD_SET(fd, &outr); cnt++; }
			if (FD_ISSET(fd, &rw)) { FD_SET(fd, &outw); cnt++; }
		}
	}
	if (cnt) {
		if (r) memcpy(r, &outr, sizeof(fd_set));
		if (w) memcpy(w, &outw, sizeof(fd_set));
		if (x) FD_ZERO(x);
	}
	return cnt;
}
int __wrap_select(int nfds, fd_set *r, fd_set *w, fd_set *x, struct timeval *tv) {
	if (!active) return __real_select(nfds, r, w, x, tv);
	if (nfds == 0 && !r && !w) {	// used as a sleep
		if (tv) advance_running(tv->tv_sec * NS + tv->tv_usec * 1000);
		return 0;
	}
	// libevent's select backend passes fd_sets sized by its own allocation (may be smaller than fd_set)
	size_t bytes = ((nfds + 63) / 64) * 8;
	fd_set ir, iw;
	FD_ZERO(&ir);
	FD_ZERO(&iw);
	if (r) memcpy(&ir, r, std::min(bytes, sizeof(fd_set)));
	if (w) memcpy(&iw, w, std::min(bytes, sizeof(fd_set)));
	if (hooks.select_snapshot) hooks.select_snapshot(nfds, &ir, &iw);
	fd_set tr_, tw_;
	int64_t to = tv ? tv->tv_sec * NS + (int64_t)tv->tv_usec * 1000 : -1;
	int n = do_wait(W_SELECT, to, -1, [&]() { return select_query(nfds, &tr_, &tw_, nullptr, &ir, &iw); });
	if (n > 0) {
		if (r) memcpy(r, &tr_, std::min(bytes, sizeof(fd_set)));
		if (w) memcpy(w, &tw_, std::min(bytes, sizeof(fd_set)));
	} else if (n == 0) {
		if (r) memset(r, 0, std::min(bytes, sizeof(fd_set)));
		if (w) memset(w, 0, std::min(bytes, sizeof(fd_set)));
	}
	if (x) memset(x, 0, std::min(bytes, sizeof(fd_set)));
	return n;
}

// ---- stream I/O
static bool pop_script(std::deque<ScriptItem> &q, ScriptItem &it) {
	if (q.empty()) return false;
	it = q.front();
	q.pop_front();
	return true;
}

static ssize_t vk_read_common(int fd, void *buf, size_t n, bool &handled) {
	handled = true;
	FdEnt *e = ent(fd);
	ScriptItem it;
	size_t limit = n;
	if (e && pop_script(e->rscript, it)) {
		sim::fault(it.kind == ScriptItem::ERR ? "script.read.err" : "script.read.bytes");
		if (it.kind == ScriptItem::ERR) { errno = (int)it.v; sim::tr("sys read fd=%d scripted errno=%d", fd, errno); return -1; }
		if (it.v == 0) { sim::tr("sys read fd=%d scripted EOF", fd); return 0; }
		limit = std::min<size_t>(n, (size_t)it.v);
	} else if (active && e && e->kind == F_SIM) {
		if (unusual(S_READ_EINTR)) { if (io_retry) io_retry(fd, false); errno = EINTR; return -1; }
		if (unusual(S_READ_EAGAIN)) { if (io_retry) io_retry(fd, false); errno = EAGAIN; return -1; }
		if (unusual(S_READ_ERR)) { errno = ECONNRESET; if (e->s && e->s->state == ST_CONNECTED) do_reset(e->s); if (e->s && e->s->in) e->s->in->rst_reported = true; return -1; }
		if (n > 1 && unusual(S_READ_SHORT)) limit = 1 + G.bug.below(n - 1);
	}
	if (e && e->kind == F_SIM && e->s) {
		ssize_t r;
		if (e->s->type == SOCK_DGRAM) {
			if (e->s->dq.empty()) { errno = EAGAIN; return -1; }
			Dgram g = e->s->dq.front();
			e->s->dq.pop_front();
			r = std::min(limit, g.data.size());
			memcpy(buf, g.data.data(), r);
			if (tap_dgram) tap_dgram(fd, false, g.data.data(), g.data.size(), (sockaddr *)&g.from);
		} else {
			r = sock_read(e->s, (char *)buf, limit);
			if (r > 0 && tap_stream) tap_stream(fd, false, (const char *)buf, r);
			if (r > 0 && io_ledger) io_ledger(fd, false, r);
		}
		sim::tr("sys read fd=%d n=%zu -> %zd/%d", fd, n, r, r < 0 ? errno : 0);
		return r;
	}
	handled = false;
	return (ssize_t)limit;
}
ssize_t __wrap_read(int fd, void *buf, size_t n) {
	bool h;
	ssize_t r = vk_read_common(fd, buf, n, h);
	if (h) return r;
	r = __real_read(fd, buf, (size_t)r);
	if (active) sim::tr("sys read fd=%d n=%zu -> %zd/%d", fd, n, r, r < 0 ? errno : 0);
	return r;
}
ssize_t __wrap_recv(int fd, void *buf, size_t n, int flags) {
	bool h;
	ssize_t r = vk_read_common(fd, buf, n, h);
	if (h) return r;
	return __real_recv(fd, buf, (size_t)r, flags);
}
ssize_t __wrap_readv(int fd, const struct iovec *iov, int cnt) {
	FdEnt *e = ent(fd);
	bool scripted = e && !e->rscript.empty();
	if ((e && e->kind == F_SIM) || scripted) {
		size_t total = 0;
		for (int i = 0; i < cnt; i++) total += iov[i].iov_len;
		std::string tmp(total, '\0');
		bool h;
		ssize_t r = vk_read_common(fd, &tmp[0], total, h);
		if (!h) {	// scripted limit on a real fd
			size_t lim = (size_t)r;
			std::vector<struct iovec> v(iov, iov + cnt);
			size_t left = lim;
			int k = 0;
			for (; k < cnt && left > 0; k++) { if (v[k].iov_len > left) v[k].iov_len = left; left -= v[k].iov_len; }
			r = __real_readv(fd, v.data(), k);
			if (active) sim::tr("sys readv fd=%d lim=%zu -> %zd", fd, lim, r);
			return r;
		}
		if (r <= 0) return r;
		size_t off = 0;
		for (int i = 0; i < cnt && off < (size_t)r; i++) {
			size_t k = std::min<size_t>(iov[i].iov_len, r - off);
			memcpy(iov[i].iov_base, tmp.data() + off, k);
			off += k;
		}
		return r;
	}
	ssize_t r = __real_readv(fd, iov, cnt);
	if (active) sim::tr("sys readv fd=%d -> %zd/%d", fd, r, r < 0 ? errno : 0);
	return r;
}

static ssize_t vk_write_common(int fd, const void *buf, size_t n, bool &handled) {
	handled = true;
	FdEnt *e = ent(fd);
	ScriptItem it;
	size_t limit = n;
	if (e && pop_script(e->wscript, it)) {
		sim::fault(it.kind == ScriptItem::ERR ? "script.write.err" : "script.write.bytes");
		if (it.kind == ScriptItem::ERR) { errno = (int)it.v; sim::tr("sys write fd=%d scripted errno=%d", fd, errno); return -1; }
		limit = std::min<size_t>(n, (size_t)it.v);
		if (limit == 0 && n > 0) { sim::tr("sys write fd=%d scripted 0", fd); return 0; }
	} else if (active && e && e->kind == F_SIM) {
		if (unusual(S_WRITE_EINTR)) { if (io_retry) io_retry(fd, true); errno = EINTR; return -1; }
		if (unusual(S_WRITE_EAGAIN)) { if (io_retry) io_retry(fd, true); errno = EAGAIN; return -1; }
		if (unusual(S_WRITE_ERR)) { errno = ECONNRESET; if (e->s && e->s->state == ST_CONNECTED) do_reset(e->s); if (e->s && e->s->in) e->s->in->rst_reported = true; return -1; }
		if (n > 1 && unusual(S_WRITE_SHORT)) limit = 1 + G.bug.below(n - 1);
	}
	if (e && e->kind == F_SIM && e->s) {
		ssize_t r;
		if (e->s->type == SOCK_DGRAM) {
			if (!e->s->has_peer) { errno = EDESTADDRREQ; return -1; }
			return __wrap_sendto(fd, buf, n, 0, (sockaddr *)&e->s->peer, e->s->peerlen);
		}
		r = sock_write(e->s, (const char *)buf, limit);
		if (r > 0 && tap_stream) tap_stream(fd, true, (const char *)buf, r);
		if (r > 0 && io_ledger) io_ledger(fd, true, r);
		sim::tr("sys write fd=%d n=%zu -> %zd/%d", fd, n, r, r < 0 ? errno : 0);
		return r;
	}
	handled = false;
	return (ssize_t)limit;
}
ssize_t __wrap_write(int fd, const void *buf, size_t n) {
	bool h;
	ssize_t r = vk_write_common(fd, buf, n, h);
	if (h) return r;
	r = __real_write(fd, buf, (size_t)r);
	if (active) sim::tr("sys write fd=%d n=%zu -> %zd/%d", fd, n, r, r < 0 ? errno : 0);
	return r;
}
ssize_t __wrap_send(int fd, const void *buf, size_t n, int flags) {
	bool h;
	ssize_t r = vk_write_common(fd, buf, n, h);
	if (h) return r;
	return __real_send(fd, buf, (size_t)r, flags);
}
ssize_t __wrap_writev(int fd, const struct iovec *iov, int cnt) {
	FdEnt *e = ent(fd);
	bool scripted = e && !e->wscript.empty();
	if ((e && e->kind == F_SIM) || scripted) {
		std::string tmp;
		for (int i = 0; i < cnt; i++) tmp.append((const char *)iov[i].iov_base, iov[i].iov_len);
		bool h;
		ssize_t r = vk_write_common(fd, tmp.data(), tmp.size(), h);
		if (!h) {
			r = __real_write(fd, tmp.data(), (size_t)r);
			if (active) sim::tr("sys writev fd=%d total=%zu -> %zd", fd, tmp.size(), r);
		}
		return r;
	}
	ssize_t r = __real_writev(fd, iov, cnt);
	if (active) sim::tr("sys writev fd=%d -> %zd/%d", fd, r, r < 0 ? errno : 0);
	return r;
}
ssize_t __wrap_pread(int fd, void *buf, size_t n, off_t off) {
	FdEnt *e = ent(fd);
	ScriptItem it;
	if (e && pop_script(e->rscript, it)) {
		sim::fault("script.pread");
		if (it.kind == ScriptItem::ERR) { errno = (int)it.v; return -1; }
		n = std::min<size_t>(n, (size_t)it.v);
	}
	return __real_pread(fd, buf, n, off);
}
ssize_t __wrap_sendfile(int out, int in, off_t *off, size_t n) {
	FdEnt *e = ent(out);
	ScriptItem it;
	size_t limit = n;
	if (e && pop_script(e->wscript, it)) {
		sim::fault("script.sendfile");
		if (it.kind == ScriptItem::ERR) { errno = (int)it.v; sim::tr("sys sendfile scripted errno=%d", errno); return -1; }
		limit = std::min<size_t>(n, (size_t)it.v);
		if (limit == 0) return 0;
	}
	if (e && e->kind == F_SIM && e->s) {
		std::string tmp(std::min<size_t>(limit, 1 << 20), '\0');
		ssize_t k = __real_pread(in, &tmp[0], tmp.size(), off ? *off : 0);
		if (k <= 0) return k;
		ssize_t r = sock_write(e->s, tmp.data(), k);
		if (r > 0) {
			if (off) *off += r;
			if (tap_stream) tap_stream(out, true, tmp.data(), r);
			if (io_ledger) io_ledger(out, true, r);
		}
		sim::tr("sys sendfile out=%d n=%zu -> %zd", out, n, r);
		return r;
	}
	ssize_t r = __real_sendfile(out, in, off, limit);
	if (active) sim::tr("sys sendfile out=%d n=%zu -> %zd/%d", out, n, r, r < 0 ? errno : 0);
	return r;
}

// ---- datagrams
ssize_t __wrap_sendto(int fd, const void *buf, size_t n, int flags, const struct sockaddr *to, socklen_t tolen) {
	FdEnt *e = ent(fd);
	if (!(e && e->kind == F_SIM && e->s)) return __real_sendto(fd, buf, n, flags, to, tolen);
	Sock *s = e->s;
	if (s->type != SOCK_DGRAM) {
		bool h;
		return vk_write_common(fd, buf, n, h);
	}
	ScriptItem it;
	if (pop_script(e->wscript, it) && it.kind == ScriptItem::ERR) { sim::fault("script.sendto.err"); errno = (int)it.v; return -1; }
	if (unusual(S_SENDTO_EAGAIN)) { errno = EAGAIN; return -1; }
	if (unusual(S_SENDTO_ERR)) { errno = ENETUNREACH; return -1; }
	if (!to) {
		if (!s->has_peer) { errno = EDESTADDRREQ; return -1; }
		to = (sockaddr *)&s->peer;
		tolen = s->peerlen;
	}
	autobind(s);
	if (tap_dgram) tap_dgram(fd, true, (const char *)buf, n, to);
	std::string key = addr_key(to);
	sim::tr("sys sendto fd=%d n=%zu to=%s", fd, n, key.c_str());
	auto dit = bound_dgram.find(key);
	if (dit == bound_dgram.end() || dit->second->closed) return (ssize_t)n;	// lost
	Sock *d = dit->second;
	Dgram g;
	g.data.assign((const char *)buf, n);
	g.from = s->local;
	g.fromlen = s->locallen;
	int copies = 1;
	if (unusual(S_DGRAM_DROP)) copies = 0;
	else if (unusual(S_DGRAM_DUP)) copies = 2;
	for (int c = 0; c < copies; c++) {
		int64_t lat = draw_lat();
		if (unusual(S_DGRAM_REORDER)) lat += net.lat_max_ns * 3 + 1000;
		at(G.now_ns + lat, [d, g]() {
			if (d->closed) return;
			if (d->is_ep) { if (d->cbs.on_dgram) d->cbs.on_dgram((Endpoint *)d, g.data, g.from, g.fromlen); }
			else d->dq.push_back(g);
		});
	}
	return (ssize_t)n;
}
ssize_t __wrap_recvfrom(int fd, void *buf, size_t n, int flags, struct sockaddr *from, socklen_t *fromlen) {
	FdEnt *e = ent(fd);
	if (!(e && e->kind == F_SIM && e->s)) return __real_recvfrom(fd, buf, n, flags, from, fromlen);
	Sock *s = e->s;
	if (s->type != SOCK_DGRAM) {
		bool h;
		return vk_read_common(fd, buf, n, h);
	}
	ScriptItem it;
	if (pop_script(e->rscript, it) && it.kind == ScriptItem::ERR) { sim::fault("script.recvfrom.err"); errno = (int)it.v; return -1; }
	if (unusual(S_RECV_EAGAIN)) { errno = EAGAIN; return -1; }
	if (s->dq.empty()) { errno = EAGAIN; return -1; }
	Dgram g = s->dq.front();
	s->dq.pop_front();
	size_t k = std::min(n, g.data.size());
	memcpy(buf, g.data.data(), k);
	if (from && fromlen) {
		socklen_t c = std::min(*fromlen, g.fromlen);
		memcpy(from, &g.from, c);
		*fromlen = g.fromlen;
	}
	if (tap_dgram) tap_dgram(fd, false, g.data.data(), g.data.size(), (sockaddr *)&g.from);
	sim::tr("sys recvfrom fd=%d -> %zu", fd, k);
	return (ssize_t)k;
}

// ---- socket lifecycle
int __wrap_socket(int family, int type, int proto) {
	if (active && net.sim_sockets && harness_depth == 0 &&
	    (family == AF_INET || family == AF_INET6 || family == AF_UNIX)) {
		int base = type & 0xf;
		Sock *s = new_sock(false, family, base);
		int fd = install_sock(s);
		sim::tr("sys socket fam=%d type=%d -> %d", family, base, fd);
		return fd;
	}
	int fd = __real_socket(family, type, proto);
	if (fd >= 0 && active) track(fd, F_REAL);
	return fd;
}
int __wrap_socketpair(int family, int type, int proto, int fds[2]) {
	int r = __real_socketpair(family, type, proto, fds);
	if (r == 0 && active) { track(fds[0], F_REAL); track(fds[1], F_REAL); }
	return r;
}
int __wrap_bind(int fd, const struct sockaddr *addr, socklen_t len) {
	FdEnt *e = ent(fd);
	if (!(e && e->kind == F_SIM && e->s)) return __real_bind(fd, addr, len);
	Sock *s = e->s;
	memset(&s->local, 0, sizeof s->local);
	memcpy(&s->local, addr, std::min<size_t>(len, sizeof s->local));
	s->locallen = len;
	if (get_port(addr) == 0) set_port(s->local, next_port++);
	std::string key = addr_key((sockaddr *)&s->local);
	auto &m = s->type == SOCK_DGRAM ? bound_dgram : bound_stream;
	if (m.count(key) && !m[key]->closed) { errno = EADDRINUSE; return -1; }
	s->bound = true;
	s->key = key;
	m[key] = s;
	sim::tr("sys bind fd=%d %s", fd, key.c_str());
	return 0;
}
int __wrap_listen(int fd, int backlog) {
	FdEnt *e = ent(fd);
	if (!(e && e->kind == F_SIM && e->s)) return __real_listen(fd, backlog);
	if (!e->s->bound) { autobind(e->s); e->s->key = addr_key((sockaddr *)&e->s->local); bound_stream[e->s->key] = e->s; }
	e->s->state = ST_LISTEN;
	return 0;
}
int __wrap_accept4(int fd, struct sockaddr *addr, socklen_t *len, int flags) {
	FdEnt *e = ent(fd);
	if (!(e && e->kind == F_SIM && e->s)) {
		int r = __real_accept4(fd, addr, len, flags);
		if (r >= 0 && active) track(r, F_REAL);
		return r;
	}
	ScriptItem it;
	auto fail = [&](int err) { if (accept_hook) accept_hook(fd, -1, -1, err); errno = err; return -1; };
	if (pop_script(e->rscript, it) && it.kind == ScriptItem::ERR) { sim::fault("script.accept.err"); sim::tr("sys accept fd=%d scripted errno=%d", fd, (int)it.v); return fail((int)it.v); }
	if (unusual(S_ACCEPT_EINTR)) return fail(EINTR);
	if (unusual(S_ACCEPT_EAGAIN)) return fail(EAGAIN);
	if (unusual(S_ACCEPT_ABORTED)) return fail(ECONNABORTED);
	if (unusual(S_ACCEPT_EMFILE)) return fail(EMFILE);
	Sock *l = e->s;
	if (l->state != ST_LISTEN) return fail(EINVAL);
	if (l->acceptq.empty()) return fail(EAGAIN);
	Sock *c = l->acceptq.front();
	l->acceptq.pop_front();
	int nfd = install_sock(c);
	if (nfd < 0) return -1;
	if (addr && len) {
		socklen_t k = std::min(*len, c->peerlen);
		memcpy(addr, &c->peer, k);
		*len = c->peerlen;
	}
	sim::tr("sys accept fd=%d -> %d", fd, nfd);
	if (accept_hook) accept_hook(fd, nfd, get_port((sockaddr *)&c->peer), 0);
	return nfd;
}
int __wrap_accept(int fd, struct sockaddr *addr, socklen_t *len) { return __wrap_accept4(fd, addr, len, 0); }
int __wrap_connect(int fd, const struct sockaddr *addr, socklen_t len) {
	FdEnt *e = ent(fd);
	if (!(e && e->kind == F_SIM && e->s)) return __real_connect(fd, addr, len);
	int r = sock_connect(e->s, addr, len);
	sim::tr("sys connect fd=%d %s -> %d/%d", fd, addr_key(addr).c_str(), r, r < 0 ? errno : 0);
	return r;
}
int __wrap_shutdown(int fd, int how) {
	FdEnt *e = ent(fd);
	if (!(e && e->kind == F_SIM && e->s)) return __real_shutdown(fd, how);
	Sock *s = e->s;
	if (s->state != ST_CONNECTED) { errno = ENOTCONN; return -1; }
	if (how == SHUT_WR || how == SHUT_RDWR) { if (!s->wr_shut) { s->wr_shut = true; if (!s->out->rst) schedule_fin(s->out); } }
	if (how == SHUT_RD || how == SHUT_RDWR) s->rd_shut = true;
	sim::tr("sys shutdown fd=%d how=%d", fd, how);
	return 0;
}
int __wrap_close(int fd) {
	FdEnt *e = ent(fd);
	if (e) {
		if (e->kind == F_SIM && e->s) {
			sock_close(e->s);
			e->s->fd = -1;
			for (int i = 0; i < VK_MAXFD; i++) if (tab[i] && tab[i]->ep) tab[i]->ep->items.erase(fd);
		}
		untrack(fd);
		if (active) sim::tr("sys close fd=%d", fd);
	}
	return __real_close(fd);
}
int __wrap_dup(int fd) {
	int r = __real_dup(fd);
	if (r >= 0 && active) track(r, F_REAL);
	return r;
}
int __wrap_dup2(int a, int b) {
	FdEnt *e = ent(b);
	bool was = e != nullptr;
	if (was) untrack(b);
	int r = __real_dup2(a, b);
	if (r >= 0 && active) track(b, F_REAL);
	return r;
}
int __wrap_fcntl(int fd, int cmd, ...) {
	va_list ap;
	va_start(ap, cmd);
	long arg = va_arg(ap, long);
	va_end(ap);
	FdEnt *e = ent(fd);
	if (e && e->kind == F_SIM) {
		switch (cmd) {
		case F_GETFL: return O_RDWR | O_NONBLOCK;
		case F_SETFL: return 0;
		case F_GETFD: return FD_CLOEXEC;
		case F_SETFD: return 0;
		default: break;
		}
	}
	int r = __real_fcntl(fd, cmd, arg);
	if (r >= 0 && active && (cmd == F_DUPFD || cmd == F_DUPFD_CLOEXEC)) track(r, F_REAL);
	return r;
}
int __wrap_ioctl(int fd, unsigned long req, ...) {
	va_list ap;
	va_start(ap, req);
	void *arg = va_arg(ap, void *);
	va_end(ap);
	FdEnt *e = ent(fd);
	if (req == FIONREAD && e) {
		if (e->has_fion) {
			e->has_fion = false;
			sim::fault("script.fionread");
			if (e->fion < 0) { errno = EINVAL; return -1; }
			*(int *)arg = (int)e->fion;
			return 0;
		}
		if (e->kind == F_SIM && e->s) {
			if (e->s->type == SOCK_DGRAM) *(int *)arg = e->s->dq.empty() ? 0 : (int)e->s->dq.front().data.size();
			else *(int *)arg = e->s->in ? (int)e->s->in->avail() : 0;
			return 0;
		}
	}
	if (e && e->kind == F_SIM) { if (req == FIONBIO) return 0; errno = ENOTTY; return -1; }
	return __real_ioctl(fd, req, arg);
}
int __wrap_getsockopt(int fd, int level, int name, void *val, socklen_t *len) {
	FdEnt *e = ent(fd);
	if (!(e && e->kind == F_SIM && e->s)) return __real_getsockopt(fd, level, name, val, len);
	if (level == SOL_SOCKET && name == SO_ERROR) {
		*(int *)val = e->s->so_error;
		e->s->so_error = 0;
		*len = sizeof(int);
		return 0;
	}
	if (level == SOL_SOCKET && name == SO_TYPE) { *(int *)val = e->s->type; *len = sizeof(int); return 0; }
	memset(val, 0, *len);
	return 0;
}
int __wrap_setsockopt(int fd, int level, int name, const void *val, socklen_t len) {
	FdEnt *e = ent(fd);
	if (!(e && e->kind == F_SIM && e->s)) return __real_setsockopt(fd, level, name, val, len);
	return 0;
}
int __wrap_getsockname(int fd, struct sockaddr *addr, socklen_t *len) {
	FdEnt *e = ent(fd);
	if (!(e && e->kind == F_SIM && e->s)) return __real_getsockname(fd, addr, len);
	Sock *s = e->s;
	if (!s->bound) {
		memset(addr, 0, *len);
		addr->sa_family = s->family;
		return 0;
	}
	socklen_t k = std::min(*len, s->locallen);
	memcpy(addr, &s->local, k);
	*len = s->locallen;
	return 0;
}
int __wrap_getpeername(int fd, struct sockaddr *addr, socklen_t *len) {
	FdEnt *e = ent(fd);
	if (!(e && e->kind == F_SIM && e->s)) return __real_getpeername(fd, addr, len);
	Sock *s = e->s;
	if (!s->has_peer || (s->type == SOCK_STREAM && s->state != ST_CONNECTED)) { errno = ENOTCONN; return -1; }
	socklen_t k = std::min(*len, s->peerlen);
	memcpy(addr, &s->peer, k);
	*len = s->peerlen;
	return 0;
}
int __wrap_pipe(int fds[2]) {
	int r = __real_pipe(fds);
	if (r == 0 && active) { track(fds[0], F_REAL); track(fds[1], F_REAL); }
	return r;
}
int __wrap_pipe2(int fds[2], int flags) {
	int r = __real_pipe2(fds, flags);
	if (r == 0 && active) { track(fds[0], F_REAL); track(fds[1], F_REAL); }
	return r;
}
int __wrap_eventfd(unsigned init, int flags) {
	int r = __real_eventfd(init, flags);
	if (r >= 0 && active) track(r, F_REAL);
	return r;
}
int __wrap_signalfd(int fd, const sigset_t *mask, int flags) {
	int r = __real_signalfd(fd, mask, flags);
	if (r >= 0 && active && fd < 0) track(r, F_REAL);
	return r;
}
int __wrap_open(const char *path, int flags, ...) {
	va_list ap;
	va_start(ap, flags);
	int mode = va_arg(ap, int);
	va_end(ap);
	int r = __real_open(path, flags, mode);
	if (r >= 0 && active) track(r, F_REAL);
	return r;
}

// ---- run scope
void vk_run_begin(void) {
	for (int i = 0; i < S_NSITES; i++) fault_pm[i] = 0;
	hooks = Hooks();
	wait_cap = 20000;
	rng_byte_mask = 0xff;
	net = NetCfg();
	connect_policy = nullptr;
	tap_stream = nullptr;
	tap_dgram = nullptr;
	io_ledger = nullptr;
	io_retry = nullptr;
	accept_hook = nullptr;
	while (!evq.empty()) evq.pop();
	evseq = 0;
	next_port = 40000;
	next_sock_id = 1;
	harness_depth = 0;
	active = true;
}
void vk_run_end(void) {
	active = false;
	hooks = Hooks();
	connect_policy = nullptr;
	tap_stream = nullptr;
	tap_dgram = nullptr;
	io_ledger = nullptr;
	io_retry = nullptr;
	accept_hook = nullptr;
	while (!evq.empty()) evq.pop();
	// close whatever is still tracked so the next run starts from the same fd set
	for (int i = 0; i < VK_MAXFD; i++) if (tab[i]) {
		__real_close(i);
		untrack(i);
	}
	socks.clear();
	pipes.clear();
	bound_stream.clear();
	bound_dgram.clear();
}

}	// extern "C"
