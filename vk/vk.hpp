// vkernel: the --wrap interposition layer. One link, two worlds:
//  * real fds: real syscalls with virtual time and plan-driven fault injection
//  * simulated fds: stream/datagram sockets, listeners, network and readiness in memory
#pragma once
#include <cstdint>
#include <functional>
#include <string>
#include <vector>
#include <sys/socket.h>
#include <netinet/in.h>
#include <poll.h>

namespace vk {

// ---- fault sites (buggify): per-run armed subset with per-site permille ----
enum Site {
	S_READ_SHORT, S_READ_EAGAIN, S_READ_EINTR, S_READ_ERR,
	S_WRITE_SHORT, S_WRITE_EAGAIN, S_WRITE_EINTR, S_WRITE_ERR,
	S_WAIT_EINTR, S_ACCEPT_EAGAIN, S_ACCEPT_EINTR, S_ACCEPT_ABORTED, S_ACCEPT_EMFILE,
	S_SENDTO_EAGAIN, S_SENDTO_ERR, S_RECV_EAGAIN,
	S_DGRAM_DROP, S_DGRAM_DUP, S_DGRAM_REORDER,
	S_NSITES
};
extern const char *const site_names[S_NSITES];
void set_fault(Site s, int permille);
bool unusual(Site s);	// draws from the buggify stream only when the site is armed

// ---- scripted results attached to one fd (explicit, op-attached faults) ----
struct ScriptItem {
	enum { BYTES, ERR } kind;
	int64_t v;	// BYTES: max bytes this call may move (0 => EOF for reads); ERR: errno
};
void script_read(int fd, ScriptItem it);
void script_write(int fd, ScriptItem it);
void script_clear(int fd);
void script_fionread(int fd, int64_t lie);	// next FIONREAD on fd returns this (-1: fail)

// ---- hooks the harness may set per run (cleared by run_begin) --------------
struct Hooks {
	std::function<void(int kind, int64_t timeout_ns, int epfd)> wait_enter;	// before every wait; timeout -1 = infinite
	std::function<void(int nready)> wait_exit;
	std::function<void()> stall;	// infinite wait, nothing can ever happen
	std::function<void()> capped;	// step cap reached
	std::function<void(int64_t from, int64_t to)> clock_jump;
	// poll/select snapshot for interest-set oracles
	std::function<void(const ::pollfd *fds, unsigned n)> poll_snapshot;
	std::function<void(int nfds, const void *r, const void *w)> select_snapshot;
	// threads: if set, a wait parks the calling thread instead of jumping the clock
	std::function<int(std::function<int()> query, int64_t deadline_ns)> block;
};
extern Hooks hooks;
extern uint64_t wait_cap;	// max wait calls per run
extern unsigned rng_byte_mask;	// applied to every byte the wrapped arc4random / arc4random_buf hands to the library
enum { W_EPOLL = 1, W_POLL = 2, W_SELECT = 3 };

// ---- discrete-event queue ---------------------------------------------------
void at(int64_t t_ns, std::function<void()> fn);
void after(int64_t dt_ns, std::function<void()> fn);
bool events_pending();
int64_t next_event_time();	// INT64_MAX if none
void run_due_events();
void advance(int64_t dt_ns);	// "slow callback": move the clock, do not run events
void advance_running(int64_t dt_ns);	// move the clock and deliver due simulator events

// ---- fd ledger (fdmon) -------------------------------------------------------
int open_fd_count_lib();	// fds opened through wrappers by library code and still open
std::string open_fd_list_lib();
void mark_harness_fd(int fd);	// fd opened by the harness on purpose (not a library leak)
struct HarnessScope { HarnessScope(); ~HarnessScope(); };	// fds opened inside belong to the harness

// ---- simulated network ---------------------------------------------------------
struct NetCfg {
	int64_t lat_min_ns = 1000, lat_max_ns = 1000;	// per segment
	int seg_mode = 0;	// 0: whole writes; 1: random cuts; 2: single bytes; 3: fixed seg_size
	int seg_size = 1460;
	size_t sockbuf = 65536;
	int64_t connect_lat_ns = 1000;
	bool sim_sockets = false;	// socket()/socketpair() from the library create simulated sockets
};
extern NetCfg net;

// scripted endpoint (the far end of a simulated connection, or a datagram party)
struct Endpoint;
struct EndpointCbs {
	std::function<void(Endpoint *, const std::string &)> on_data;
	std::function<void(Endpoint *)> on_eof;	// peer half-closed or closed
	std::function<void(Endpoint *)> on_reset;
	std::function<void(Endpoint *)> on_connected;
	std::function<void(Endpoint *, int err)> on_connect_failed;
	std::function<void(Endpoint *, const std::string &, const sockaddr_storage &from, socklen_t)> on_dgram;
	std::function<void(Endpoint *)> on_writable;
};
Endpoint *ep_listen(const sockaddr *addr, socklen_t len, std::function<void(Endpoint *conn)> on_accept);
Endpoint *ep_connect(const sockaddr *addr, socklen_t len, EndpointCbs cbs);
Endpoint *ep_dgram(const sockaddr *addr, socklen_t len, EndpointCbs cbs);
void ep_set_cbs(Endpoint *, EndpointCbs cbs);
size_t ep_send(Endpoint *, const std::string &bytes);	// stream: returns bytes accepted (send buffer)
void ep_send_cut(Endpoint *, const std::string &bytes, const std::vector<size_t> &cuts, int64_t gap_ns);	// explicit segmentation
void ep_sendto(Endpoint *, const std::string &bytes, const sockaddr *to, socklen_t len);
void ep_shutdown(Endpoint *);	// FIN after pending data
void ep_close(Endpoint *);
void ep_reset(Endpoint *);
void ep_pause_reading(Endpoint *, bool paused);	// stop consuming: back-pressure on the library writer
void ep_free(Endpoint *);
int ep_id(Endpoint *);
uint64_t ep_bytes_received(Endpoint *);
void *&ep_user(Endpoint *);
bool ep_open(Endpoint *);

// connect policy for library-side connect(): decided by the harness per call
struct ConnectDecision { int err = 0; int64_t lat_ns = -1; bool never = false; bool immediate = false; };
extern std::function<ConnectDecision(const sockaddr *, socklen_t)> connect_policy;

// wire taps: every byte the library writes to / reads from a simulated stream socket
extern std::function<void(int fd, bool out, const char *p, size_t n)> tap_stream;
extern std::function<void(int fd, bool out, const char *p, size_t n, const sockaddr *peer)> tap_dgram;
// ledger of every read/write syscall on a simulated stream (C22)
extern std::function<void(int fd, bool out, size_t n)> io_ledger;
extern std::function<void(int fd, bool out)> io_retry;	// an injected EINTR / EAGAIN: the call was made, nothing moved
// every accept4() on a simulated listener: new_fd >= 0 with the client's port, or new_fd < 0 and the errno returned
extern std::function<void(int listen_fd, int new_fd, int peer_port, int err)> accept_hook;
int ep_local_port(Endpoint *);
int ep_state(Endpoint *);	// 0 new/connecting, 1 connected, 2 failed, 3 closed

// harness-side simulated socketpair (both ends are fds usable by the library)
int sim_socketpair(int fds[2]);
bool is_sim_fd(int fd);
size_t sim_unread(int fd);
size_t sim_unsent_room(int fd);
bool sim_connected(int fd);
void sim_inject_reset(int fd);	// RST arrives on this library-side socket now
void sim_set_sockbuf(int fd, size_t cap);

sockaddr_in addr4(uint32_t host_be_order_ip, uint16_t port);
std::string addr_str(const sockaddr *sa);

}	// namespace vk

extern "C" {
void vk_run_begin(void);
void vk_run_end(void);
int64_t vk_real_mono_ns(void);
}
